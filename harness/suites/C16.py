"""C16 - every REST operation is authorised and guarded before it has any effect.

What is tied to what
  Gen/ApiTable.v (translate/tr_apitable.py, Python ast over mistral/api/controllers/**,
  mistral/policies/*.py): per exposed controller method the ordered effects up to the first
  data access, and the rule registry.  Coq theorems over that table + Model/Rest.v
  (Properties/C16.v).  This suite runs the REAL WSGI application
  (pecan.testing.load_test_app(dict(pecan_app.get_pecan_config())), real hooks, real
  acl.enforce / oslo.policy enforcer, real sqlite database, engine RPC client replaced by a
  recorder) and compares:

  enumerate   exposed methods found by walking the live controller objects  ==  table rows
  handle      Model.Rest.handle on the table row (vm_compute) vs the real request, for every
              method x {all rules allowed, first rule denied, every rule denied, conditional rule
              denied with the condition on/off, auth_enable_check on/off} x resource present/absent:
              refusal class + "database unchanged, no engine call"
  policy_eval Model.Rest.enforce_allows (rule expression of the loaded policy x caller facts x target, no
              case for administrators) vs the REAL acl.enforce / oslo.policy enforcer on generated rule
              assignments ("!", "@", role:, rule:, is_admin:, project_id:, and/or/not, overridden base
              rules) x callers {admin, owner, other-project member, no roles, mixed-case roles}
  callers     every guarded endpoint (incl. get_all with all_projects=true / project_id and create/update
              with scope=public) x those callers x policy files overriding the decisive rule: handle under
              policy_env vs the real application
  trace       the acl.enforce calls the real request makes before its first SQL statement /
              engine call  ==  the Enforce / applicable CondEnforce effects of the table row;
              no enforce after the first data access
  exec_put / exec_delete / task_put / action_put / action_delete
              Model.Rest decision functions vs PUT/DELETE through the WSGI app for every
              combination of current state x requested state text x fields x present/absent:
              status, engine call (name + decisive arguments), rows written / deleted

Oracle (no model, no table): for every exposed method outside the documented allow-list
  * with EVERY policy rule denied the answer is 403 (400 from auth_enable_check for members when
    authentication is off), whether or not the resource exists, every table of the database is
    byte-for-byte unchanged and the engine is not called;
  * denying only the rule the registry documents for (verb, resource) has the same effect;
  * for every caller - administrators included - and every policy file of the grid: when the policy
    language (py_decide: expression, caller facts, caller's own target; written independently of
    oslo.policy and of the Coq model) denies the rule an endpoint checks, the answer is 403 and nothing
    is read or changed; acl.enforce itself refuses whenever the loaded policy denies the caller;
  * under the default policy a non-admin caller listing with all_projects (or project_id) gets 403,
    and a non-admin caller creating/updating with scope=public gets 403 with the database unchanged;
  * state-changing requests: the engine is asked only for the documented moves (execution:
    pause for PAUSED, resume for RUNNING, stop for SUCCESS/ERROR/CANCELLED [SKIPPED is forwarded
    and ignored by the engine - observation]; task: rerun only from ERROR to RUNNING/SKIPPED;
    action execution: only SUCCESS/ERROR/CANCELLED/PAUSED/RUNNING), a description is never written
    together with a state, an unfinished execution is deleted only with force.

Finding on the unchanged tree (reported by the oracle, signature
exec-delete:force-text-not-true-deletes-unfinished; modelled faithfully, see
C16_execution_delete_without_force_refuted / C16_execution_delete_in_source):
  DELETE /v2/executions/<id>?force=false (also force=0, force=no, force=False) deletes an
  unfinished execution: the parameter is declared `bool` to wsme 0.13, which converts with
  bool(text), so every non-empty text means True.  Fix tested in a scratch worktree: declare the
  parameter as text and parse it with oslo_utils.strutils.bool_from_string (the extractor then emits
  exec_delete_force_conv = ConvStrutils and the check is green).

Self-test (scratch worktree of /repo with the fix above applied so that the baseline is green,
`VERIF_REPO=/tmp/wt_C16 ./check C16`); each line: mutation -> how it was reported
  M1  task.py TasksController.put: `task_ex.state != ERROR` guard removed
        -> VIOLATION task-put:not-from-error (PUT {'state':'RUNNING','reset':true} on an IDLE task calls the engine)
  M3  workbook.py WorkbooksController.put: `if scope == 'public': acl.enforce('workbooks:publicize')` removed
        -> VIOLATION publicize-not-refused:WorkbooksController.put (+ theorems broken)
  M4  execution.py ExecutionsController.delete: `if not force:` -> `if force:`
        -> VIOLATION exec-delete:unfinished-without-force
  M5  cron_trigger.py CronTriggersController.delete: acl.enforce('cron_triggers:get', ...) (wrong rule)
        -> VIOLATION denied-but-effect:CronTriggersController.delete (documented rule denied, row deleted; theorems broken)
  M6  environment.py EnvironmentController.get: acl.enforce moved after the database read
        -> VIOLATION denied-but-effect:EnvironmentController.get (403 but a SELECT ran first; theorems broken)
  M7  action_execution.py: SUPPORTED_TRANSITION_STATES gains states.IDLE
        -> VIOLATION ... no-failing-input-found (C16_action_supported_states no longer holds; the request only crashes with 500)
  M8  execution.py put: "description must be updated separately from state" check removed
        -> VIOLATION exec-put:description-with-state / exec-put:refused-with-effect
  M9  task.py: new exposed TasksController.delete without acl.enforce
        -> VIOLATION denied-but-effect:TasksController.delete (synthesized request), no-documented-rule, theorems broken
  M10 event_trigger.py get_all: `if all_projects: acl.enforce(... list:all_projects)` removed
        -> VIOLATION all-projects-not-refused:EventTriggersController.get_all
  M11 member.py MembersController.delete: acl.enforce removed -> VIOLATION denied-but-effect:MembersController.delete
  M12 policies/workflow.py: workflows:publicize check_str admin_only -> admin_or_owner
        -> VIOLATION publicize-not-refused:WorkflowsController.post/put (+ C16_publicize broken)
  M13 execution.py put: `elif states.is_completed(state)` -> `elif state != IDLE` -> VIOLATION exec-put:undocumented-stop
  M14b rest_utils.wrap_pecan_controller_exception: status=e.http_code -> status=400 -> VIOLATION (403 required)
  M15 access_control.enforce: do_raise default False -> VIOLATION (every denied request goes through)
  M16 task.py put: target-state check loosened to states.is_valid -> VIOLATION task-put:undocumented-target
  S1  (seeded by the lead) access_control.enforce: `if context.is_admin: return True` before the enforcer call
        -> translate:Gen/ApiTable.v broken (enforce() is not the plain delegation) and VIOLATION
           policy-denied-but-served:admin-caller / enforce-ignores-policy:admin-caller (admin, rule assigned "!")
  S2  execution.py delete: `if not context.ctx().is_admin: acl.enforce('executions:delete', ...)`
        -> translate broken (enforce under an unrecognised condition) and VIOLATION policy-denied-but-served:admin-caller
           (admin DELETE under "executions:delete": "!" answered 204, row deleted; found on the lenient table)
  S3  access_control.enforce: policy_context['is_admin'] = context.is_admin or 'member' in roles
        -> translate broken and VIOLATION policy-denied-but-served:non-admin-caller (rule:admin_only served to a member)
  Not reported, and rightly so (equivalent with respect to the property):
  M2  execution.py get_all: `if all_projects or project_id:` -> `if all_projects:`  (a non-admin's project_id
      filter stays inside the secured query: no row of another project is shown; oracle `foreign-project`)
  M14 rest_utils.wrap_wsme_controller_exception: status_code=400 (dead code: wsexpose formats the
      exception itself from e.code before the wrapper sees it)
"""
import copy
import hashlib
import json
import os
import sys

from harness import core
from harness.core import coq_str, coq_list, coq_bool

GEN = ['States', 'ApiTable']

MANIFEST = {
    'level_text': 'Coq theorems (Properties/C16.v): for ALL effect lists, environments, continuations and databases a '
                  'denied applicable acl.enforce before the first data access leaves the database unchanged, answers '
                  '403 (or an earlier guard code) and never runs the rest of the method (induction on the list), and '
                  'any sequence of such requests leaves the database unchanged (induction on the sequence); over the '
                  'generated table of all exposed controller methods (the table is the whole finite domain, bound in '
                  'the statement): every method outside the explicit allow-list enforces first a registered rule '
                  'documented for its verb/resource and named after its action, all_projects / publicize rules are '
                  'admin-only and enforced under their condition before any data access, every documented operation '
                  'of such a rule is implemented, unguarded / pre-guarded methods and unused rules are exactly the '
                  'listed ones; the policy decision is a function of the rule expression in the loaded policy, the '
                  'caller (roles, is_admin, ids) and the target only: denied-by-policy => 403 and database unchanged '
                  'for EVERY caller incl. admin and every rule assignment ("!" and role rules included), all_projects / '
                  'publicize need their own rules for every caller, registered defaults characterised; decision '
                  'functions of execution PUT/DELETE, task PUT, action-execution PUT/DELETE '
                  'for every request text x field combination. Table extracted from the source on every run; model '
                  'tied to the code by running every method of the real WSGI app (denied/allowed x present/absent, '
                  'callers {admin, owner, other project, no roles} x policy-file overrides, enforce/SQL/RPC traces), the '
                  'real acl.enforce on generated rule expressions x callers, and every state/field combination.',
    'level_note': 'Policy language modelled for the subset @ ! role: rule: is_admin:/project_id:/user_id: and/or/not '
                  '(other oslo.policy checks, e.g. http:, are outside the model; the registered defaults are inside). '
                  'Trusted: the extractor translate/tr_apitable.py (its static reading is cross-checked against the '
                  'live controller tree, the registry object and the runtime enforce/SQL/RPC trace of every method), '
                  'pecan/wsme routing and argument parsing, oslo.policy rule evaluation, keystone authentication '
                  '(AuthHook is exercised with a stub handler), SQLAlchemy/sqlite. The engine behind the RPC client '
                  'is replaced by a recorder: what the engine does with a forwarded state is outside C16. '
                  'MaintenanceController.get/put enforce no rule and none is documented (observation, allow-listed).',
    'technique': 'Coq proof over extracted table + hand model; exhaustive differential runs through the real WSGI app',
    'design_ref': '6 C16',
}

IMPORTS = ['Gen.States', 'Model.Rest', 'Gen.ApiTable']

WITH_MODEL = [True]     # the widened search after a broken obligation judges with the oracles only


def model_eval(name, exprs, imports=None, **kw):
    """vm_compute of the model expressions; [None, ...] in oracle-only mode"""
    if not WITH_MODEL[0]:
        return [None] * len(exprs)
    return core.coq_eval(name, imports or IMPORTS, exprs, **kw)

UNGUARDED_ALLOWLIST = {
    'RootController.index', 'Controller.index', 'InfoController.get', 'SpecValidationController.post',
    'WorkflowsController._lookup', 'MaintenanceController.get', 'MaintenanceController.put'}

ABSENT = '00000000-0000-4000-8000-00000000dead'
OTHER_PROJECT = '12345678-1234-4234-8234-123456789abc'

WF_TEXT = """---
version: '2.0'
c16_wf:
  type: direct
  tasks:
    t1:
      action: std.noop
"""
WF2_TEXT = WF_TEXT.replace('c16_wf', 'c16_wf_new')
WB_TEXT = """---
version: '2.0'
name: c16_wb
workflows:
  w1:
    type: direct
    tasks:
      t1:
        action: std.noop
"""
WB2_TEXT = WB_TEXT.replace('c16_wb', 'c16_wb_new')
ACT_TEXT = """---
version: '2.0'
c16_act:
  base: std.echo
  base-input:
    output: hi
"""
ACT2_TEXT = ACT_TEXT.replace('c16_act', 'c16_act_new')
CODE_TEXT = "class C16Action(object):\n    pass\n"


# ===========================================================================
# The live application

class App:
    """The real WSGI app on an in-memory database, with recorders around acl.enforce,
    SQL statements and the engine RPC client."""

    def __init__(self):
        import mistral.tests.unit  # noqa: selects the threading backend exactly like the unit tests
        from oslo_config import cfg
        from mistral.db.v2 import api as db_api
        from mistral import context as auth_context
        from mistral.tests.unit import base as tbase
        from mistral.api import app as pecan_app
        from mistral.api import access_control as acl
        from mistral import policies
        from mistral.rpc import clients as rpc
        from mistral.db.sqlalchemy import base as sa_base
        from mistral.api.hooks import maintenance as mhook
        from oslo_policy import policy as oslo_policy, opts as policy_opts
        import pecan.testing
        import sqlalchemy as sa
        from unittest import mock

        self.cfg, self.db_api, self.acl, self.rpc, self.oslo_policy = cfg, db_api, acl, rpc, oslo_policy
        self.auth_context = auth_context
        cfg.CONF.set_default('connection', 'sqlite://', group='database')
        cfg.CONF.set_default('max_overflow', -1, group='database')
        cfg.CONF.set_default('max_pool_size', 1000, group='database')
        db_api.setup_db()
        self.owner_ctx = tbase.get_context()
        self.owner_ctx.roles = ['member']
        self.ctx = self.owner_ctx
        mk = auth_context.MistralContext.from_dict
        self.callers = {
            'owner': self.owner_ctx,
            'admin': mk({'user_name': 'adm', 'user': 'admin-user', 'tenant': self.owner_ctx.project_id,
                         'project_id': self.owner_ctx.project_id, 'project_name': 'test-project',
                         'is_admin': True, 'roles': ['admin']}),
            'other': mk({'user_name': 'oth', 'user': 'other-user', 'tenant': OTHER_PROJECT, 'project_id': OTHER_PROJECT,
                         'project_name': 'other-project', 'is_admin': False, 'roles': ['member']}),
            'noroles': mk({'user_name': 'nor', 'user': 'noroles-user', 'tenant': self.owner_ctx.project_id,
                           'project_id': self.owner_ctx.project_id, 'project_name': 'test-project',
                           'is_admin': False, 'roles': []}),
            'Reader': mk({'user_name': 'rdr', 'user': 'reader-user', 'tenant': OTHER_PROJECT, 'project_id': OTHER_PROJECT,
                          'project_name': 'other-project', 'is_admin': False, 'roles': ['Reader', 'MEMBER']}),
        }
        self.other_ctx = auth_context.MistralContext.from_dict({
            'user_name': 'other-user', 'user': '9-0-44-5', 'tenant': OTHER_PROJECT, 'project_id': OTHER_PROJECT,
            'project_name': 'other-project', 'is_admin': False})
        auth_context.set_ctx(self.ctx)
        cfg.CONF.set_override('auth_enable', False, group='pecan')
        cfg.CONF.set_override('enabled', False, group='cron_trigger')
        cfg.CONF.set_override('only_builtin_actions', True, 'legacy_action_provider')
        cfg.CONF.set_override('load_action_generators', False, 'legacy_action_provider')
        cfg.CONF.set_override('allow_action_execution_deletion', True, group='api')
        self.app = pecan.testing.load_test_app(dict(pecan_app.get_pecan_config()))
        self._p_ctx = mock.patch('mistral.context.MistralContext.from_environ')
        m = self._p_ctx.start()
        m.side_effect = lambda *a, **k: self.ctx
        policy_opts.set_defaults(cfg.CONF)
        acl._ENFORCER = oslo_policy.Enforcer(cfg.CONF)
        acl._ENFORCER.register_defaults(policies.list_rules())
        acl._ENFORCER.load_rules()
        self.enf = acl._ENFORCER
        self.rule_names = sorted(self.enf.registered_rules)
        self.registry = {r.name: r for r in policies.list_rules()}

        # --- recorders -------------------------------------------------------------
        self.events = []
        self.in_hook = 0
        real_enforce = acl.enforce

        def rec_enforce(action, context, *a, **kw):
            self.events.append(('E', action))
            return real_enforce(action, context, *a, **kw)
        acl.enforce = rec_enforce

        self.engine = sa_base.get_engine()

        def on_sql(conn, cursor, statement, parameters, context, executemany):
            if self.in_hook:
                return
            s = statement.lstrip().split(None, 1)[0].upper() if statement.strip() else ''
            if s in ('SELECT', 'INSERT', 'UPDATE', 'DELETE'):
                self.events.append(('D', 'sql:' + s))
        sa.event.listen(self.engine, 'before_cursor_execute', on_sql)

        real_before = mhook.MaintenanceHook.before

        def hook_before(hself, state):
            self.in_hook += 1
            try:
                return real_before(hself, state)
            finally:
                self.in_hook -= 1
        mhook.MaintenanceHook.before = hook_before

        app_self = self

        class EngineRecorder:
            def __getattr__(self, name):
                def call(*a, **kw):
                    app_self.events.append(('D', 'rpc:' + name))
                    app_self.rpc_calls.append((name, a, kw))
                    return app_self.rpc_result(name, a, kw)
                return call
        self.rpc_calls = []
        rec = EngineRecorder()
        rpc.get_engine_client = lambda: rec
        rpc.get_event_engine_client = lambda: rec

        # authentication stub for the members controller (needs auth_enable at request time)
        from mistral import auth

        class OkHandler:
            def authenticate(self, req):
                return None
        auth.get_auth_handler = lambda: OkHandler()

        self.meta_tables = None
        self.ids = {}

    # -- policy -----------------------------------------------------------------
    def set_policy(self, mode, names=()):
        """mode: 'default' | 'allow_all' | 'deny_all' | 'deny' (names denied, rest allowed)"""
        P = self.oslo_policy
        for n in self.rule_names:
            if mode == 'default':
                chk = self.enf.registered_rules[n].check
            elif mode == 'allow_all':
                chk = P.RuleDefault(n, '@').check
            elif mode == 'deny_all':
                chk = P.RuleDefault(n, '!').check
            else:
                chk = P.RuleDefault(n, '!' if n in names else '@').check
            self.enf.rules[n] = chk

    def set_auth(self, on):
        self.cfg.CONF.set_override('auth_enable', bool(on), group='pecan')

    def set_admin(self, on):
        self.owner_ctx.is_admin = bool(on)

    def set_caller(self, name):
        self.ctx = self.callers[name]
        self.auth_context.set_ctx(self.ctx)

    def set_rules(self, overrides):
        """registered defaults, except the given {rule: check string} (an operator's policy file)"""
        P = self.oslo_policy
        for n in self.rule_names:
            self.enf.rules[n] = P.RuleDefault(n, overrides[n]).check if n in overrides else self.enf.registered_rules[n].check

    # -- rpc results --------------------------------------------------------------
    def rpc_result(self, name, a, kw):
        if name in ('pause_workflow', 'resume_workflow', 'stop_workflow', 'start_workflow'):
            return {'id': self.ids.get('wf_ex', ABSENT), 'workflow_name': 'c16_wf', 'state': 'RUNNING',
                    'input': {}, 'output': {}, 'params': {}}
        if name in ('start_action', 'on_action_complete', 'on_action_update'):
            return {'id': self.ids.get('ad_hoc_action_ex', ABSENT), 'name': 'std.echo', 'state': 'RUNNING',
                    'input': {}, 'output': {}}
        return None

    # -- database -----------------------------------------------------------------
    def tables(self):
        if self.meta_tables is None:
            from mistral.db.sqlalchemy import model_base
            self.meta_tables = sorted(model_base.MistralModelBase.metadata.tables.values(), key=lambda t: t.name)
        return self.meta_tables

    def db_dump(self):
        """{table: sorted rows as text} read through a raw connection (not recorded)."""
        self.in_hook += 1
        try:
            out = {}
            with self.engine.connect() as c:
                for t in self.tables():
                    rows = [repr(tuple(r)) for r in c.execute(t.select())]
                    out[t.name] = sorted(rows)
            return out
        finally:
            self.in_hook -= 1

    def db_hash(self):
        return hashlib.sha1(json.dumps(self.db_dump(), sort_keys=True).encode()).hexdigest()

    def wipe(self):
        self.in_hook += 1
        try:
            from mistral.db.sqlalchemy import model_base
            with self.engine.begin() as c:
                for t in reversed(model_base.MistralModelBase.metadata.sorted_tables):
                    if 'metric' in t.name:
                        continue
                    c.execute(t.delete())
        finally:
            self.in_hook -= 1

    def seed(self, wf_state='RUNNING', task_state='ERROR', with_items=False, action_state='RUNNING',
             adhoc_state='SUCCESS'):
        """Fresh rows for every resource type; returns ids."""
        from mistral.lang import parser as spec_parser
        db_api = self.db_api
        self.clean_hash = None
        self.wipe()
        spec_parser.clear_caches()
        self.in_hook += 1
        try:
            self.auth_context.set_ctx(self.owner_ctx)
            ids = {}
            with db_api.transaction():
                if not hasattr(self, '_specs'):
                    self._specs = (
                        spec_parser.get_workflow_list_spec_from_yaml(WF_TEXT).get_workflows()[0].to_dict(),
                        spec_parser.get_workbook_spec_from_yaml(WB_TEXT).to_dict(),
                        spec_parser.get_action_list_spec_from_yaml(ACT_TEXT).get_actions()[0].to_dict())
                wf_spec, wb_spec, act_spec = copy.deepcopy(self._specs)
                wf = db_api.create_workflow_definition({
                    'id': '11111111-1111-4111-8111-111111111111', 'name': 'c16_wf', 'namespace': '',
                    'definition': WF_TEXT, 'spec': wf_spec, 'scope': 'private', 'tags': [], 'is_system': False})
                ids['wf'] = wf.id
                wb = db_api.create_workbook({
                    'id': '22222222-2222-4222-8222-222222222222', 'name': 'c16_wb', 'namespace': '',
                    'definition': WB_TEXT, 'spec': wb_spec, 'scope': 'private', 'tags': []})
                ids['wb'] = wb.id
                act = db_api.create_action_definition({
                    'id': '33333333-3333-4333-8333-333333333333', 'name': 'c16_act', 'namespace': '',
                    'definition': ACT_TEXT, 'spec': act_spec, 'scope': 'private', 'tags': [], 'is_system': False,
                    'description': '', 'input': ''})
                ids['act'] = act.id
                cs = db_api.create_code_source({
                    'id': '44444444-4444-4444-8444-444444444444', 'name': 'c16_cs', 'namespace': '',
                    'content': CODE_TEXT, 'version': 1, 'scope': 'private', 'tags': []})
                ids['cs'] = cs.id
                da = db_api.create_dynamic_action_definition({
                    'id': '55555555-5555-4555-8555-555555555555', 'name': 'c16_da', 'namespace': '',
                    'class_name': 'C16Action', 'code_source_id': cs.id, 'code_source_name': 'c16_cs',
                    'scope': 'private'})
                ids['da'] = da.id
                env = db_api.create_environment({
                    'id': '66666666-6666-4666-8666-666666666666', 'name': 'c16_env', 'description': 'd',
                    'variables': {'k': 'v'}, 'scope': 'private'})
                ids['env'] = env.id
                ct = db_api.create_cron_trigger({
                    'id': '77777777-7777-4777-8777-777777777777', 'name': 'c16_ct', 'pattern': '* * * * *',
                    'workflow_name': 'c16_wf', 'workflow_id': wf.id, 'workflow_input': {}, 'workflow_params': {},
                    'scope': 'private', 'remaining_executions': 5,
                    'next_execution_time': __import__('datetime').datetime(2030, 1, 1)})
                ids['ct'] = ct.id
                et = db_api.create_event_trigger({
                    'id': '88888888-8888-4888-8888-888888888888', 'name': 'c16_et', 'workflow_id': wf.id,
                    'workflow_input': {}, 'workflow_params': {}, 'exchange': 'ex', 'topic': 'tp', 'event': 'ev',
                    'scope': 'private'})
                ids['et'] = et.id
                wf_ex = db_api.create_workflow_execution({
                    'id': '99999999-9999-4999-8999-999999999999', 'name': 'c16_wf', 'workflow_name': 'c16_wf',
                    'workflow_id': wf.id, 'workflow_namespace': '', 'description': 'orig', 'spec': wf_spec,
                    'state': wf_state, 'state_info': None, 'context': {}, 'input': {}, 'output': {},
                    'params': {'env': {'k1': 'abc'}}})
                ids['wf_ex'] = wf_ex.id
                task_spec = {'type': 'direct', 'version': '2.0', 'name': 't1', 'action': 'std.noop'}
                if with_items:
                    task_spec['with-items'] = 'var in [1, 2, 3]'
                task_ex = db_api.create_task_execution({
                    'id': 'aaaaaaaa-aaaa-4aaa-8aaa-aaaaaaaaaaaa', 'name': 't1', 'workflow_name': 'c16_wf',
                    'workflow_id': wf.id, 'spec': task_spec, 'state': task_state, 'tags': [], 'in_context': {},
                    'runtime_context': {}, 'workflow_execution_id': wf_ex.id, 'published': {}, 'processed': True,
                    'type': 'ACTION'})
                ids['task_ex'] = task_ex.id
                a_ex = db_api.create_action_execution({
                    'id': 'bbbbbbbb-bbbb-4bbb-8bbb-bbbbbbbbbbbb', 'name': 'std.noop', 'workflow_name': 'c16_wf',
                    'task_execution_id': task_ex.id, 'state': action_state, 'tags': [], 'accepted': True,
                    'input': {}, 'output': {}, 'runtime_context': {}})
                ids['action_ex'] = a_ex.id
                adhoc = db_api.create_action_execution({
                    'id': 'cccccccc-cccc-4ccc-8ccc-cccccccccccc', 'name': 'std.echo', 'state': adhoc_state,
                    'tags': [], 'accepted': True, 'input': {}, 'output': {}, 'runtime_context': {}})
                ids['ad_hoc_action_ex'] = adhoc.id
                mem = db_api.create_resource_member({
                    'id': 'dddddddd-dddd-4ddd-8ddd-dddddddddddd', 'resource_id': wf.id, 'resource_type': 'workflow',
                    'member_id': 'other-project', 'status': 'pending'})
                ids['member'] = mem.member_id
            # private rows of ANOTHER project (for the cross-project listing oracle)
            self.auth_context.set_ctx(self.other_ctx)
            try:
                with db_api.transaction():
                    owf = db_api.create_workflow_definition({
                        'id': 'e1111111-1111-4111-8111-111111111111', 'name': 'c16_foreign_wf', 'namespace': '',
                        'definition': WF_TEXT, 'spec': wf_spec, 'scope': 'private', 'tags': [], 'is_system': False})
                    db_api.create_workflow_execution({
                        'id': 'e9999999-9999-4999-8999-999999999999', 'name': 'c16_foreign_wf', 'workflow_name': 'c16_foreign_wf',
                        'workflow_id': owf.id, 'workflow_namespace': '', 'description': 'c16_foreign_ex', 'spec': wf_spec,
                        'state': 'SUCCESS', 'context': {}, 'input': {}, 'output': {}, 'params': {}})
                    db_api.create_cron_trigger({
                        'id': 'e7777777-7777-4777-8777-777777777777', 'name': 'c16_foreign_ct', 'pattern': '* * * * *',
                        'workflow_name': 'c16_foreign_wf', 'workflow_id': owf.id, 'workflow_input': {}, 'workflow_params': {},
                        'scope': 'private', 'remaining_executions': 5,
                        'next_execution_time': __import__('datetime').datetime(2030, 1, 1)})
                    db_api.create_event_trigger({
                        'id': 'e8888888-8888-4888-8888-888888888888', 'name': 'c16_foreign_et', 'workflow_id': owf.id,
                        'workflow_input': {}, 'workflow_params': {}, 'exchange': 'ex', 'topic': 'tp', 'event': 'ev9',
                        'scope': 'private'})
                    ocs = db_api.create_code_source({
                        'id': 'e4444444-4444-4444-8444-444444444444', 'name': 'c16_foreign_cs', 'namespace': '',
                        'content': CODE_TEXT, 'version': 1, 'scope': 'private', 'tags': []})
                    db_api.create_dynamic_action_definition({
                        'id': 'e5555555-5555-4555-8555-555555555555', 'name': 'c16_foreign_da', 'namespace': '',
                        'class_name': 'C16Action', 'code_source_id': ocs.id, 'code_source_name': 'c16_foreign_cs',
                        'scope': 'private'})
            finally:
                self.auth_context.set_ctx(self.ctx)
            self.ids = ids
            return ids
        finally:
            self.in_hook -= 1

    def ensure_seed(self, **kw):
        """the standard rows in the asked states, re-created only if an earlier request changed them"""
        want = json.dumps(kw, sort_keys=True)
        if getattr(self, 'clean_hash', None) is None or self.seeded_as != want or self.db_hash() != self.clean_hash:
            self.seed(**kw)
            self.seeded_as = want
            self.clean_hash = self.db_hash()
        return self.ids

    # -- one request ----------------------------------------------------------------
    def request(self, req):
        """req: dict(verb, url, body, ctype). Returns status, events, rpc calls."""
        self.events = []
        self.rpc_calls = []
        self.auth_context.set_ctx(self.ctx)
        headers = {}
        body = req.get('body')
        ctype = req.get('ctype')
        verb = req['verb']
        kw = {'expect_errors': True, 'headers': headers}
        if verb == 'GET':
            r = self.app.get(req['url'], **kw)
        elif verb == 'DELETE':
            r = self.app.delete(req['url'], **kw)
        else:
            fn = self.app.post if verb == 'POST' else self.app.put
            if ctype == 'json':
                fn = self.app.post_json if verb == 'POST' else self.app.put_json
                r = fn(req['url'], body if body is not None else {}, **kw)
            else:
                headers['Content-Type'] = 'text/plain'
                r = fn(req['url'], body or '', **kw)
        self.auth_context.set_ctx(self.ctx)
        self.last_body = r.text
        return r.status_int, list(self.events), list(self.rpc_calls)


_APP = None


def get_app():
    global _APP
    if _APP is None:
        _APP = App()
    return _APP


# ===========================================================================
# Requests for every exposed method.  key = 'Class.method' ; mount given when a class is mounted twice.

def build_requests(ids, key, mount):
    """-> list of dict(tag, verb, url, body, ctype, cond(list of cond names holding)) ; tag in
    present / absent / collection.  `scope_public` / `all_projects` variants are derived by the caller."""
    J = 'json'
    wf, wf_ex, task_ex = ids['wf'], ids['wf_ex'], ids['task_ex']
    R = {
        'RootController.index': [('collection', 'GET', '/', None, None)],
        'Controller.index': [('collection', 'GET', '/v2/', None, None)],
        'InfoController.get': [('collection', 'GET', '/info', None, None)],
        'MaintenanceController.get': [('collection', 'GET', '/maintenance', None, None)],
        'MaintenanceController.put': [('collection', 'PUT', '/maintenance', {'status': 'RUNNING'}, J)],
        'SpecValidationController.post': [('collection', 'POST', '/' + '/'.join(s for s in mount if s != '{}'),
                                           WF_TEXT, None)],
        'WorkflowsController._lookup': [('present', 'GET', '/v2/workflows/%s/members' % wf, None, None)],

        'WorkflowsController.get': [('present', 'GET', '/v2/workflows/c16_wf', None, None),
                                    ('absent', 'GET', '/v2/workflows/nosuch', None, None)],
        'WorkflowsController.get_all': [('collection', 'GET', '/v2/workflows', None, None)],
        'WorkflowsController.post': [('collection', 'POST', '/v2/workflows', WF2_TEXT, None)],
        'WorkflowsController.put': [('present', 'PUT', '/v2/workflows', WF_TEXT, None),
                                    ('absent', 'PUT', '/v2/workflows', WF2_TEXT, None)],
        'WorkflowsController.delete': [('present', 'DELETE', '/v2/workflows/c16_wf', None, None),
                                       ('absent', 'DELETE', '/v2/workflows/nosuch', None, None)],

        'WorkbooksController.get': [('present', 'GET', '/v2/workbooks/c16_wb', None, None),
                                    ('absent', 'GET', '/v2/workbooks/nosuch', None, None)],
        'WorkbooksController.get_all': [('collection', 'GET', '/v2/workbooks', None, None)],
        'WorkbooksController.post': [('collection', 'POST', '/v2/workbooks', WB2_TEXT, None)],
        'WorkbooksController.put': [('present', 'PUT', '/v2/workbooks', WB_TEXT, None),
                                    ('absent', 'PUT', '/v2/workbooks', WB2_TEXT, None)],
        'WorkbooksController.delete': [('present', 'DELETE', '/v2/workbooks/c16_wb', None, None),
                                       ('absent', 'DELETE', '/v2/workbooks/nosuch', None, None)],

        'ActionsController.get': [('present', 'GET', '/v2/actions/c16_act', None, None),
                                  ('absent', 'GET', '/v2/actions/nosuch', None, None)],
        'ActionsController.get_all': [('collection', 'GET', '/v2/actions?limit=5', None, None)],
        'ActionsController.post': [('collection', 'POST', '/v2/actions', ACT2_TEXT, None)],
        'ActionsController.put': [('present', 'PUT', '/v2/actions', ACT_TEXT, None),
                                  ('absent', 'PUT', '/v2/actions', ACT2_TEXT, None)],
        'ActionsController.delete': [('present', 'DELETE', '/v2/actions/c16_act', None, None),
                                     ('absent', 'DELETE', '/v2/actions/nosuch', None, None)],

        'CodeSourcesController.get': [('present', 'GET', '/v2/code_sources/c16_cs', None, None),
                                      ('absent', 'GET', '/v2/code_sources/nosuch', None, None)],
        'CodeSourcesController.get_all': [('collection', 'GET', '/v2/code_sources', None, None)],
        'CodeSourcesController.post': [('collection', 'POST', '/v2/code_sources?name=c16_cs_new', CODE_TEXT, None)],
        'CodeSourcesController.put': [('present', 'PUT', '/v2/code_sources?identifier=c16_cs', CODE_TEXT + '# v2\n', None),
                                      ('absent', 'PUT', '/v2/code_sources?identifier=nosuch', CODE_TEXT, None)],
        'CodeSourcesController.delete': [('present', 'DELETE', '/v2/code_sources/c16_cs', None, None),
                                         ('absent', 'DELETE', '/v2/code_sources/nosuch', None, None)],

        'DynamicActionsController.get': [('present', 'GET', '/v2/dynamic_actions/c16_da', None, None),
                                         ('absent', 'GET', '/v2/dynamic_actions/nosuch', None, None)],
        'DynamicActionsController.get_all': [('collection', 'GET', '/v2/dynamic_actions', None, None)],
        'DynamicActionsController.post': [('collection', 'POST', '/v2/dynamic_actions',
                                           {'name': 'c16_da_new', 'class_name': 'C16Action', 'code_source_name': 'c16_cs'}, J)],
        'DynamicActionsController.put': [('present', 'PUT', '/v2/dynamic_actions', {'name': 'c16_da', 'class_name': 'Other'}, J),
                                         ('absent', 'PUT', '/v2/dynamic_actions', {'name': 'nosuch', 'class_name': 'Other'}, J)],
        'DynamicActionsController.delete': [('present', 'DELETE', '/v2/dynamic_actions/c16_da', None, None),
                                            ('absent', 'DELETE', '/v2/dynamic_actions/nosuch', None, None)],

        'CronTriggersController.get': [('present', 'GET', '/v2/cron_triggers/c16_ct', None, None),
                                       ('absent', 'GET', '/v2/cron_triggers/nosuch', None, None)],
        'CronTriggersController.get_all': [('collection', 'GET', '/v2/cron_triggers', None, None)],
        'CronTriggersController.post': [('collection', 'POST', '/v2/cron_triggers',
                                         {'name': 'c16_ct_new', 'pattern': '* * * * *', 'workflow_name': 'c16_wf',
                                          'workflow_input': '{}', 'workflow_params': '{}', 'remaining_executions': 3}, J)],
        'CronTriggersController.delete': [('present', 'DELETE', '/v2/cron_triggers/c16_ct', None, None),
                                          ('absent', 'DELETE', '/v2/cron_triggers/nosuch', None, None)],

        'EnvironmentController.get': [('present', 'GET', '/v2/environments/c16_env', None, None),
                                      ('absent', 'GET', '/v2/environments/nosuch', None, None)],
        'EnvironmentController.get_all': [('collection', 'GET', '/v2/environments', None, None)],
        'EnvironmentController.post': [('collection', 'POST', '/v2/environments',
                                        {'name': 'c16_env_new', 'description': 'x', 'variables': '{"a": 1}'}, J)],
        'EnvironmentController.put': [('present', 'PUT', '/v2/environments', {'name': 'c16_env', 'description': 'changed'}, J),
                                      ('absent', 'PUT', '/v2/environments', {'name': 'nosuch', 'description': 'changed'}, J)],
        'EnvironmentController.delete': [('present', 'DELETE', '/v2/environments/c16_env', None, None),
                                         ('absent', 'DELETE', '/v2/environments/nosuch', None, None)],

        'EventTriggersController.get': [('present', 'GET', '/v2/event_triggers/%s' % ids['et'], None, None),
                                        ('absent', 'GET', '/v2/event_triggers/%s' % ABSENT, None, None)],
        'EventTriggersController.get_all': [('collection', 'GET', '/v2/event_triggers', None, None)],
        'EventTriggersController.post': [('collection', 'POST', '/v2/event_triggers',
                                          {'name': 'c16_et_new', 'workflow_id': wf, 'exchange': 'ex2', 'topic': 'tp2',
                                           'event': 'ev2', 'workflow_input': '{}', 'workflow_params': '{}'}, J)],
        'EventTriggersController.put': [('present', 'PUT', '/v2/event_triggers/%s' % ids['et'], {'name': 'renamed'}, J),
                                        ('absent', 'PUT', '/v2/event_triggers/%s' % ABSENT, {'name': 'renamed'}, J)],
        'EventTriggersController.delete': [('present', 'DELETE', '/v2/event_triggers/%s' % ids['et'], None, None),
                                           ('absent', 'DELETE', '/v2/event_triggers/%s' % ABSENT, None, None)],

        'ExecutionsController.get': [('present', 'GET', '/v2/executions/%s' % wf_ex, None, None),
                                     ('absent', 'GET', '/v2/executions/%s' % ABSENT, None, None)],
        'ExecutionsController.get_all': [('collection', 'GET', '/v2/executions', None, None)],
        'ExecutionsController.post': [('collection', 'POST', '/v2/executions', {'workflow_id': wf, 'input': '{}'}, J)],
        'ExecutionsController.put': [('present', 'PUT', '/v2/executions/%s' % wf_ex, {'state': 'PAUSED'}, J),
                                     ('absent', 'PUT', '/v2/executions/%s' % ABSENT, {'state': 'PAUSED'}, J)],
        'ExecutionsController.delete': [('present', 'DELETE', '/v2/executions/%s?force=true' % wf_ex, None, None),
                                        ('absent', 'DELETE', '/v2/executions/%s?force=true' % ABSENT, None, None)],
        'ExecutionReportController.get': [('present', 'GET', '/v2/executions/%s/report' % wf_ex, None, None),
                                          ('absent', 'GET', '/v2/executions/%s/report' % ABSENT, None, None)],
        'ExecutionTasksController.get_all': [('present', 'GET', '/v2/executions/%s/tasks' % wf_ex, None, None),
                                             ('absent', 'GET', '/v2/executions/%s/tasks' % ABSENT, None, None)],
        'SubExecutionsController.get': (
            [('present', 'GET', '/v2/executions/%s/executions' % wf_ex, None, None),
             ('absent', 'GET', '/v2/executions/%s/executions' % ABSENT, None, None)] if (len(mount) > 1 and mount[1] == 'executions') else
            [('present', 'GET', '/v2/tasks/%s/executions' % task_ex, None, None),
             ('absent', 'GET', '/v2/tasks/%s/executions' % ABSENT, None, None)]),

        'TasksController.get': [('present', 'GET', '/v2/tasks/%s' % task_ex, None, None),
                                ('absent', 'GET', '/v2/tasks/%s' % ABSENT, None, None)],
        'TasksController.get_all': [('collection', 'GET', '/v2/tasks', None, None)],
        'TasksController.put': [('present', 'PUT', '/v2/tasks/%s' % task_ex, {'state': 'RUNNING', 'reset': True}, J),
                                ('absent', 'PUT', '/v2/tasks/%s' % ABSENT, {'state': 'RUNNING', 'reset': True}, J)],
        'TaskExecutionsController.get_all': [('present', 'GET', '/v2/tasks/%s/workflow_executions' % task_ex, None, None),
                                             ('absent', 'GET', '/v2/tasks/%s/workflow_executions' % ABSENT, None, None)],
        'TasksActionExecutionController.get_all': [('present', 'GET', '/v2/tasks/%s/action_executions' % task_ex, None, None),
                                                   ('absent', 'GET', '/v2/tasks/%s/action_executions' % ABSENT, None, None)],
        'TasksActionExecutionController.get': [
            ('present', 'GET', '/v2/tasks/%s/action_executions/%s' % (task_ex, ids['action_ex']), None, None),
            ('absent', 'GET', '/v2/tasks/%s/action_executions/%s' % (task_ex, ABSENT), None, None)],

        'ActionExecutionsController.get': [('present', 'GET', '/v2/action_executions/%s' % ids['action_ex'], None, None),
                                           ('absent', 'GET', '/v2/action_executions/%s' % ABSENT, None, None)],
        'ActionExecutionsController.get_all': [('collection', 'GET', '/v2/action_executions', None, None)],
        'ActionExecutionsController.post': [('collection', 'POST', '/v2/action_executions',
                                             {'name': 'std.echo', 'input': '{"output": "x"}'}, J)],
        'ActionExecutionsController.put': [('present', 'PUT', '/v2/action_executions/%s' % ids['action_ex'],
                                            {'state': 'SUCCESS', 'output': '{"r": 1}'}, J),
                                           ('absent', 'PUT', '/v2/action_executions/%s' % ABSENT,
                                            {'state': 'SUCCESS', 'output': '{"r": 1}'}, J)],
        'ActionExecutionsController.delete': [
            ('present', 'DELETE', '/v2/action_executions/%s' % ids['ad_hoc_action_ex'], None, None),
            ('absent', 'DELETE', '/v2/action_executions/%s' % ABSENT, None, None)],

        'MembersController.get': [('present', 'GET', '/v2/workflows/%s/members/other-project' % wf, None, None),
                                  ('absent', 'GET', '/v2/workflows/%s/members/nobody' % wf, None, None)],
        'MembersController.get_all': [('present', 'GET', '/v2/workflows/%s/members' % wf, None, None),
                                      ('absent', 'GET', '/v2/workflows/%s/members' % ABSENT, None, None)],
        'MembersController.post': [('present', 'POST', '/v2/workflows/%s/members' % wf, {'member_id': 'third-project'}, J),
                                   ('absent', 'POST', '/v2/workflows/%s/members' % ABSENT, {'member_id': 'third-project'}, J)],
        'MembersController.put': [('present', 'PUT', '/v2/workflows/%s/members/other-project' % wf, {'status': 'accepted'}, J),
                                  ('absent', 'PUT', '/v2/workflows/%s/members/nobody' % wf, {'status': 'accepted'}, J)],
        'MembersController.delete': [('present', 'DELETE', '/v2/workflows/%s/members/other-project' % wf, None, None),
                                     ('absent', 'DELETE', '/v2/workflows/%s/members/nobody' % wf, None, None)],
    }
    if key not in R:
        return None
    return [{'tag': t, 'verb': v, 'url': u, 'body': b, 'ctype': c} for (t, v, u, b, c) in R[key]]


def generic_requests(ids, m, mount):
    """Requests for an exposed method this suite has no hand-written request for (a method added to
    the code): verb from the REST method name, URL from the mount point with the seeded row's identifier."""
    seg_id = {'tasks': ids['task_ex'], 'executions': ids['wf_ex'], 'workflows': ids['wf'], 'workbooks': 'c16_wb',
              'actions': 'c16_act', 'code_sources': 'c16_cs', 'dynamic_actions': 'c16_da', 'cron_triggers': 'c16_ct',
              'environments': 'c16_env', 'event_triggers': ids['et'], 'action_executions': ids['ad_hoc_action_ex'],
              'members': 'other-project'}
    parts, last = [], ''
    for sgm in mount:
        parts.append(seg_id.get(last, ABSENT) if sgm == '{}' else sgm)
        last = sgm if sgm != '{}' else last
    url = '/' + '/'.join(parts)
    verb = m['verb'] if m['verb'] != 'ROUTE' else 'GET'
    item = m['name'] in ('get', 'get_one', 'put', 'delete') and len(m['params']) >= (2 if verb == 'PUT' else 1)
    out = []
    for tag, ident in (('present', seg_id.get(last, ABSENT)), ('absent', ABSENT)) if item else (('collection', None),):
        out.append({'tag': tag, 'verb': verb, 'url': url + ('/%s' % ident if ident else ''),
                    'body': {} if verb in ('POST', 'PUT') else None, 'ctype': 'json' if verb in ('POST', 'PUT') else None,
                    'synthesized': True})
    return out


def with_query(url, extra):
    return url + ('&' if '?' in url else '?') + extra


def variant(req, cond):
    """the same request with the table condition `cond` made true"""
    r = copy.deepcopy(req)
    if cond == 'CAllProjects':
        r['url'] = with_query(r['url'], 'all_projects=true')
    elif cond == 'CAllProjectsOrProjectId':
        r['url'] = with_query(r['url'], 'project_id=' + OTHER_PROJECT)
    elif cond == 'CScopePublic':
        if r['ctype'] == 'json':
            r['body'] = dict(r['body'] or {}, scope='public')
        else:
            r['url'] = with_query(r['url'], 'scope=public')
    r['conds'] = [cond]
    return r


# ===========================================================================
# helpers

def method_key(m):
    return '%s.%s' % (m['cls'], m['name'])


def first_enforce(m):
    for e in m['effects']:
        if e[0] == 'Enforce':
            return e[1]
        if e[0] not in ('Log', 'Pure', 'PreGuard'):
            return None
    return None


def conds_before_data(m):
    out = []
    for e in m['effects']:
        if e[0] == 'CondEnforce':
            out.append((e[1], e[2]))
        if e[0] in ('Data', 'CtxClear'):
            break
    return out


def data_events(events):
    return [e for e in events if e[0] == 'D']


def classify_real(status, events, rpc_calls, unchanged, pre):
    """refusal class of a real response, from observations only. `pre`: the scenario switches
    authentication off for a controller decorated with auth_enable_check."""
    touched = bool(data_events(events)) or bool(rpc_calls) or not unchanged
    if status == 403 and not touched:
        return '403'
    if pre and status == 400 and not touched and not [e for e in events if e[0] == 'E']:
        return 'pre400'
    return 'body'


def coq_env(denied, conds, preguard_fires):
    deny = 'fun r => existsb (String.eqb r) %s' % coq_list([coq_str(d) for d in sorted(denied)])
    if denied == 'ALL':
        deny = 'fun _ => true'
    holds = 'fun c => existsb (cond_eqb c) %s' % coq_list(list(conds))
    fires = 'fun i => %s' % ('Nat.eqb i 0' if preguard_fires else 'false')
    return '(mkEnv (%s) (%s) (%s))' % (deny, holds, fires)


def model_class_expr(idx, denied, conds, preguard_fires):
    """Coq expression: the (status, db) of handle on row idx with body = (999, S db), db = 0"""
    return ('handle (nth %d methods (mkMethod "" "" ROUTE [] NoWrap [] [] false false)) %s '
            '(fun db : nat => (999, S db)) 0' % (idx, coq_env(denied, conds, preguard_fires)))


def parse_pair(s):
    m = core.re.match(r'\((\d+),\s*(\d+)\)', s)
    return (int(m.group(1)), int(m.group(2))) if m else None


def model_class(pair):
    st, db = pair
    if db == 0 and st == 403:
        return '403'
    if db == 0 and st == 400:
        return 'pre400'
    if db == 1 and st == 999:
        return 'body'
    return 'other:%s' % (pair,)


def documented_rule(app, verb, mount, mname):
    """The rule the registry documents for (verb, resource, item/collection) - computed from the
    live registry objects only (independent of the extractor and of Coq)."""
    seg = [s for s in mount if s != '{}'][-1] if mount else ''
    seg = {'workflow_executions': 'executions', 'report': 'executions'}.get(seg, seg)
    cands = []
    for name, r in app.registry.items():
        if name.endswith(':publicize') or name.endswith(':all_projects'):
            continue
        for o in getattr(r, 'operations', None) or []:
            parts = [p for p in o['path'].split('/') if p]
            if len(parts) < 2 or parts[1] != seg or o['method'] != verb:
                continue
            has_param = any(p.startswith('{') for p in parts)
            if verb == 'GET' and has_param != (mname == 'get'):
                continue
            cands.append(name)
    return sorted(set(cands))


# ===========================================================================
# suites

def load_table(ctx):
    sys.path.insert(0, os.path.join(core.VERIF, 'translate'))
    import tr_apitable
    try:
        return tr_apitable.extract(core.REPO)
    except core.TranslateError:
        # the translate obligation is already recorded broken; the oracles still need the list of methods
        t = tr_apitable.extract(core.REPO, lenient=True)
        t['lenient'] = True
        return t


def live_exposed(app):
    """{'Class.method'} found by walking the live controller objects from RootController, plus every
    class of the controllers package that has exposed methods (must all be reachable)."""
    import importlib
    import inspect
    import pkgutil
    from mistral.api import controllers as pkg
    from mistral.api.controllers import root

    def exposed_of(obj):
        out = []
        for name, attr in inspect.getmembers(obj):
            if callable(attr) and getattr(attr, 'exposed', False) and not name.startswith('__'):
                if any(name in k.__dict__ for k in type(obj).__mro__ if k.__module__.startswith('mistral.')):
                    out.append(name)
        return out

    seen_cls = {}
    stack = [(root.RootController(), 0)]
    while stack:
        obj, depth = stack.pop()
        cls = type(obj)
        if cls.__name__ in seen_cls or depth > 8:
            continue
        seen_cls[cls.__name__] = exposed_of(obj)
        for name in dir(cls):
            if name.startswith('__'):
                continue
            try:
                attr = getattr(obj, name)
            except Exception:
                continue
            mod = getattr(type(attr), '__module__', '') or ''
            if mod.startswith('mistral.api.controllers') and not inspect.isclass(attr) and not callable(attr) or (
                    mod.startswith('mistral.api.controllers') and hasattr(attr, '_lookup') and not inspect.isclass(attr)):
                stack.append((attr, depth + 1))
        if hasattr(obj, '_lookup') and cls.__name__ == 'WorkflowsController':
            try:
                sub, _ = obj._lookup('11111111-1111-4111-8111-111111111111', 'members')
                stack.append((sub, depth + 1))
            except Exception:
                pass
    reach = {'%s.%s' % (c, m) for c, ms in seen_cls.items() for m in ms}
    # all classes of the package
    allc = set()
    for mi in pkgutil.walk_packages(pkg.__path__, pkg.__name__ + '.'):
        mod = importlib.import_module(mi.name)
        for name, c in inspect.getmembers(mod, inspect.isclass):
            if c.__module__ != mod.__name__:
                continue
            for mname, f in inspect.getmembers(c, callable):
                if getattr(f, 'exposed', False) and not mname.startswith('__'):
                    if not any(mname in k.__dict__ for k in c.__mro__ if k.__module__.startswith('mistral.')):
                        continue   # inherited from pecan (RestController._route, default _lookup)
                    allc.add('%s.%s' % (name, mname))
    return reach, allc


def suite_enumerate(ctx, app, table):
    reach, allc = live_exposed(app)
    static = {method_key(m) for m in table['methods']}
    ctx.count('enumerate', 'live-vs-table', evaluations=len(static))
    ctx.cov['disagreements_checked'] += 1
    if static != allc:
        ctx.disagree('enumerate', {'what': 'classes of the package with exposed methods'},
                     sorted(static - allc), sorted(allc - static))
    if not allc <= reach | static or not static <= reach:
        ctx.disagree('enumerate', {'what': 'exposed methods reachable from the live controller tree'},
                     sorted(static - reach), sorted(reach - static))
    ctx.cov['suites']['enumerate'].update({'table_methods': len(static), 'live_reachable': len(reach),
                                           'package_exposed': len(allc)})
    return reach | allc


def run_scenario(app, req, policy, names=(), auth=False, admin=False, reseed=True, seed_kw=None):
    """One request on the standard rows. The rows are re-created only when an earlier request changed
    them (or other rows are asked for): refused requests and reads leave them as they are."""
    if reseed:
        app.ensure_seed(**(seed_kw or {}))
    app.set_policy(policy, names)
    app.set_auth(auth)
    app.set_admin(admin)
    try:
        before = app.db_hash()
        status, events, rpcs = app.request(req)
        after = app.db_hash()
    finally:
        app.set_auth(False)
        app.set_admin(False)
        app.set_policy('default')
    return {'status': status, 'events': events, 'rpc': [c[0] for c in rpcs], 'unchanged': before == after,
            'text': getattr(app, 'last_body', '')}


def suite_handle_and_oracle(ctx, app, table, live):
    """Every method x policy scenario x present/absent: model vs real, trace vs table, and the oracle."""
    methods = table['methods']
    ids = app.ensure_seed()
    cases = []   # (midx, key, req, scenario dict, expected model inputs)
    missing = []
    for idx, m in enumerate(methods):
        key = method_key(m)
        is_member = m['cls'] == 'MembersController'
        fe = first_enforce(m)
        conds = conds_before_data(m)
        for mount in m['mounts']:
            reqs = build_requests(ids, key, mount)
            if reqs is None:
                missing.append(key)
                reqs = generic_requests(ids, m, mount)
            for req in reqs:
                req['conds'] = []
                base = {'idx': idx, 'key': key, 'mount': mount, 'member': is_member, 'fe': fe, 'm': m}
                auths = [True, False] if is_member else [False]
                for auth in auths:
                    pre = is_member and not auth
                    cases.append(dict(base, req=req, policy='allow_all', denied=[], auth=auth, pre=pre))
                    cases.append(dict(base, req=req, policy='deny_all', denied='ALL', auth=auth, pre=pre))
                    if fe:
                        cases.append(dict(base, req=req, policy='deny', denied=[fe], auth=auth, pre=pre))
                    if key not in UNGUARDED_ALLOWLIST:
                        # the rule the REGISTRY documents for this verb and resource (not what the table says)
                        docs = documented_rule(app, req['verb'], mount, m['name'])
                        if len(docs) != 1:
                            ctx.fail('no-documented-rule:%s' % key,
                                     'the registry documents %s for %s %s (%s): exactly one rule is required' % (
                                         docs, req['verb'], '/'.join(mount), key),
                                     {'method': key, 'request': {k: req[k] for k in ('verb', 'url', 'body')}, 'documented': docs})
                        else:
                            cases.append(dict(base, req=req, policy='deny', denied=docs, auth=auth, pre=pre, documented=True))
                for (rule, cond) in conds:
                    v = variant(req, cond)
                    cases.append(dict(base, req=v, policy='deny', denied=[rule], auth=False, pre=False))       # cond on, denied
                    cases.append(dict(base, req=v, policy='allow_all', denied=[], auth=False, pre=False))       # cond on, allowed
                    cases.append(dict(base, req=req, policy='deny', denied=[rule], auth=False, pre=False))     # cond off, denied
    for k in sorted(set(missing)):
        ctx.obligation('correspondence:request-builder:%s' % k, False,
                       'exposed method %s has no hand-written request in harness/suites/C16.py: exercised with a '
                       'synthesized request only' % k)
    for k in sorted(live - {method_key(m) for m in methods}):
        ctx.obligation('correspondence:live-method-not-in-table:%s' % k, False, 'live exposed method missing from Gen/ApiTable.v')
    exprs = [model_class_expr(c['idx'], c['denied'], c['req'].get('conds', []), c['pre']) for c in cases]
    res = model_eval('c16handle', exprs)
    dist = {}
    for c, r in zip(cases, res):
        m = c['m']
        out = run_scenario(app, c['req'], c['policy'], c['denied'] if c['denied'] != 'ALL' else (), auth=c['auth'])
        real = classify_real(out['status'], out['events'], out['rpc'], out['unchanged'], c['pre'])
        model = model_class(parse_pair(r)) if r is not None else None
        scen = '%s/%s/%s' % (c['policy'], c['req']['tag'], 'cond' if c['req'].get('conds') else '-')
        dist[scen] = dist.get(scen, 0) + 1
        case_id = {'method': c['key'], 'request': {k: c['req'][k] for k in ('verb', 'url', 'body')},
                   'policy': c['policy'], 'denied': c['denied'], 'auth_enable': c['auth']}
        ctx.count('handle', (c['key'], c['req']['url'], c['req']['verb'], json.dumps(c['req']['body'], sort_keys=True),
                             c['policy'], tuple(c['denied']), c['auth']),
                  nontrivial=(c['policy'] != 'allow_all'))
        ctx.cov['disagreements_checked'] += 1
        if model is not None and model != real:
            ctx.disagree('handle', case_id, model, {'class': real, 'status': out['status'], 'events': out['events'][:8],
                                                    'unchanged': out['unchanged']})
        # --- trace: enforce calls before the first data access = the table's effects --------------
        if c['policy'] == 'allow_all' and not c['pre']:
            ev = out['events']
            first_d = next((i for i, e in enumerate(ev) if e[0] == 'D'), len(ev))
            dyn_before = [e[1] for e in ev[:first_d] if e[0] == 'E']
            dyn_after = [e[1] for e in ev[first_d:] if e[0] == 'E']
            stat = []
            for e in m['effects']:
                if e[0] == 'Enforce':
                    stat.append(e[1])
                elif e[0] == 'CondEnforce' and e[2] in c['req'].get('conds', []):
                    stat.append(e[1])
                elif e[0] == 'Data':
                    break
            ctx.count('trace', (c['key'], c['req']['url'], c['req']['verb'], c['auth']))
            ctx.cov['disagreements_checked'] += 1
            # a guard may stop the request between two enforcements: the dynamic list is a prefix then
            ok = dyn_before == stat or (out['status'] >= 400 and dyn_before == stat[:len(dyn_before)] and dyn_before[:1] == stat[:1])
            if not ok or dyn_after:
                ctx.disagree('trace', case_id, {'enforce_before_data': stat, 'enforce_after_data': []},
                             {'enforce_before_data': dyn_before, 'enforce_after_data': dyn_after, 'events': ev[:10]})
        # --- oracle (no model, no table) ------------------------------------------------------
        if c['key'] in UNGUARDED_ALLOWLIST:
            continue
        want403 = None
        if c['policy'] == 'deny_all':
            want403 = 'every policy rule denied'
        elif c.get('documented'):
            want403 = 'the documented rule %s denied (every other rule allowed)' % c['denied'][0]
        if want403:
            accept = (out['status'] == 403) or (c['pre'] and out['status'] == 400)
            clean = out['unchanged'] and not out['rpc'] and not data_events(out['events'])
            if not (accept and clean):
                ctx.fail('denied-but-effect:%s' % c['key'],
                         '%s with %s answered %d; database unchanged=%s, engine calls=%s, data accesses=%s '
                         '(required: 403, nothing read or changed)' % (
                             c['key'], want403, out['status'], out['unchanged'], out['rpc'],
                             [e[1] for e in data_events(out['events'])][:4]),
                         dict(case_id, kind='denied'))
    ctx.cov['suites'].setdefault('handle', {})['scenarios'] = dist
    ctx.sample({'suite': 'handle', 'method': cases[5]['key'], 'request': cases[5]['req']['url'], 'policy': cases[5]['policy']})
    return cases


def suite_sequences(ctx, app, table):
    """Random sequences of requests by a caller whose policy denies (at least) the rule each method
    checks: whatever the order and mix of methods, verbs, present/absent resources and conditions,
    the database after the sequence is the database before it and the engine was never called.
    Model side: fold_left serve over the same rows and environments returns the initial database."""
    rng = ctx.rng
    methods = table['methods']
    ids = app.ensure_seed()
    pool = []
    for idx, m in enumerate(methods):
        key = method_key(m)
        fe = first_enforce(m)
        if key in UNGUARDED_ALLOWLIST or not fe or m['cls'] == 'MembersController':
            continue
        for mount in m['mounts']:
            for req in build_requests(ids, key, mount) or []:
                pool.append((idx, key, m, req, fe))
                for (rule, cond) in conds_before_data(m):
                    pool.append((idx, key, m, variant(req, cond), rule))
    nseq, length = ctx.n(25, 250), 12
    all_rules = [r['name'] for r in table['rules'] if r['kind'] != 'BaseRule']
    seqs, exprs = [], []
    for _ in range(nseq):
        seq = []
        for _ in range(length):
            idx, key, m, req, must = rng.choice(pool)
            denied = sorted(set([must] + rng.sample(all_rules, rng.choice([0, 0, 1, 3, 10]))))
            seq.append((idx, key, req, denied))
        seqs.append(seq)
        items = ['(m_effects (nth %d methods (mkMethod "" "" ROUTE [] NoWrap [] [] false false)), %s, (fun db : nat => (999, S db)))'
                 % (idx, coq_env(denied, req.get('conds', []), False)) for (idx, key, req, denied) in seq]
        exprs.append('fold_left serve %s 0' % coq_list(items))
    res = model_eval('c16seq', exprs, IMPORTS + ['Proofs.RestProofs'], chunk=25)
    app.seed()
    for seq, r in zip(seqs, res):
        start = app.db_hash()
        statuses, rpc_total, data_total = [], 0, 0
        for (idx, key, req, denied) in seq:
            app.set_policy('deny', denied)
            status, events, rpcs = app.request(req)
            statuses.append(status)
            rpc_total += len(rpcs)
            data_total += len(data_events(events))
        app.set_policy('default')
        end = app.db_hash()
        ctx.count('sequences', tuple((k, q['url'], q['verb'], tuple(d)) for (_, k, q, d) in seq), evaluations=len(seq))
        ctx.cov['disagreements_checked'] += 1
        impl_unchanged = (start == end and rpc_total == 0 and data_total == 0 and all(x == 403 for x in statuses))
        if r is not None and (r.strip() == '0') != impl_unchanged:
            ctx.disagree('sequences', {'requests': [(k, q['verb'], q['url'], d) for (_, k, q, d) in seq]},
                         'final db = %s' % r, {'unchanged': start == end, 'statuses': statuses, 'engine_calls': rpc_total,
                                               'data_accesses': data_total})
        if not impl_unchanged:
            bad = next((i for i, x in enumerate(statuses) if x != 403), 0)
            (_, k, q, d) = seq[bad]
            ctx.fail('denied-sequence-effect:%s' % k,
                     'a sequence of %d requests, each denied the rule its method checks, answered %s; database unchanged=%s, '
                     'engine calls=%d, data accesses=%d (required: all 403, nothing read or changed)' % (
                         len(seq), statuses, start == end, rpc_total, data_total),
                     {'method': k, 'request': {x: q[x] for x in ('verb', 'url', 'body')}, 'policy': 'deny', 'denied': d,
                      'kind': 'denied', 'auth_enable': False})
            app.seed()


# ---- callers x policy files ---------------------------------------------------------------------
# A rule expression as a tuple AST: ('true',) ('false',) ('role', r) ('rule', n) ('cred', key, match)
# ('and', a, b) ('or', a, b) ('not', a).  match: ('lit', s) | 'target_project' | 'target_user'.

def check_text(k):
    """oslo.policy syntax of an expression"""
    t = k[0]
    if t == 'true':
        return '@'
    if t == 'false':
        return '!'
    if t == 'role':
        return 'role:%s' % k[1]
    if t == 'rule':
        return 'rule:%s' % k[1]
    if t == 'cred':
        m = k[2]
        return '%s:%s' % (k[1], m[1] if isinstance(m, tuple) else {'target_project': '%(project_id)s', 'target_user': '%(user_id)s'}[m])
    if t == 'not':
        return 'not %s' % check_text(k[1]) if k[1][0] not in ('and', 'or') else 'not (%s)' % check_text(k[1])
    return '(%s %s %s)' % (check_text(k[1]), t, check_text(k[2]))


def check_coq(k):
    t = k[0]
    if t == 'true':
        return 'CTrue'
    if t == 'false':
        return 'CFalse'
    if t == 'role':
        return '(CRole %s)' % coq_str(k[1])
    if t == 'rule':
        return '(CRule %s)' % coq_str(k[1])
    if t == 'cred':
        m = k[2]
        return '(CCred %s %s)' % ({'is_admin': 'KIsAdmin', 'project_id': 'KProject', 'user_id': 'KUser'}[k[1]],
                                  '(MLit %s)' % coq_str(m[1]) if isinstance(m, tuple) else
                                  {'target_project': 'MTargetProject', 'target_user': 'MTargetUser'}[m])
    if t == 'not':
        return '(CNot %s)' % check_coq(k[1])
    return '(%s %s %s)' % ({'and': 'CAnd', 'or': 'COr'}[t], check_coq(k[1]), check_coq(k[2]))


def caller_facts(app, name):
    c = app.callers[name]
    return {'is_admin': bool(c.is_admin), 'roles': list(c.roles or []), 'project_id': c.project_id, 'user_id': c.user_id}


def caller_coq(f):
    return '(mkCaller %s %s %s %s)' % (coq_bool(f['is_admin']), coq_list([coq_str(r) for r in f['roles']]),
                                       coq_str(f['project_id']), coq_str(f['user_id']))


DEFAULT_BASE = {'admin_only': ('cred', 'is_admin', ('lit', 'True')),
                'admin_or_owner': ('or', ('cred', 'is_admin', ('lit', 'True')), ('cred', 'project_id', 'target_project'))}


def py_decide(k, f, base, depth=0):
    """What the policy language means, written down independently of oslo.policy and of the Coq model:
    the caller's facts, the target (the caller's own project / user) and the expression - nothing else."""
    t = k[0]
    if depth > 40:
        return False
    if t == 'true':
        return True
    if t == 'false':
        return False
    if t == 'role':
        return k[1].lower() in [r.lower() for r in f['roles']]
    if t == 'rule':
        return py_decide(base[k[1]], f, base, depth + 1) if k[1] in base else False
    if t == 'cred':
        m = k[2]
        want = m[1] if isinstance(m, tuple) else {'target_project': f['project_id'], 'target_user': f['user_id']}[m]
        return want == str(f[k[1]])
    if t == 'not':
        return not py_decide(k[1], f, base, depth + 1)
    if t == 'and':
        return py_decide(k[1], f, base, depth + 1) and py_decide(k[2], f, base, depth + 1)
    return py_decide(k[1], f, base, depth + 1) or py_decide(k[2], f, base, depth + 1)


def fixed_checks(app):
    owner_project = app.owner_ctx.project_id
    return [
        ('false',), ('true',), ('role', 'admin'), ('role', 'member'), ('rule', 'admin_or_owner'), ('rule', 'admin_only'),
        ('cred', 'is_admin', ('lit', 'True')), ('not', ('role', 'admin')),
        ('and', ('role', 'member'), ('cred', 'project_id', 'target_project')),
        ('or', ('cred', 'is_admin', ('lit', 'True')), ('role', 'Member')),
        ('cred', 'project_id', ('lit', owner_project)), ('cred', 'is_admin', ('lit', 'False')),
        ('and', ('cred', 'is_admin', ('lit', 'True')), ('false',)), ('rule', 'no_such_rule'),
        ('cred', 'user_id', 'target_user'), ('not', ('cred', 'is_admin', ('lit', 'True'))),
    ]


def random_check(rng, app, depth=0):
    r = rng.random()
    if depth >= 3 or r < 0.45:
        return rng.choice(fixed_checks(app)[:12] + [('role', 'reader'), ('role', 'ADMIN'), ('cred', 'user_id', ('lit', 'admin-user')),
                                                    ('cred', 'project_id', ('lit', OTHER_PROJECT))])
    if r < 0.6:
        return ('not', random_check(rng, app, depth + 1))
    return (rng.choice(['and', 'or']), random_check(rng, app, depth + 1), random_check(rng, app, depth + 1))


def policy_coq(overrides):
    """Coq policy term: the generated defaults with the operator's entries in front"""
    t = 'default_policy'
    for n, k in overrides:
        t = '(override %s %s %s)' % (t, coq_str(n), check_coq(k))
    return t


def real_enforce(app, rule, caller):
    """the real mistral.api.access_control.enforce for the caller's real context object"""
    from mistral import exceptions as exc
    try:
        r = app.acl.enforce(rule, app.callers[caller])
        return 'allow' if r else 'falsy:%r' % (r,)
    except exc.NotAllowedException:
        return 'deny'
    except Exception as e:
        return 'crash:%s' % type(e).__name__


def one_policy_eval(ctx, app, rule, k, base_over, caller):
    """oracle on one (rule assignment, caller): denied by the policy => acl.enforce refuses"""
    base = dict(DEFAULT_BASE)
    base.update(base_over)
    over = {rule: check_text(k)}
    over.update({n: check_text(v) for n, v in base_over.items()})
    app.set_rules(over)
    try:
        impl = real_enforce(app, rule, caller)
    finally:
        app.set_policy('default')
    f = caller_facts(app, caller)
    want = 'allow' if py_decide(k, f, base) else 'deny'
    if want == 'deny' and impl != 'deny':
        kind = 'admin' if f['is_admin'] else 'non-admin'
        ctx.fail('enforce-ignores-policy:%s-caller' % kind,
                 'acl.enforce(%r) for caller %s (is_admin=%s, roles=%s) answered %s although the loaded policy assigns '
                 '%r to the rule, which denies this caller (required: NotAllowedException / 403)' % (
                     rule, caller, f['is_admin'], f['roles'], impl, over[rule]),
                 {'kind': 'policy_eval', 'rule': rule, 'check': k, 'base': sorted(base_over.items()), 'caller': caller,
                  'policy_file': over})
    return impl, want


def suite_policy_eval(ctx, app, only=None):
    """Model.Rest.enforce_allows vs the real acl.enforce (real oslo.policy enforcer, real context objects)
    on generated rule assignments x callers; oracle from py_decide."""
    rng = ctx.rng
    rules = [n for n in app.rule_names if n not in DEFAULT_BASE]
    callers = sorted(app.callers)
    cases = []
    if only is not None:
        cases = [only]
    else:
        for k in fixed_checks(app):
            for c in callers:
                cases.append((rng.choice(rules), k, {}, c))
        for _ in range(ctx.n(900, 15000)):
            base_over = {}
            if rng.random() < 0.25:
                base_over[rng.choice(sorted(DEFAULT_BASE))] = rng.choice(
                    [('role', 'member'), ('false',), ('true',), ('cred', 'is_admin', ('lit', 'True')), ('role', 'admin')])
            cases.append((rng.choice(rules), random_check(rng, app), base_over, rng.choice(callers)))
    exprs = []
    for (rule, k, base_over, c) in cases:
        pol = policy_coq(sorted(base_over.items()) + [(rule, k)])
        exprs.append('show_bool (enforce_allows %s %s %s)' % (pol, caller_coq(caller_facts(app, c)), coq_str(rule)))
    res = model_eval('c16policy', exprs) if only is None else [None]
    dist = {}
    for (rule, k, base_over, c), r in zip(cases, res):
        if isinstance(k, list):
            k = retuple(k)
        impl, want = one_policy_eval(ctx, app, rule, k, dict(base_over), c)
        dist[(c, want)] = dist.get((c, want), 0) + 1
        ctx.count('policy_eval', (rule, check_text(k), tuple(sorted((a, check_text(b)) for a, b in dict(base_over).items())), c),
                  nontrivial=(want == 'deny'))
        ctx.cov['disagreements_checked'] += 1
        if r is not None and core.unquote(r) != impl:
            ctx.disagree('policy_eval', {'rule': rule, 'assigned': check_text(k),
                                         'base': {a: check_text(b) for a, b in dict(base_over).items()}, 'caller': c,
                                         'caller_facts': caller_facts(app, c)}, core.unquote(r), impl)
    ctx.cov['suites'].setdefault('policy_eval', {})['caller_x_decision'] = {'%s/%s' % k: v for k, v in sorted(dist.items())}
    if only is None:
        ctx.sample({'suite': 'policy_eval', 'rule': cases[0][0], 'assigned': check_text(cases[0][1]), 'caller': cases[0][3]})


def retuple(x):
    return tuple(retuple(y) for y in x) if isinstance(x, (list, tuple)) else x


def one_caller_request(ctx, app, key, m, req, over, caller, decisive, auth, expect_deny):
    """the oracle on one request of one caller under one policy file"""
    app.ensure_seed()
    app.set_rules({n: check_text(k) for n, k in over})
    app.set_auth(auth)
    app.set_caller(caller)
    try:
        before = app.db_hash()
        status, events, rpcs = app.request(req)
        after = app.db_hash()
    finally:
        app.set_caller('owner')
        app.set_auth(False)
        app.set_policy('default')
    out = {'status': status, 'events': events, 'rpc': [c[0] for c in rpcs], 'unchanged': before == after}
    if expect_deny:
        clean = out['unchanged'] and not out['rpc'] and not data_events(events)
        if status != 403 or not clean:
            f = caller_facts(app, caller)
            ctx.fail('policy-denied-but-served:%s-caller' % ('admin' if f['is_admin'] else 'non-admin'),
                     '%s %s by caller %s (is_admin=%s, roles=%s) under a policy file assigning %r to %s answered %d; '
                     'database unchanged=%s, engine calls=%s, data accesses=%s (the rule denies this caller: required 403, '
                     'nothing read or changed)' % (req['verb'], req['url'], caller, f['is_admin'], f['roles'],
                                                   check_text(dict(over)[decisive]), decisive, status, out['unchanged'],
                                                   out['rpc'], [e[1] for e in data_events(events)][:4]),
                     {'kind': 'caller', 'method': key, 'request': {x: req[x] for x in ('verb', 'url', 'body')},
                      'policy_file': [[n, k] for n, k in over], 'decisive': decisive, 'caller': caller, 'auth_enable': auth})
    return out


def suite_callers(ctx, app, table, only=None):
    """Every guarded endpoint (incl. get_all with all_projects=true / project_id, create/update with
    scope=public) x callers {admin, owner, other-project member, no roles} x policy files that assign
    to the decisive rule one of the expressions of fixed_checks (or leave the default): model
    (handle under policy_env) vs the real application, and the oracle `denied by policy => 403,
    nothing read or changed`."""
    rng = ctx.rng
    ids = app.ensure_seed()
    callers = ['admin', 'owner', 'other', 'noroles']
    checks = [None] + fixed_checks(app)[:12]          # None = the registered default
    cases = []
    for idx, m in enumerate(table['methods']):
        key = method_key(m)
        if key in UNGUARDED_ALLOWLIST:
            continue
        auth = m['cls'] == 'MembersController'
        for mount in m['mounts']:
            # the rule that decides: what the method enforces first; when the table has no such claim (new or
            # unrecognised method) the rule the registry documents for the verb and resource
            docs = documented_rule(app, m['verb'], mount, m['name'])
            fe = first_enforce(m) or (docs[0] if len(docs) == 1 else None)
            if not fe:
                continue
            for req in build_requests(ids, key, mount) or generic_requests(ids, m, mount):
                if not ctx.thorough() and req['tag'] == 'absent':
                    continue
                req = dict(req, conds=[])
                scen = [(req, fe, [])]
                for (rule, cond) in conds_before_data(m):
                    scen.append((variant(req, cond), rule, [(fe, ('true',))]))
                for (rq, decisive, pre) in scen:
                    for c in callers:
                        if ctx.thorough():
                            ks = checks
                        else:
                            ks = [('false',)] + rng.sample(checks, 2)
                        for k in ks:
                            cases.append((idx, key, m, rq, decisive, pre, k, c, auth))
    if only is not None:
        cases = [only]
    exprs, meta = [], []
    base = dict(DEFAULT_BASE)
    reg = {r['name']: r['kind'] for r in table['rules']}
    for (idx, key, m, rq, decisive, pre, k, c, auth) in cases:
        over = list(pre) + ([(decisive, k)] if k is not None else [])
        f = caller_facts(app, c)
        eff = k if k is not None else ('rule', {'AdminOnly': 'admin_only', 'AdminOrOwner': 'admin_or_owner'}[reg[decisive]])
        deny = not py_decide(eff, f, base)
        meta.append((over, deny))
        exprs.append('handle (nth %d methods (mkMethod "" "" ROUTE [] NoWrap [] [] false false)) '
                     '(policy_env %s %s (fun c => existsb (cond_eqb c) %s) (fun _ => false)) (fun db : nat => (999, S db)) 0'
                     % (idx, policy_coq(over), caller_coq(f), coq_list(list(rq.get('conds', [])))))
    res = model_eval('c16callers', exprs) if only is None else [None]
    dist = {}
    for (idx, key, m, rq, decisive, pre, k, c, auth), (over, deny), r in zip(cases, meta, res):
        out = one_caller_request(ctx, app, key, m, rq, over, c, decisive, auth, deny)
        real = classify_real(out['status'], out['events'], out['rpc'], out['unchanged'], False)
        dist[(c, 'deny' if deny else 'allow')] = dist.get((c, 'deny' if deny else 'allow'), 0) + 1
        ctx.count('callers', (key, rq['url'], rq['verb'], json.dumps(rq['body'], sort_keys=True), c,
                              tuple((n, check_text(x)) for n, x in over)), nontrivial=deny)
        ctx.cov['disagreements_checked'] += 1
        if r is not None:
            model = model_class(parse_pair(r))
            if model != real:
                ctx.disagree('callers', {'method': key, 'request': {x: rq[x] for x in ('verb', 'url', 'body')}, 'caller': c,
                                         'policy_file': [(n, check_text(x)) for n, x in over]}, model,
                             {'class': real, 'status': out['status'], 'events': out['events'][:6], 'unchanged': out['unchanged']})
    ctx.cov['suites'].setdefault('callers', {})['caller_x_decision'] = {'%s/%s' % k: v for k, v in sorted(dist.items())}


def judge_default_policy(kind, out):
    """the property text for a non-admin caller under the default policy"""
    clean = out['unchanged'] and not out['rpc']
    if kind == 'publicize':
        return out['status'] == 403 and clean and not data_events(out['events'])
    if kind == 'all-projects':
        return out['status'] == 403 and clean and not data_events(out['events'])
    # project_id=<another project>: refused, or at least nothing private of that project is shown
    return clean and (out['status'] == 403 or 'c16_foreign' not in out['text'])


def suite_default_policy_oracle(ctx, app, table):
    """Default registry policy, non-admin caller: cross-project listing and scope=public are refused.
    Independent of the table: every live get_all is asked with all_projects=true and with
    project_id=<another project that owns private rows>, every POST/PUT with scope=public."""
    ids = app.ensure_seed()
    n = 0
    for m in table['methods']:
        key = method_key(m)
        if key in UNGUARDED_ALLOWLIST:
            continue
        for mount in m['mounts']:
            for req in build_requests(ids, key, mount) or generic_requests(ids, m, mount):
                todo = []
                if m['name'] == 'get_all':
                    todo.append(('all-projects', variant(req, 'CAllProjects')))
                    todo.append(('foreign-project', variant(req, 'CAllProjectsOrProjectId')))
                if m['verb'] in ('POST', 'PUT'):
                    todo.append(('publicize', variant(req, 'CScopePublic')))
                for kind, v in todo:
                    out = run_scenario(app, v, 'default', admin=False)
                    n += 1
                    ctx.count('default_policy', (key, v['url'], json.dumps(v['body'], sort_keys=True)))
                    if out['status'] == 400 and not data_events(out['events']) and not out['rpc'] and out['unchanged'] and (
                            (kind != 'publicize' and not (m['all_projects'] if kind == 'all-projects' else 'project_id' in m['params']))
                            or (kind == 'publicize' and not m['takes_scope'])):
                        continue   # the method has no such parameter / attribute: rejected as unknown argument
                    if not judge_default_policy(kind, out):
                        ctx.fail('%s-not-refused:%s' % (kind, key),
                                 'non-admin caller under the default policy: %s %s %s answered %d, database unchanged=%s '
                                 '(required: 403 and nothing read or changed%s)' % (
                                     v['verb'], v['url'], json.dumps(v['body']) if isinstance(v['body'], dict) else '',
                                     out['status'], out['unchanged'],
                                     '; or no private row of the other project in the answer' if kind == 'foreign-project' else ''),
                                 {'method': key, 'request': {k: v[k] for k in ('verb', 'url', 'body')}, 'policy': 'default',
                                  'kind': kind, 'admin': False})
                    if kind == 'foreign-project' or not (m['all_projects'] or m['takes_scope']):
                        continue
                    # an admin is let through to the body (not refused by policy)
                    out2 = run_scenario(app, v, 'default', admin=True)
                    ctx.count('default_policy', (key, v['url'], 'admin'))
                    if out2['status'] == 403 and not data_events(out2['events']):
                        ctx.disagree('default_policy', {'method': key, 'request': v['url'], 'admin': True},
                                     'admin passes the admin-only rule', {'status': out2['status']})
                    if kind == 'all-projects' and out2['status'] == 200 and 'c16_foreign' not in out2['text']:
                        ctx.disagree('default_policy', {'method': key, 'request': v['url'], 'admin': True},
                                     'the other project\'s private row is listed for an admin (the marker works)',
                                     {'status': out2['status'], 'text': out2['text'][:200]})
    ctx.cov['suites'].setdefault('default_policy', {})['requests'] = n


# ---- state-changing requests -------------------------------------------------

STATE_TEXTS = ['', 'IDLE', 'WAITING', 'RUNNING', 'DELAYED', 'PAUSED', 'SUCCESS', 'CANCELLED', 'ERROR', 'SKIPPED',
               'running', 'PAUSE', 'RUNNING ', 'DONE', 'RUNNING_DELAYED', '?']
ROW_STATES = ['IDLE', 'WAITING', 'RUNNING', 'DELAYED', 'PAUSED', 'SUCCESS', 'CANCELLED', 'ERROR', 'SKIPPED']
COQ_STATE = {'IDLE': 'IDLE', 'WAITING': 'WAITING', 'RUNNING': 'RUNNING', 'DELAYED': 'RUNNING_DELAYED', 'PAUSED': 'PAUSED',
             'SUCCESS': 'SUCCESS', 'CANCELLED': 'CANCELLED', 'ERROR': 'ERROR', 'SKIPPED': 'SKIPPED'}
FINAL = ('SUCCESS', 'ERROR', 'CANCELLED')


def parse_outcome(s):
    m = core.re.match(r'\((\d+),\s*"(.*?)",\s*\((true|false),\s*(true|false),\s*(true|false)\)\)', s)
    if not m:
        return None
    return {'status': int(m.group(1)), 'call': m.group(2), 'upd_desc': m.group(3) == 'true',
            'upd_env': m.group(4) == 'true', 'deleted': m.group(5) == 'true'}


def row_of(app, table_name, rid):
    self_hook = app
    self_hook.in_hook += 1
    try:
        t = next(t for t in app.tables() if t.name == table_name)
        with app.engine.connect() as c:
            r = c.execute(t.select().where(t.c.id == rid)).mappings().first()
            return dict(r) if r is not None else None
    finally:
        self_hook.in_hook -= 1


def exec_table(app):
    return next(t.name for t in app.tables() if t.name.startswith('workflow_executions'))


def random_texts(ctx):
    """extra requested-state texts for the thorough tier: case / spacing variants and random words"""
    if not ctx.thorough():
        return []
    rng = ctx.rng
    out = []
    for base in ROW_STATES:
        out += [base.lower(), base.capitalize(), ' ' + base, base + '\n', base[:-1], base + 'X']
    out += [''.join(rng.choice('ABCDEGILNPRSUW_') for _ in range(rng.randrange(1, 12))) for _ in range(40)]
    return sorted(set(t for t in out if t not in STATE_TEXTS))


def suite_exec_put(ctx, app, only=None):
    rng = ctx.rng
    combos = []
    for st in STATE_TEXTS + [None] + random_texts(ctx):
        for desc in (None, 'new description', ''):
            for env in (None, {'k2': 'v2'}, {}):
                for present in (True, False):
                    combos.append((st, desc, env, present))
    cur_states = ROW_STATES
    if not ctx.thorough():
        # every request combination on a present row; absent rows for a third of them
        combos = [c for c in combos if c[3] or rng.random() < 0.34]
    cases, exprs = [], []
    for (st, desc, env, present) in combos:
        # the current state matters only for an env update without a state: all current states there,
        # two random ones elsewhere (all of them in the thorough tier)
        if (ctx.thorough() and st in STATE_TEXTS + [None]) or (env and not st and present):
            curs = cur_states
        else:
            curs = rng.sample(cur_states, 2 if present else 1)
        for cur in curs:
            cases.append((st, desc, env, present, cur))
            exprs.append('show_outcome (exec_put %s %s %s %s %s)' % (
                coq_bool(present), COQ_STATE[cur], coq_str(st or ''), coq_bool(bool(desc)), coq_bool(bool(env))))
    if only is not None:
        cases, res = [tuple(only)], [None]
    else:
        res = model_eval('c16execput', exprs)
    tname = exec_table(app)
    for (st, desc, env, present, cur), r in zip(cases, res):
        model = parse_outcome(r) if r is not None else None
        ids = app.ensure_seed(wf_state=cur)
        rid = ids['wf_ex'] if present else ABSENT
        body = {}
        if st is not None:
            body['state'] = st
        if desc is not None:
            body['description'] = desc
        if env is not None:
            body['params'] = json.dumps({'env': env})
        app.set_policy('allow_all')
        before = row_of(app, tname, ids['wf_ex'])
        status, events, rpcs = app.request({'verb': 'PUT', 'url': '/v2/executions/%s' % rid, 'body': body, 'ctype': 'json'})
        after = row_of(app, tname, ids['wf_ex'])
        app.set_policy('default')
        call = '-'
        if rpcs:
            name, a, kw = rpcs[0]
            if name == 'pause_workflow':
                call = 'pause_workflow'
            elif name == 'resume_workflow':
                call = 'resume_workflow+env' if kw.get('env') else 'resume_workflow'
            elif name == 'stop_workflow':
                call = 'stop_workflow:%s' % (a[1] if len(a) > 1 else '?')
            else:
                call = name
        impl = {'status': status, 'call': call if len(rpcs) <= 1 else 'many:%s' % [c[0] for c in rpcs],
                'upd_desc': before['description'] != after['description'],
                'upd_env': before['params'] != after['params'], 'deleted': False}
        case = {'request': {'verb': 'PUT', 'url': '/v2/executions/%s' % rid, 'body': body}, 'present': present, 'current': cur}
        ctx.count('exec_put', (st, desc, json.dumps(env), present, cur), nontrivial=present)
        ctx.cov['disagreements_checked'] += 1
        if model is not None and model != impl:
            ctx.disagree('exec_put', case, model, impl)
        # oracle: the property text, on observations only
        bad = code = None
        for (name, a, kw) in rpcs:
            if name == 'pause_workflow' and st != 'PAUSED':
                code, bad = 'undocumented-pause', 'pause requested by state %r' % st
            elif name == 'resume_workflow' and st != 'RUNNING':
                code, bad = 'undocumented-resume', 'resume requested by state %r' % st
            elif name == 'stop_workflow' and not (st in FINAL + ('SKIPPED',) and a[1] == st):
                code, bad = 'undocumented-stop', 'stop_workflow(%r) requested by state %r' % (a[1:2], st)
            elif name not in ('pause_workflow', 'resume_workflow', 'stop_workflow'):
                code, bad = 'unexpected-engine-call', 'unexpected engine call %s' % name
        if st and desc and (impl['upd_desc'] or rpcs or status < 400):
            code, bad = 'description-with-state', 'description and state accepted together'
        if impl['upd_desc'] and rpcs:
            code, bad = 'description-with-state', 'description written and engine called in one request'
        if before['state'] != after['state']:
            code, bad = 'state-written', 'the controller itself changed the state column'
        if status >= 400 and (rpcs or before != after):
            code, bad = 'refused-with-effect', 'refused (%d) but had an effect' % status
        if bad:
            ctx.fail('exec-put:%s' % code, 'PUT execution %r -> %d: %s' % (body, status, bad), dict(case, kind='exec_put', tuple=[st, desc, env, present, cur]))
    ctx.sample({'suite': 'exec_put', 'body': {'state': 'PAUSED'}, 'expected': 'pause_workflow'})


FORCE_TEXTS = [None, '', 'true', 'True', '1', 'false', 'False', '0', 'no']
TRUE_TEXTS = ('1', 't', 'true', 'on', 'y', 'yes')


def judge_exec_delete(ctx, case, cur, force, status, gone):
    """the property text on one observed DELETE"""
    meant_force = force is not None and force.lower() in TRUE_TEXTS
    if gone and cur not in FINAL + ('SKIPPED',) and not meant_force:
        if force:
            ctx.fail('exec-delete:force-text-not-true-deletes-unfinished',
                     'DELETE %s removed an execution in state %s: force=%s is not a request to force, yet the unfinished '
                     'execution was deleted (required: 403, row kept)' % (case['request']['url'], cur, force),
                     dict(case, kind='exec_delete'))
        else:
            ctx.fail('exec-delete:unfinished-without-force',
                     'DELETE %s removed an execution in state %s without force' % (case['request']['url'], cur),
                     dict(case, kind='exec_delete'))
        return False
    if gone and status >= 400:
        ctx.fail('exec-delete:refused-but-deleted', 'DELETE %s answered %d but the row is gone' % (case['request']['url'], status),
                 dict(case, kind='exec_delete'))
        return False
    return True


def one_exec_delete(app, cur, force, present):
    ids = app.ensure_seed(wf_state=cur)
    rid = ids['wf_ex'] if present else ABSENT
    url = '/v2/executions/%s' % rid + ('' if force is None else '?force=%s' % force)
    app.set_policy('allow_all')
    status, events, rpcs = app.request({'verb': 'DELETE', 'url': url})
    after = row_of(app, exec_table(app), ids['wf_ex'])
    app.set_policy('default')
    return url, status, rpcs, after is None


def suite_exec_delete(ctx, app, only=None):
    cases, exprs = [], []
    for cur in ['RUNNING'] + [x for x in ROW_STATES if x != 'RUNNING']:
        for force in FORCE_TEXTS:
            for present in (True, False):
                cases.append((cur, force, present))
                exprs.append('show_outcome (exec_delete exec_delete_force_conv %s %s %s)' % (
                    coq_bool(present), 'None' if force is None else '(Some %s)' % coq_str(force), COQ_STATE[cur]))
    if only is not None:
        cases, res = [tuple(only)], [None]
    else:
        res = model_eval('c16execdel', exprs)
    for (cur, force, present), r in zip(cases, res):
        model = parse_outcome(r) if r is not None else None
        url, status, rpcs, gone = one_exec_delete(app, cur, force, present)
        impl = {'status': status, 'call': '-' if not rpcs else rpcs[0][0], 'upd_desc': False, 'upd_env': False,
                'deleted': gone}
        case = {'request': {'verb': 'DELETE', 'url': url, 'body': None}, 'present': present, 'current': cur, 'force': force,
                'tuple': [cur, force, present]}
        ctx.count('exec_delete', (cur, force, present), nontrivial=present)
        ctx.cov['disagreements_checked'] += 1
        if model is not None and model != impl:
            ctx.disagree('exec_delete', case, model, impl)
        judge_exec_delete(ctx, case, cur, force, status, gone)


def suite_task_put(ctx, app, only=None):
    rng = ctx.rng
    combos = []
    for st in STATE_TEXTS + [None] + random_texts(ctx)[:40]:
        for cur in ROW_STATES:
            for reset in (None, True, False):
                for wi in (False, True):
                    combos.append((st, cur, reset, wi, True, 'ok', 'ok'))
    extra = []
    for st in ('RUNNING', 'SKIPPED', 'SUCCESS'):
        for cur in ('ERROR', 'RUNNING'):
            extra += [(st, cur, True, False, False, 'ok', 'ok'), (st, cur, True, False, True, 'bad', 'ok'),
                      (st, cur, True, False, True, 'ok', 'bad'), (st, cur, True, False, True, 'absent', 'absent'),
                      (st, cur, True, False, True, 'match', 'match')]
    if not ctx.thorough():
        keep = [c for c in combos if c[1] == 'ERROR' or c[0] in ('RUNNING', 'SKIPPED')]
        rest = [c for c in combos if c not in keep]
        combos = keep + rng.sample(rest, 150)
    combos += extra
    exprs = []
    for (st, cur, reset, wi, present, name, wfname) in combos:
        exprs.append('show_outcome (task_put %s %s %s %s %s %s %s)' % (
            coq_bool(present), coq_bool(name != 'bad'), coq_bool(wfname != 'bad'), coq_str(st or ''), COQ_STATE[cur],
            'None' if reset is None else '(Some %s)' % coq_bool(reset), coq_bool(wi)))
    if only is not None:
        combos, res = [tuple(only)], [None]
    else:
        res = model_eval('c16taskput', exprs)
    for (st, cur, reset, wi, present, name, wfname), r in zip(combos, res):
        model = parse_outcome(r) if r is not None else None
        ids = app.ensure_seed(task_state=cur, with_items=wi)
        rid = ids['task_ex'] if present else ABSENT
        body = {}
        if st is not None:
            body['state'] = st
        if reset is not None:
            body['reset'] = reset
        if name in ('bad', 'match'):
            body['name'] = 't1' if name == 'match' else 'other'
        if wfname in ('bad', 'match'):
            body['workflow_name'] = 'c16_wf' if wfname == 'match' else 'other_wf'
        app.set_policy('allow_all')
        before = app.db_hash()
        status, events, rpcs = app.request({'verb': 'PUT', 'url': '/v2/tasks/%s' % rid, 'body': body, 'ctype': 'json'})
        after = app.db_hash()
        app.set_policy('default')
        call = '-'
        if rpcs:
            n, a, kw = rpcs[0]
            call = 'rerun_workflow:%s:%s' % ('reset' if kw.get('reset') else 'noreset', 'skip' if kw.get('skip') else 'run') \
                if n == 'rerun_workflow' else n
        impl = {'status': status, 'call': call if len(rpcs) <= 1 else 'many', 'upd_desc': False, 'upd_env': False, 'deleted': False}
        case = {'request': {'verb': 'PUT', 'url': '/v2/tasks/%s' % rid, 'body': body}, 'present': present, 'current': cur,
                'with_items': wi}
        ctx.count('task_put', (st, cur, reset, wi, present, name, wfname), nontrivial=present)
        ctx.cov['disagreements_checked'] += 1
        if model is not None and model != impl:
            ctx.disagree('task_put', case, model, impl)
        bad = code = None
        if rpcs:
            if cur != 'ERROR':
                code, bad = 'not-from-error', 'engine called for a task in state %s' % cur
            elif st not in ('RUNNING', 'SKIPPED'):
                code, bad = 'undocumented-target', 'engine called for requested state %r' % st
            elif [c[0] for c in rpcs] != ['rerun_workflow']:
                code, bad = 'unexpected-engine-call', 'unexpected engine calls %s' % [c[0] for c in rpcs]
            elif bool(rpcs[0][2].get('skip')) != (st == 'SKIPPED'):
                code, bad = 'skip-flag', 'skip flag does not match the requested state'
        if before != after:
            code, bad = 'db-written', 'the controller wrote to the database'
        if status >= 400 and rpcs:
            code, bad = 'refused-with-effect', 'refused (%d) but called the engine' % status
        if bad:
            ctx.fail('task-put:%s' % code, 'PUT task %r (current %s) -> %d: %s' % (body, cur, status, bad), dict(case, kind='task_put', tuple=[st, cur, reset, wi, present, name, wfname]))


def suite_action_put(ctx, app, only=None):
    cases, exprs = [], []
    for st in STATE_TEXTS + [None] + random_texts(ctx):
        for output in (None, '{"r": 1}', '{}'):
            for present in (True, False):
                cases.append((st, output, present))
                exprs.append('show_outcome (action_put action_supported_states %s)' % coq_str(st or ''))
    if only is not None:
        cases, res = [tuple(only)], [None]
    else:
        res = model_eval('c16actput', exprs)
    for (st, output, present), r in zip(cases, res):
        model = parse_outcome(r) if r is not None else None
        ids = app.ensure_seed()
        rid = ids['action_ex'] if present else ABSENT
        body = {}
        if st is not None:
            body['state'] = st
        if output is not None:
            body['output'] = output
        app.set_policy('allow_all')
        before = app.db_hash()
        status, events, rpcs = app.request({'verb': 'PUT', 'url': '/v2/action_executions/%s' % rid, 'body': body, 'ctype': 'json'})
        after = app.db_hash()
        app.set_policy('default')
        call = '-'
        if rpcs:
            n, a, kw = rpcs[0]
            if n == 'on_action_complete':
                res_obj = a[1]
                kind = 'cancel' if getattr(res_obj, 'cancel', False) else ('error' if res_obj.error is not None else 'data')
                call = 'on_action_complete:%s' % kind
            elif n == 'on_action_update':
                call = 'on_action_update:%s' % a[1]
            else:
                call = n
        impl = {'status': status, 'call': call if len(rpcs) <= 1 else 'many', 'upd_desc': False, 'upd_env': False, 'deleted': False}
        case = {'request': {'verb': 'PUT', 'url': '/v2/action_executions/%s' % rid, 'body': body}, 'present': present}
        ctx.count('action_put', (st, output, present))
        ctx.cov['disagreements_checked'] += 1
        if model is not None and model != impl:
            ctx.disagree('action_put', case, model, impl)
        bad = code = None
        if rpcs and st not in ('SUCCESS', 'ERROR', 'CANCELLED', 'PAUSED', 'RUNNING'):
            code, bad = 'unsupported-state', 'engine called for unsupported state %r' % st
        if rpcs and rpcs[0][0] == 'on_action_update' and rpcs[0][1][1] != st:
            code, bad = 'other-state', 'engine asked for state %r, request said %r' % (rpcs[0][1][1], st)
        if before != after:
            code, bad = 'db-written', 'the controller wrote to the database'
        if bad:
            ctx.fail('action-put:%s' % code, 'PUT action execution %r -> %d: %s' % (body, status, bad), dict(case, kind='action_put', tuple=[st, output, present]))


def suite_action_delete(ctx, app, only=None):
    cases, exprs = [], []
    for cur in ROW_STATES:
        for cfgflag in (True, False):
            for which in ('adhoc', 'task', 'absent'):
                cases.append((cur, cfgflag, which))
                exprs.append('show_outcome (action_delete %s %s %s %s)' % (
                    coq_bool(cfgflag), coq_bool(which != 'absent'), coq_bool(which == 'adhoc'), COQ_STATE[cur]))
    if only is not None:
        cases, res = [tuple(only)], [None]
    else:
        res = model_eval('c16actdel', exprs)
    tname = next(t.name for t in app.tables() if t.name.startswith('action_executions'))
    for (cur, cfgflag, which), r in zip(cases, res):
        model = parse_outcome(r) if r is not None else None
        ids = app.ensure_seed(action_state=cur, adhoc_state=cur)
        rid = {'adhoc': ids['ad_hoc_action_ex'], 'task': ids['action_ex'], 'absent': ABSENT}[which]
        app.cfg.CONF.set_override('allow_action_execution_deletion', cfgflag, group='api')
        app.set_policy('allow_all')
        try:
            status, events, rpcs = app.request({'verb': 'DELETE', 'url': '/v2/action_executions/%s' % rid})
        finally:
            app.cfg.CONF.set_override('allow_action_execution_deletion', True, group='api')
            app.set_policy('default')
        gone = which != 'absent' and row_of(app, tname, rid) is None
        impl = {'status': status, 'call': '-' if not rpcs else rpcs[0][0], 'upd_desc': False, 'upd_env': False, 'deleted': gone}
        case = {'request': {'verb': 'DELETE', 'url': '/v2/action_executions/%s' % rid, 'body': None}, 'current': cur,
                'allow_action_execution_deletion': cfgflag, 'which': which}
        ctx.count('action_delete', (cur, cfgflag, which), nontrivial=(which != 'absent'))
        ctx.cov['disagreements_checked'] += 1
        if model is not None and model != impl:
            ctx.disagree('action_delete', case, model, impl)
        if gone and (not cfgflag or which != 'adhoc' or cur not in FINAL + ('SKIPPED',)):
            ctx.fail('action-delete:guard', 'DELETE action execution (%s, state %s, deletion allowed=%s) removed the row' % (which, cur, cfgflag),
                     dict(case, kind='action_delete', tuple=[cur, cfgflag, which]))


def observations(ctx, app, table):
    obs = []
    for m in table['methods']:
        if method_key(m) in ('MaintenanceController.put', 'MaintenanceController.get'):
            obs.append('%s enforces no rule and none is documented in the registry (allow-listed observation)' % method_key(m))
        if m['all_projects'] and not any(c[1].startswith('CAllProjects') for c in conds_before_data(m)):
            obs.append('%s accepts all_projects without a list:all_projects rule; its list rule %s is admin-only by default'
                       % (method_key(m), first_enforce(m)))
    obs.append('rule services:list is registered but no controller enforces it')
    obs.append('PUT /v2/executions/<id> {"state": "SKIPPED"} is accepted and forwarded as stop_workflow(id, "SKIPPED"): '
               'states.is_completed counts SKIPPED; mistral/engine/workflows.py Workflow.stop has no branch for it (read, not executed here: the engine is outside C16)')
    ctx.cov['observations'] = obs


def run(ctx):
    ctx.cov['rule'] = ('exhaustive: every exposed method x {allow all, deny all, deny first rule, deny conditional rule with '
                       'condition on/off} x resource present/absent (x auth on/off for members); every requested state '
                       'text (9 constants, 7 near-misses, unset) x fields x present/absent (x current state) for the '
                       'state-changing requests; distinct = distinct (suite, request, policy); non-trivial = some rule '
                       'denied / resource present')
    table = load_table(ctx)
    app = get_app()
    live = suite_enumerate(ctx, app, table)
    suite_handle_and_oracle(ctx, app, table, live)
    suite_default_policy_oracle(ctx, app, table)
    suite_sequences(ctx, app, table)
    suite_policy_eval(ctx, app)
    suite_callers(ctx, app, table)
    suite_exec_put(ctx, app)
    suite_exec_delete(ctx, app)
    suite_task_put(ctx, app)
    suite_action_put(ctx, app)
    suite_action_delete(ctx, app)
    observations(ctx, app, table)
    ctx.cov['traces_validated_against_impl'] = ctx.cov['suites'].get('trace', {}).get('evaluations', 0)
    ctx.assumptions += ['the engine behind the RPC client is replaced by a recorder (engine behaviour is outside C16)',
                        'authentication itself (keystone) is stubbed; policy enforcement and hooks are the real ones']


def search(ctx):
    """Widened oracle-only search (no model, no Coq): the same oracles on the full (thorough)
    combination space.  Works when the translator / the build is what broke."""
    ctx.tier = 'thorough'
    WITH_MODEL[0] = False
    table = load_table(ctx)
    app = get_app()
    before = len(ctx.disagreements)
    live = {method_key(m) for m in table['methods']}
    def at(tier, fn):
        def go():
            ctx.tier = tier
            fn()
        return go
    # the caller x policy-file grid first in its quick size (an HTTP-level witness is found in seconds if there
    # is one), then everything in the thorough size
    steps = [at('quick', lambda: suite_callers(ctx, app, table)), at('quick', lambda: suite_policy_eval(ctx, app)),
             at('thorough', lambda: suite_handle_and_oracle(ctx, app, table, live)),
             at('thorough', lambda: suite_default_policy_oracle(ctx, app, table)),
             at('thorough', lambda: suite_callers(ctx, app, table)), at('thorough', lambda: suite_policy_eval(ctx, app)),
             at('thorough', lambda: suite_sequences(ctx, app, table)), at('thorough', lambda: suite_exec_put(ctx, app)),
             at('thorough', lambda: suite_exec_delete(ctx, app)), at('thorough', lambda: suite_task_put(ctx, app)),
             at('thorough', lambda: suite_action_put(ctx, app)), at('thorough', lambda: suite_action_delete(ctx, app))]
    try:
        for i, st in enumerate(steps):
            st()
            if ctx.failures and i >= 1:
                break        # a concrete failing input is what the search is for
    finally:
        WITH_MODEL[0] = True
        del ctx.disagreements[before:]


def replay(obj):
    """Re-run the recorded request on the real application and judge it with the same oracle.
    Exit status 1 while the property is still violated by this input, 0 when it no longer is."""
    r = obj.get('replay', {})
    if 'request' not in r and r.get('kind') != 'policy_eval':
        print(json.dumps(obj, indent=1)[:3000])
        return 1
    app = get_app()
    ctx = core.Ctx('C16', 'quick', 0)
    kind = r.get('kind', 'denied')
    req = dict(r.get('request', {}))
    req['ctype'] = 'json' if isinstance(req.get('body'), dict) else None
    suites = {'exec_put': suite_exec_put, 'exec_delete': suite_exec_delete, 'task_put': suite_task_put,
              'action_put': suite_action_put, 'action_delete': suite_action_delete}
    if kind == 'policy_eval':
        impl, want = one_policy_eval(ctx, app, r['rule'], retuple(r['check']), {n: retuple(k) for n, k in r.get('base', [])},
                                     r['caller'])
        print('acl.enforce(%r) for caller %s under policy file %s -> %s (the policy language says %s)' % (
            r['rule'], r['caller'], r.get('policy_file'), impl, want))
    elif kind == 'caller':
        over = [(n, retuple(k)) for n, k in r['policy_file']]
        out = one_caller_request(ctx, app, r.get('method'), None, req, over, r['caller'], r['decisive'],
                                 r.get('auth_enable', False), True)
        print('%s %s body=%r caller=%s policy file %s -> status %d, database unchanged=%s, engine calls=%s' % (
            req['verb'], req['url'], req.get('body'), r['caller'], [(n, check_text(k)) for n, k in over], out['status'],
            out['unchanged'], out['rpc']))
    elif kind in suites and 'tuple' in r:
        suites[kind](ctx, app, only=r['tuple'])
        print('%s %s body=%r (rows: %s)' % (req['verb'], req['url'], req.get('body'),
                                            {k: r[k] for k in ('current', 'present', 'with_items', 'which') if k in r}))
    else:
        policy = r.get('policy', 'allow_all')
        denied = r.get('denied', [])
        if denied == 'ALL':
            policy, denied = 'deny_all', []
        out = run_scenario(app, req, policy, denied, auth=r.get('auth_enable', False), admin=r.get('admin', False))
        print('%s %s body=%r policy=%s denied=%s -> status %d, database unchanged=%s, engine calls=%s, events=%s' % (
            req['verb'], req['url'], req.get('body'), policy, denied, out['status'], out['unchanged'], out['rpc'],
            out['events'][:8]))
        if kind in ('publicize', 'all-projects', 'foreign-project'):
            ok = judge_default_policy(kind, out)
        else:
            pre = r.get('method', '').startswith('MembersController') and not r.get('auth_enable', False)
            ok = (out['status'] == 403 or (pre and out['status'] == 400)) and out['unchanged'] and not out['rpc'] \
                and not data_events(out['events'])
        if not ok:
            ctx.fail(obj.get('signature', '?'), obj.get('what', ''), r)
    for f in ctx.failures:
        print('still failing: %s' % f['what'])
    if not ctx.failures:
        print('the recorded failure does not reproduce: %s' % obj.get('what'))
    return 1 if ctx.failures else 0
