"""C17 - a cron trigger fires once per due time and never more than its count.

Ties Model/Cron.v to the real cron-trigger code of /repo:
  create      vs triggers.create_cron_trigger / validate_cron_trigger_input (+ the REST resource type of
              remaining_executions) on a decision table of pattern / first time / count / clock
  run         vs 1..3 simulated processors, each one a greenlet executing the REAL
              periodic.process_cron_triggers_v2, suspended right before every database / RPC step
              (advance_cron_trigger, engine client start_workflow), resumed in a generated order
              (= an interleaving of the database steps), with a virtual clock (oslo timeutils.utcnow),
              crashes (the greenlet is killed between advance and start), RPC failures, a recording
              engine client and a fake keystone trust client; real sqlite rows are read back with raw SQL
              after every step.  croniter's values (the real triggers.get_next_execution_time) are tabulated
              per case and handed to the model as `nxt`.
  inside      the same processors, additionally suspended INSIDE the real db_api.delete_cron_trigger /
              update_cron_trigger (called by the real advance_cron_trigger / triggers.delete_cron_trigger): a hook on
              the SQLAlchemy engine (before_cursor_execute) stops a processor right before the first DELETE / UPDATE
              statement on cron_triggers_v2 of its call, i.e. after the call's SELECT and access check, with its own
              DB session and transaction open (mistral's thread-local storage is switched per processor).  The other
              processors then run their whole delete / update and commit before it resumes.  Cases: 2-3 processors;
              last occurrence (count 1, first-execution-time-only, first time + count 1) with EVERY order of who
              selects / writes first (6 orders for two, 90 for three processors); count 2 / no count / count 3 over 2-3
              occurrences with every order on the first or the last one; free-form schedules with ticks, crashes and
              RPC failures while a processor is inside its call.  Model steps: Sel i k / Wr i (Adv = both at once).
Oracle (no model involved): on the observed rows / start_workflow calls of the real run
  once        each start belongs to an occurrence (a value of next_execution_time the row held and left),
              at most one start per occurrence, exactly one unless the winner crashed / its RPC failed; when the
              second start comes from a processor whose write inside delete_ / update_cron_trigger changed no row the
              signature is occurrence-twice:inside-delete / occurrence-twice:inside-update
  count       starts <= count, row removed exactly when the count is used up, first-time-only fires once
  forward     every change of next_execution_time is to croniter(pattern, max(clock the writer saw, previous)) > previous
  context     every start carries the trigger's workflow, input, params, description id and runs under a
              context of the trigger's project (and trust when auth is enabled)
  not-early   nothing fires more than 2 s before its due time

Extracted from the source on every run (translate/tr_croncfg.py -> Gen/CronCfg.v, fail closed):
  lookup_by_name           advance_cron_trigger addresses the row by t.name or by t.id (selects the model's `resolve`)
  delete_reports_rowcount  db api delete_cron_trigger returns the row count of `DELETE ... WHERE id = <selected row>`
  update_reports_match     db api update_cron_trigger(query_filter) = update_on_match on id + filter, NoRowsMatched -> 0
  (+ recognised-or-error: triggers.delete_cron_trigger passes the count on, advance_cron_trigger returns count > 0,
  process_cron_triggers_v2 starts only under `if modified:`).  The two flags are parameters of the model's Wr step (what a
  write that changed no row reports) and every theorem of Properties/C17.v is proved from both being `true`.

Earlier FINDING, fixed in /repo since (signature `same-name-public-trigger`, theorems C17_*_refuted_ambiguous_names):
advance_cron_trigger addressed the row by NAME; get_cron_trigger(name) under the trigger's project context also sees
other projects' PUBLIC triggers and returns `.first()`. With a private trigger `a` in one project and a public trigger
`a` in another, advancing the private one updated / overwrote the public one's row, one occurrence was started twice,
a count-1 trigger fired twice (CORPUS[4], CORPUS[5]).  The code now passes t.id (lookup_by_name = false).

Self-test mutations (each applied alone to a scratch worktree of /repo; each gives its own VIOLATION line):
  M1 periodic.advance_cron_trigger: query_filter=None (no compare-and-swap)         -> occurrence-twice, next-not-forward, removed-early
  M2 periodic.advance_cron_trigger: croniter from t.next_execution_time, not max(now, ..) -> next-not-pattern
  M3 periodic.advance_cron_trigger: decrement only if remaining_executions > 1      -> count-exceeded, not-removed, count-changed
  M4 periodic.process_cron_triggers_v2: `if modified is not None:` (losers start too) -> double-start, count-exceeded
  M5 periodic.process_cron_triggers_v2: trust context not installed before the start -> context:trust
  M6 triggers.get_next_cron_triggers: window of 60 s instead of 2 s                  -> early-start
  M7 triggers.validate_cron_trigger_input: `count > 2` without pattern               -> first-only-count (+ create disagreement)
  M8 db api update_cron_trigger: NoRowsMatched returns (trigger, 1)                  -> update_reports_match = false (every
     theorem broken), double-start, occurrence-twice:inside-update, count-exceeded; the model with the flag false
     still agrees with the code
  M9 periodic.process_cron_triggers_v2: start_workflow with {} instead of the input -> context:input
  MX periodic.advance_cron_trigger: delete by t.id, update by t.name                 -> translate:Gen/CronCfg.v broken (fail closed)
  (M1 and M4 are now also refused by the translator: count chain / query_filter shape.)
 seen only by `inside` (every whole-call interleaving behaves correctly):
  S2 db api delete_cron_trigger: `session.delete(row); return 1` (seeded, round 2)   -> delete_reports_rowcount = false (every
     theorem broken), occurrence-twice:inside-delete, count-exceeded; model with the flag false agrees with the code
  N1 db api update_cron_trigger: filter compared in Python on the selected object, then `row.update(values); return row, 1`
                                                                                    -> translate broken, occurrence-twice:inside-update
  N2 db api delete_cron_trigger: `count = query.filter_by(id=..).count(); session.delete(row); return count`
                                                                                    -> translate broken, occurrence-twice:inside-delete
  N3 db api update_cron_trigger: NoRowsMatched handler falls through to `return row, 1` after the try
                                                                                    -> translate broken, double-start, occurrence-twice:inside-update
  N0 db api delete_cron_trigger: variables renamed (same shape)                      -> exit 0 (no false alarm)
"""
import datetime
import json

from harness import core

GEN = ['CronCfg']

MANIFEST = {
    'level_text': 'Coq theorems over Model/Cron.v (protocol model finer than database calls: Tick/Read/Sel/Wr/Adv/Start/Drop/Crash, '
                  'where Sel is the SELECT and Wr the DELETE / conditional UPDATE statement of one delete_cron_trigger / '
                  'update_cron_trigger call and Adv both at once; any number of processors and triggers, arbitrary step lists = all '
                  'interleavings including other processors acting between a call\'s SELECT and its write, any nxt with t < nxt t): '
                  'a 13-clause invariant proved by induction gives at most one start per (trigger, due time), every consumed '
                  'occurrence started / pending / lost to a crash (exactly one without crash), starts <= count and removal exactly '
                  'at 0, first-time-only fires once, next moves to nxt(max(clock seen by the writer, next)) > next, starts carry the '
                  "trigger's payload and project, nothing fires > 2 s early. All proved from delete_reports_rowcount = true and "
                  'update_reports_match = true, the compare-and-swap shape of db api delete_cron_trigger / update_cron_trigger extracted '
                  'from the source on every run (Gen/CronCfg.v; the Properties theorems are instantiated with the generated constants, '
                  'so a changed flag breaks them), and REFUTED with two-processor witnesses when either flag is false '
                  '(C17_last_occurrence_twice_when_delete_not_rowcount, C17_occurrence_twice_when_update_not_matched); under '
                  '`lookup by name` they need unambiguous names and are refuted without (C17_*_refuted_ambiguous_names; the code '
                  'now looks up by id). Model tied to periodic.py / triggers.py / db api by differential runs of the real '
                  'process_cron_triggers_v2 in 1-3 greenlets suspended at every DB/RPC step and, in suite `inside`, also between '
                  'the SELECT and the DELETE / UPDATE inside the real db api calls (every order of 2-3 processors on a last '
                  'occurrence), and of create_cron_trigger on an exhaustive decision table.',
    'level_note': 'Trusted: croniter (tabulated per case as nxt; only t < nxt t is assumed, checked on every table), '
                  'SQLAlchemy/sqlite/oslo.db update_on_match atomicity of ONE statement (a DELETE / conditional UPDATE with its row '
                  'count = one model step; SELECT and write of a call are separate steps), READ COMMITTED visibility between '
                  'sessions (what the shared in-memory sqlite connection gives), keystone (fake trust client), the suspension points '
                  '(the DB/RPC calls of process_cron_triggers_v2 and the first DELETE/UPDATE statement on cron_triggers_v2 inside '
                  'advance_cron_trigger, hooked at the SQLAlchemy engine), translator tr_croncfg.py (lookup by name / id, shapes of '
                  'delete_cron_trigger / update_cron_trigger, count chain; anything else is refused). Not modelled: a trigger whose '
                  'NAME equals another trigger\'s id (get_cron_trigger matches id OR name); API delete/re-create of a trigger between '
                  'read and advance; MySQL DATETIME truncation; a processor dying between its write and its commit. Counts < 1 are '
                  'outside the REST type (minimum=1, checked) and outside the count theorem.',
    'technique': 'Coq invariant proof over a statement-granular protocol model parametrised by source-extracted compare-and-swap '
                 'flags; interleaving-driven differential correspondence down to SELECT / write inside the db api calls',
    'design_ref': '6 C17',
}

IMPORTS = ['Model.Cron', 'Gen.CronCfg']

BASE = datetime.datetime(2030, 1, 1, 0, 0, 0)
PROJECTS = ['proj-a', 'proj-b']
WF_TEXT = """
version: '2.0'
%s:
  type: direct
  input:
    - x: 0
  tasks:
    t1:
      action: std.noop
"""


def dt(sec):
    return BASE + datetime.timedelta(seconds=sec)


def sec(d):
    """datetime -> seconds since BASE (exact rational kept as float only if not whole)."""
    delta = d - BASE
    us = delta.days * 86400 * 10**6 + delta.seconds * 10**6 + delta.microseconds
    return us // 10**6 if us % 10**6 == 0 else us / 10**6


# ---------------------------------------------------------------------------
# the real code under a deterministic multi-processor simulation

class Kill(BaseException):
    """Thrown into a processor greenlet to simulate the death of the process."""


class RpcDown(Exception):
    pass


class Env:
    """Process-wide boot of the real DB layer and the patches (done once)."""
    booted = False
    clock = 0
    auth = True
    wf_ids = {}
    trust_deleted = []
    fine = None            # the World whose processors are also suspended INSIDE their database calls

    @classmethod
    def boot(cls):
        if cls.booted:
            return
        from oslo_config import cfg
        from oslo_utils import timeutils
        from mistral.db.v2 import api as db_api  # noqa  (first: import order)
        from mistral import context as auth_ctx
        from mistral.services import security, workflows
        from mistral.services import periodic, triggers  # noqa
        from mistral.utils.openstack import keystone
        from mistral.rpc import clients as rpc
        from mistral import config  # noqa
        cfg.CONF.set_default('connection', 'sqlite://', group='database')
        cfg.CONF.set_default('max_overflow', -1, group='database')
        cfg.CONF.set_default('max_pool_size', 1000, group='database')
        cfg.CONF.set_default('auth_enable', False, group='pecan')
        db_api.setup_db()
        cls.mods = dict(cfg=cfg, timeutils=timeutils, db_api=db_api, auth_ctx=auth_ctx, security=security,
                        workflows=workflows, periodic=periodic, triggers=triggers, keystone=keystone, rpc=rpc)
        # virtual clock: the only time source of periodic.py / triggers.py
        cls.real_utcnow = timeutils.utcnow
        timeutils.utcnow = lambda with_timezone=False: dt(cls.clock)

        class Trust:
            def __init__(self, i):
                self.id = i
        cls.trust_seq = 0

        def create_trust():
            cls.trust_seq += 1
            c = auth_ctx.ctx()
            return Trust('trust-%s-%d' % (c.project_id, cls.trust_seq))
        security.create_trust = create_trust

        class FakeTrusts:
            def delete(self, trust_id):
                cls.trust_deleted.append(trust_id)

        class FakeKs:
            session = None

            def __init__(self, trust_id):
                self.auth_token = 'tok-%s' % trust_id
                self.user_id = 'user-%s' % trust_id
                self.trusts = FakeTrusts()
        keystone.client_for_trusts = lambda trust_id: FakeKs(trust_id)
        cls.install_write_hook()
        cls.booted = True
        # workflows, one per project (auth on) and one for the default project (auth off)
        for auth, proj in [(True, PROJECTS[0]), (True, PROJECTS[1]), (False, security.DEFAULT_PROJECT_ID)]:
            cls.set_auth(auth)
            auth_ctx.set_ctx(cls.user_ctx(proj))
            name = 'c17wf_%s' % proj.strip('<>').replace('-', '_')
            wf = workflows.create_workflows(WF_TEXT % name)[0]
            cls.wf_ids[proj] = (wf.name, wf.id)
            auth_ctx.set_ctx(None)

    @classmethod
    def install_write_hook(cls):
        """Suspension point INSIDE db_api.delete_cron_trigger / update_cron_trigger: right before the first DELETE /
        UPDATE statement on cron_triggers_v2 of an advance_cron_trigger call is sent to the database, i.e. after the
        call's SELECT (get_cron_trigger) and check_db_obj_access.  Hooked at the SQLAlchemy engine, so it does not
        depend on how the function issues the statement (Core execute, ORM flush at commit, update_on_match)."""
        import greenlet
        from sqlalchemy import event
        from mistral.db.sqlalchemy import base as b

        def before_cursor_execute(conn, cursor, statement, parameters, context, executemany):
            w = cls.fine
            if w is None:
                return
            g = greenlet.getcurrent()
            t = getattr(g, 'in_adv', None)
            if t is None or getattr(g, 'wrote', True):
                return
            st = ' '.join(statement.split()).upper()
            for kind, head in (('delete', 'DELETE FROM CRON_TRIGGERS_V2'), ('update', 'UPDATE CRON_TRIGGERS_V2')):
                if st.startswith(head):
                    g.wrote = True
                    w._yield(('before_write', t.id, sec(t.next_execution_time), kind))
                    return
        event.listen(b.get_engine(), 'before_cursor_execute', before_cursor_execute)

    @classmethod
    def set_auth(cls, on):
        cls.mods['cfg'].CONF.set_override('auth_enable', bool(on), group='pecan')
        cls.auth = bool(on)

    @classmethod
    def user_ctx(cls, proj):
        return cls.mods['auth_ctx'].MistralContext(user_id='user-' + proj, project_id=proj, auth_token='t',
                                                   is_admin=False, roles=['member'])

    @classmethod
    def rows(cls):
        """Raw rows of cron_triggers_v2 (independent of mistral's query layer)."""
        import sqlalchemy as sa
        from mistral.db.sqlalchemy import base as b
        with b.get_engine().connect() as c:
            res = c.execute(sa.text('select id, name, project_id, next_execution_time, remaining_executions, pattern, '
                                    'first_execution_time, trust_id from cron_triggers_v2')).fetchall()
        out = {}
        for r in res:
            nt = r[3]
            if isinstance(nt, str):
                nt = datetime.datetime.strptime(nt, '%Y-%m-%d %H:%M:%S.%f')
            out[r[0]] = {'id': r[0], 'name': r[1], 'project': r[2], 'next': sec(nt), 'rem': r[4], 'pattern': r[5],
                         'trust': r[7]}
        return out

    @classmethod
    def wipe(cls):
        import sqlalchemy as sa
        from mistral.db.sqlalchemy import base as b
        with b.get_engine().begin() as c:
            c.execute(sa.text('delete from cron_triggers_v2'))
        cls.trust_deleted[:] = []


def project_of(case, trig):
    from mistral.services import security
    return PROJECTS[trig['project']] if case['auth'] else security.DEFAULT_PROJECT_ID


class World:
    """One case: triggers created through the real service, processors as greenlets."""

    def __init__(self, case):
        import greenlet
        Env.boot()
        self.g = greenlet
        self.m = Env.mods
        self.case = case
        Env.wipe()
        Env.set_auth(case['auth'])
        Env.clock = case['t0']
        self.key_of_id = {}
        self.trig = {}          # key -> creation facts (id, project, input, params, wf, trust)
        self.created = []       # per key: ('ok', next, rem) | ('rejected', excname)
        self.procs = {}
        self.saved_tls = {}     # per processor: mistral's thread-local storage (auth context, open DB session)
        self.fine = bool(case.get('fine'))
        self.cur = {}           # proc -> snapshot object being processed
        self.starts = []        # recorded start_workflow calls
        self.aborted = []       # exceptions that escaped from process_cron_triggers_v2
        self.events = []        # per step observation
        self.fail_next_start = set()
        self._patch()
        for k, t in enumerate(case['triggers']):
            self.created.append(self._create(k, t))

    # -- patches (restored by close()) ----------------------------------------
    def _patch(self):
        m = self.m
        w = self
        self.orig = (m['periodic'].advance_cron_trigger, m['rpc'].get_engine_client)
        real_adv = self.orig[0]

        def adv(t):
            g = w.g.getcurrent()
            i = g.proc
            w.cur[i] = t
            w._yield(('before_adv', t.id, sec(t.next_execution_time), t.remaining_executions))
            g.in_adv, g.wrote = t, False
            try:
                res = real_adv(t)
            finally:
                g.in_adv = None
            w.last[i] = ('adv', t.id, bool(res))
            return res

        class Recorder:
            def start_workflow(self, wf_identifier, wf_namespace='', wf_ex_id=None, wf_input=None,
                               description='', async_=False, **params):
                i = w.g.getcurrent().proc
                w._yield(('before_start',))
                if i in w.fail_next_start:
                    w.fail_next_start.discard(i)
                    w.last[i] = ('drop',)
                    raise RpcDown('engine not reachable')
                c = m['auth_ctx'].ctx() if m['auth_ctx'].has_ctx() else None
                t = w.cur.get(i)
                rec = {'proc': i, 'wf': wf_identifier, 'ns': wf_namespace, 'wf_ex_id': wf_ex_id,
                       'input': json.loads(json.dumps(wf_input)), 'params': json.loads(json.dumps(params)),
                       'description': description,
                       'ctx': None if c is None else {'project': c.project_id, 'trust': c.trust_id, 'is_admin': bool(c.is_admin),
                                                      'trust_scoped': bool(c.is_trust_scoped), 'token': c.auth_token,
                                                      'user': c.user_id},
                       'snap_id': getattr(t, 'id', None),
                       'snap_next': sec(t.next_execution_time) if t is not None else None,
                       'now': Env.clock}
                w.starts.append(rec)
                w.last[i] = ('start', rec)
                return {}
        m['periodic'].advance_cron_trigger = adv
        m['rpc'].get_engine_client = lambda: Recorder()
        self.last = {}
        Env.fine = self if self.fine else None

    def close(self):
        for i in list(self.procs):
            self._kill(i)
        Env.fine = None
        self.m['periodic'].advance_cron_trigger, self.m['rpc'].get_engine_client = self.orig
        self.m['auth_ctx'].set_ctx(None)

    # -- creation -------------------------------------------------------------
    def _create(self, k, t):
        m = self.m
        proj = project_of(self.case, t)
        m['auth_ctx'].set_ctx(Env.user_ctx(proj))
        wf_name, wf_id = Env.wf_ids[proj]
        first = t['first']
        if first is not None and not isinstance(first, str):
            first = dt(first)
        try:
            trig = m['triggers'].create_cron_trigger(
                t['name'], wf_name, t['input'], t['params'], t['pattern'], first, t['count'],
                None if t['start'] is None else dt(t['start']), None, t.get('scope', 'private'))
            self.key_of_id[trig.id] = k
            self.trig[k] = {'id': trig.id, 'project': proj, 'input': t['input'], 'params': t['params'], 'wf': wf_name,
                            'trust': trig.trust_id, 'name': t['name'], 'pattern': trig.pattern, 'count': t['count'],
                            'first': t['first']}
            return ('ok', sec(trig.next_execution_time), trig.remaining_executions)
        except Exception as e:
            return ('rejected', type(e).__name__)
        finally:
            m['auth_ctx'].set_ctx(None)

    # -- processors -----------------------------------------------------------
    def _yield(self, what):
        g = self.g.getcurrent()
        g.at = what
        g.parent.switch(what)

    def _body(self):
        per = self.m['periodic']
        while True:
            try:
                per.process_cron_triggers_v2(None, None)
            except Exception as e:      # noqa: the periodic task let an exception escape: the rest of the pass is lost
                self.aborted.append('%s: %s' % (type(e).__name__, str(e)[:120]))
            self._yield(('pass_end',))

    def _tls_in(self, i):
        """Processors are separate processes: each has its own mistral thread-local storage (the auth context and,
        when it is suspended inside a database call, its open DB session / transaction)."""
        from mistral_lib import utils as lib_utils
        tl = lib_utils._th_loc_storage
        mine = getattr(tl, 'storage', None)
        st = self.saved_tls.get(i)
        if st:
            tl.storage = st
        elif mine is not None:
            del tl.storage
        return mine

    def _tls_out(self, i, mine):
        from mistral_lib import utils as lib_utils
        tl = lib_utils._th_loc_storage
        self.saved_tls[i] = getattr(tl, 'storage', None)
        if mine is not None:
            tl.storage = mine
        elif hasattr(tl, 'storage'):
            del tl.storage

    def _switch(self, i):
        """Run processor i until its next suspension point."""
        g = self.procs[i]
        mine = self._tls_in(i)
        try:
            at = g.switch()
        finally:
            self._tls_out(i, mine)
        return at

    def _kill(self, i):
        g = self.procs.pop(i, None)
        if g is not None and not g.dead:
            mine = self._tls_in(i)
            try:
                g.throw(Kill)
            except Kill:
                pass
            finally:
                self._tls_out(i, mine)
        self.saved_tls.pop(i, None)
        self.cur.pop(i, None)

    def step(self, st):
        """Execute one schedule step on the real code; returns the observation (a model-step descriptor)."""
        kind = st[0]
        if kind == 'tick':
            Env.clock += st[1]
            return ('tick', st[1])
        i = st[1]
        if kind == 'crash':
            self._kill(i)
            return ('crash', i)
        if kind == 'failstart':
            g = self.procs.get(i)
            if g is None or g.dead or getattr(g, 'at', ('',))[0] != 'before_start':
                return ('noop', i)
            self.fail_next_start.add(i)
            kind = 'run'
        # run: one DB/RPC step of processor i
        g = self.procs.get(i)
        if g is None or g.dead:
            g = self.g.greenlet(self._body)
            g.proc = i
            g.at = ('idle',)
            self.procs[i] = g
        was = g.at
        self.last[i] = None
        if was[0] in ('idle', 'pass_end'):
            # a new pass: the read happens now; collect what it returned by wrapping get_next_cron_triggers
            tr = self.m['triggers']
            real = tr.get_next_cron_triggers
            seen = {}

            def reading():
                r = real()
                seen['ids'] = [x.id for x in r]
                return r
            tr.get_next_cron_triggers = reading
            try:
                self._switch(i)
            finally:
                tr.get_next_cron_triggers = real
            return ('read', i, [self.key_of_id.get(x, -1) for x in seen.get('ids', [])])
        self._switch(i)
        last = self.last.get(i)
        if was[0] == 'before_adv':
            k = self.key_of_id.get(was[1], -1)
            if g.at[0] == 'before_write' and not g.dead:
                # inside the database call: the row is SELECTed, the DELETE / UPDATE statement is not sent yet
                return ('sel', i, k, True, was[2], g.at[3])
            return ('adv', i, k, bool(last and last[0] == 'adv' and last[2]), was[2])
        if was[0] == 'before_write':
            k = self.key_of_id.get(was[1], -1)
            return ('wr', i, k, bool(last and last[0] == 'adv' and last[2]), was[2], was[3])
        if was[0] == 'before_start':
            if last and last[0] == 'start':
                r = last[1]
                return ('start', i, self.key_of_id.get(r['snap_id'], -1), r['snap_next'])
            return ('drop', i)
        return ('noop', i)

    def probe_lookup(self):
        """Which row does the real get_cron_trigger(name) return under each trigger's project? (Only asked when
        names are ambiguous: the answer depends on the order in which the database enumerates rows.)"""
        m = self.m
        out = {}
        for k, t in self.trig.items():
            m['auth_ctx'].set_ctx(m['auth_ctx'].MistralContext(user_id=None, project_id=t['project'], auth_token=None,
                                                                is_admin=False))
            try:
                out[k] = self.key_of_id.get(m['db_api'].get_cron_trigger(t['name']).id, -1)
            except Exception:
                out[k] = -1
            finally:
                m['auth_ctx'].set_ctx(None)
        return out

    def db_view(self):
        rows = Env.rows()
        out = {}
        for r in rows.values():
            k = self.key_of_id.get(r['id'])
            out[k] = (r['next'], r['rem'])
        return out


# ---------------------------------------------------------------------------
# cases

PATTERNS = ['* * * * *', '*/5 * * * *', '*/2 * * * *', '0 * * * *', '30 3 * * *', '0 0 1 * *',
            '* * * * * */10', '* * * * * *', '15,45 * * * *', '0 12 * * 1', '*/7 * * * * 30']
T0S = [100000, 86400 * 31 - 30, 3600 * 50 - 5, 86400 * 59 - 61, 7 * 86400 + 43200 - 2, 1234567]
TICKS_SMALL = [1, 1, 2, 3, 30, 58, 59, 60, 61, 120, 300]
LAGS = [3600, 86400, 3 * 86400, 40 * 86400]


def is_ambiguous(case):
    """Two triggers share a name and one of them is visible to the other's project."""
    ts = case['triggers']
    for a in range(len(ts)):
        for b in range(a + 1, len(ts)):
            x, y = ts[a], ts[b]
            if x['name'] == y['name']:
                same_proj = (not case['auth']) or x['project'] == y['project']
                if same_proj or x.get('scope') == 'public' or y.get('scope') == 'public':
                    return True
    return False


def gen_triggers(rng, auth, t0):
    n = rng.choice([1, 1, 2, 2, 2, 3, 3])
    out = []
    used = set()
    for k in range(n):
        for _ in range(20):
            name = rng.choice(['a', 'b', 'nightly'])
            proj = rng.randrange(2) if auth else 0
            if (name, proj) not in used:
                break
        else:
            continue
        used.add((name, proj))
        mode = rng.random()
        pattern = rng.choice(PATTERNS)
        first = None
        count = rng.choice([None, None, 1, 1, 2, 3, 5])
        start = None
        if mode < 0.25:
            first = t0 + rng.choice([60, 60, 61, 90, 120, 600, 3600])
            if rng.random() < 0.6:
                pattern = None
                count = rng.choice([None, None, 1, 0])
        elif mode < 0.45:
            start = t0 - rng.choice([1, 59, 3600, 86400])      # next time may already be over: due at once, with lag
        if rng.random() < 0.04 and pattern is not None:
            count = 0                                            # the service accepts it (REST does not)
        r = rng.random()
        if r < 0.03:
            pattern = rng.choice(BAD_PATTERNS)                   # refused at creation: the trigger never exists
        elif r < 0.06:
            first = t0 + rng.choice([0, 30, 59])                 # less than a minute ahead: refused
        elif r < 0.08 and first is not None and pattern is None:
            count = rng.choice([2, 3])                           # count > 1 without pattern: refused
        out.append({'name': name, 'project': proj, 'pattern': pattern, 'first': first, 'count': count, 'start': start,
                    'input': {'x': k * 7 + 1}, 'params': {} if rng.random() < 0.3 else {'tag': 'p%d' % k},
                    'scope': 'private'})
    # public scope only where it keeps names unambiguous
    for t in out:
        if auth and rng.random() < 0.25 and sum(1 for u in out if u['name'] == t['name']) == 1:
            t['scope'] = 'public'
    return out


def gen_case(rng):
    auth = rng.random() < 0.8
    t0 = rng.choice(T0S) + rng.choice([0, 0, 1, 17])
    return {'auth': auth, 't0': t0, 'triggers': gen_triggers(rng, auth, t0), 'nproc': rng.choice([1, 2, 2, 3, 3]),
            'steps': None, 'len': rng.randrange(12, 46), 'rseed': rng.getrandbits(48)}


def choose_step(rng, w, case):
    """Adaptive schedule generation: look at the real rows to steer the clock towards due times."""
    view = w.db_view()
    busy = [i for i, g in w.procs.items() if not g.dead and g.at[0] in ('before_adv', 'before_write', 'before_start')]
    nexts = [v[0] for v in view.values()]
    anything_due = any(n < Env.clock + 2 for n in nexts)
    r = rng.random()
    if not busy and not anything_due and nexts and r < 0.85:
        d = min(nexts) - Env.clock + rng.choice([-3, -2, -1, -1, 0, 0, 1, 5, 60])
        if rng.random() < 0.12:
            d += rng.choice(LAGS)
        return ['tick', max(1, d)]
    if r < 0.78:
        return ['run', rng.randrange(case['nproc'])]
    if r < 0.86:
        return ['tick', rng.choice(TICKS_SMALL if rng.random() < 0.85 else LAGS)]
    if r < 0.93:
        return ['crash', rng.choice(busy) if busy and rng.random() < 0.8 else rng.randrange(case['nproc'])]
    return ['failstart', rng.choice(busy) if busy else rng.randrange(case['nproc'])]


def execute(case, rng=None):
    """Run the case on the real code. Returns the log (and fills case['steps'] when generated adaptively)."""
    import random
    if rng is None and case.get('steps') is None:
        rng = random.Random(case.get('rseed', 0))
    w = World(case)
    log = {'created': w.created, 'trig': w.trig, 'steps': [], 'lost': [], 'ambiguous': is_ambiguous(case)}
    try:
        log['view0'] = w.db_view()
        log['lookup'] = w.probe_lookup() if log['ambiguous'] else {}
        steps = case.get('steps')
        gen = steps is None
        if gen:
            steps = []
        n = case.get('len', 0) if gen else len(steps)
        for si in range(n):
            st = choose_step(rng, w, case) if gen else steps[si]
            if gen:
                steps.append(st)
            # an occurrence is lost when its winner dies / cannot reach the engine before the start
            if st[0] in ('crash', 'failstart'):
                g = w.procs.get(st[1])
                if g is not None and not g.dead and g.at[0] == 'before_start':
                    t = w.cur.get(st[1])
                    log['lost'].append((w.key_of_id.get(t.id, -1), sec(t.next_execution_time)))
            ob = w.step(st)
            log['steps'].append({'step': list(st), 'obs': ob, 'view': w.db_view(), 'clock': Env.clock})
        # drain: every live processor finishes its pass (needed by "exactly one start unless crashed")
        drain = []
        for i in sorted(w.procs):
            for _ in range(50):
                g = w.procs.get(i)
                if g is None or g.dead or g.at[0] in ('idle', 'pass_end'):
                    break
                ob = w.step(['run', i])
                drain.append(['run', i])
                log['steps'].append({'step': ['run', i], 'obs': ob, 'view': w.db_view(), 'clock': Env.clock})
        if gen:
            case['steps'] = steps + drain
            case.pop('len', None)
            case.pop('rseed', None)
        log['starts'] = list(w.starts)
        log['aborted'] = list(getattr(w, 'aborted', []))
    finally:
        w.close()
    return log


# ---------------------------------------------------------------------------
# the property oracle (no model involved)

def croniter_next(pattern, t):
    import croniter
    return sec(croniter.croniter(pattern, dt(t)).get_next(datetime.datetime))


def oracle(ctx, case, log):
    """The property text, stated on the observed rows / starts of the real run. Returns list of (sig, what)."""
    fails = []

    def bad(sig, what):
        fails.append((sig, what))
    trig = log['trig']
    starts = log['starts']
    id2k = {v['id']: k for k, v in trig.items()}
    # --- a pass never lets an exception escape: a failing trigger (RPC down, a database error of one row) is logged and the
    # pass goes on with the next trigger; otherwise every trigger ordered after it is starved pass after pass
    for a in log.get('aborted') or []:
        bad('pass-aborted:%s' % a.split(':')[0], 'process_cron_triggers_v2 let an exception escape (%s): the triggers after the failing one '
            'were not evaluated in that pass' % a)
        break
    # --- context / payload of every start
    for s in starts:
        k = id2k.get(s['snap_id'])
        if k is None:
            bad('start-unknown-trigger', 'start for unknown trigger %r' % (s,))
            continue
        t = trig[k]
        try:
            desc = json.loads(s['description'])
        except Exception:
            desc = {}
        tb = desc.get('triggered_by', {}) if isinstance(desc, dict) else {}
        if s['wf'] != t['wf'] or s['ns'] not in ('', None):
            bad('context:workflow', 'trigger %d starts workflow %r, its workflow is %r' % (k, s['wf'], t['wf']))
        if s['input'] != t['input']:
            bad('context:input', 'trigger %d starts with input %r, its input is %r' % (k, s['input'], t['input']))
        if s['params'] != t['params']:
            bad('context:params', 'trigger %d starts with params %r, its params are %r' % (k, s['params'], t['params']))
        if tb.get('id') != t['id'] or tb.get('type') != 'cron_trigger':
            bad('context:triggered_by', 'trigger %d start description %r does not name the trigger' % (k, s['description']))
        c = s['ctx']
        if c is None:
            bad('context:none', 'trigger %d started without a security context' % k)
        elif case['auth']:
            if c['project'] != t['project']:
                bad('context:project', 'trigger %d of project %r started under project %r' % (k, t['project'], c['project']))
            if c['trust'] != t['trust'] or not c['trust_scoped'] or c['is_admin']:
                bad('context:trust', 'trigger %d (trust %r) started under context %r' % (k, t['trust'], c))
        if not (s['snap_next'] < s['now'] + 2):
            bad('early-start', 'trigger %d occurrence %s started at clock %s' % (k, s['snap_next'], s['now']))
    # --- row histories
    for k, t in trig.items():
        hist = [log['view0'].get(k)]
        consumed = []          # (occurrence, step index)
        unmoved = {}           # occurrence -> kind of a write INSIDE a call that changed no row and still reported a win
        clock_before = case['t0']
        call_clock = {}        # processor -> clock when it entered the database call it is suspended in
        for si, e in enumerate(log['steps']):
            prev, cur = hist[-1], e['view'].get(k)
            ob = e['obs']
            if ob[0] == 'sel':
                call_clock[ob[1]] = clock_before
            if ob[0] == 'wr' and ob[2] == k and ob[3] and cur == prev:
                unmoved.setdefault(ob[4], ob[5])
            if cur != prev:
                if prev is None:
                    bad('row-reappears', 'trigger %d row reappears at step %d' % (k, si))
                else:
                    if not (ob[0] in ('adv', 'wr') and ob[2] == k and ob[3]):
                        bad('other-row-modified', 'row of trigger %d changed %r -> %r by step %d %r which does not advance it'
                            % (k, prev, cur, si, ob))
                    consumed.append((prev[0], si))
                    if cur is not None:
                        if not cur[0] > prev[0]:
                            bad('next-not-forward', 'trigger %d next %s -> %s' % (k, prev[0], cur[0]))
                        else:
                            # the writer computes the new time from its clock before the database call
                            seen = call_clock.get(ob[1], clock_before) if ob[0] == 'wr' else clock_before
                            try:
                                want = croniter_next(t['pattern'], max(seen, prev[0]))
                            except Exception:
                                want = None
                            if want is not None and cur[0] != want:
                                bad('next-not-pattern', 'trigger %d (%s) next %s -> %s at clock %s, pattern gives %s'
                                    % (k, t['pattern'], prev[0], cur[0], seen, want))
                        if prev[1] is None:
                            if cur[1] is not None:
                                bad('count-changed', 'trigger %d without count gets remaining %r' % (k, cur[1]))
                        elif prev[1] > 0 and cur[1] != prev[1] - 1:
                            bad('count-changed', 'trigger %d remaining %r -> %r' % (k, prev[1], cur[1]))
                    else:
                        if prev[1] is None or prev[1] > 1:
                            bad('removed-early', 'trigger %d removed with remaining %r' % (k, prev[1]))
            hist.append(cur)
            clock_before = e['clock']
        occs = [o for o, _ in consumed]
        my = [s for s in starts if id2k.get(s['snap_id']) == k]
        lost = [o for kk, o in log['lost'] if kk == k]
        for o in sorted(set(s['snap_next'] for s in my)):
            n = sum(1 for s in my if s['snap_next'] == o)
            if n > 1 and o in unmoved:
                # the property text (one execution per due occurrence) fails, and the second start comes from a
                # processor that was between the SELECT and the DELETE / UPDATE of its call when another one won
                bad('occurrence-twice:inside-' + unmoved[o],
                    'trigger %d occurrence %s started %d times by processors %r: a processor that had selected the row '
                    'inside %s_cron_trigger before another processor %sd it reported a modified row although its own %s '
                    'changed nothing' % (k, o, n, [s['proc'] for s in my if s['snap_next'] == o], unmoved[o],
                                         unmoved[o], unmoved[o].upper()))
            elif n > 1:
                bad('double-start', 'trigger %d occurrence %s started %d times' % (k, o, n))
            if o not in occs:
                bad('start-without-occurrence', 'trigger %d started for %s but its row never left that time' % (k, o))
        for o in occs:
            n = sum(1 for s in my if s['snap_next'] == o)
            if n == 0 and o not in lost:
                bad('missing-start', 'trigger %d left occurrence %s without a start and without a crash' % (k, o))
        if len(set(occs)) != len(occs):
            bad('occurrence-twice', 'trigger %d consumed an occurrence twice: %r' % (k, occs))
        c = t['count']
        first_only = t['first'] is not None and not case['triggers'][k]['pattern'] and c in (None, 0, 1)
        if first_only:
            c = 1
        if c is not None and c >= 1:
            if len(my) > c or len(occs) > c:
                bad('count-exceeded', 'trigger %d with count %d: %d starts, %d occurrences' % (k, c, len(my), len(occs)))
            if hist[-1] is None and len(occs) != c:
                bad('removed-early', 'trigger %d with count %d removed after %d occurrences' % (k, c, len(occs)))
            if hist[-1] is not None and len(occs) >= c:
                bad('not-removed', 'trigger %d with count %d still present after %d occurrences' % (k, c, len(occs)))
        if c is None and hist[-1] is None:
            bad('removed-early', 'trigger %d without count was removed' % k)
        if first_only and any(s['snap_next'] != log['view0'][k][0] for s in my):
            bad('first-only-refire', 'first-time-only trigger %d fired at %r' % (k, [s['snap_next'] for s in my]))
    if log['ambiguous'] and fails:
        # one specific signature for the whole class: same name visible across projects (public scope)
        return [('same-name-public-trigger', fails[0][1] + ' [%d oracle clauses fail in this case]' % len(fails))]
    return fails


# ---------------------------------------------------------------------------
# model side

def name_ids(case):
    ids = {}
    for t in case['triggers']:
        ids.setdefault(t['name'], len(ids))
    return ids


def nxt_table(case, log):
    """croniter's values (through the real triggers.get_next_execution_time) at the times the protocol can ask
    for: max(clock, read next_execution_time) of every advance step."""
    Env.boot()
    gnet = Env.mods['triggers'].get_next_execution_time
    tbl, bad, seen = [], [], set()
    for e in log['steps']:
        ob = e['obs']
        if ob[0] not in ('adv', 'sel') or ob[2] not in log['trig']:
            continue
        k, a = ob[2], max(e['clock'], ob[4])
        if (k, a) in seen:
            continue
        seen.add((k, a))
        try:
            v = sec(gnet(log['trig'][k]['pattern'], dt(a)))
        except Exception:
            continue            # e.g. the 'never' default pattern: the real code fails the same way (caught, logged)
        if not v > a:
            bad.append((k, a, v))
        tbl.append((k, a, v))
    return tbl, bad


def coq_create(case, t, nxv):
    """Coq expression of Model.create for trigger t of the case."""
    pat = 'None' if not t['pattern'] else ('(Some %s)' % core.coq_bool(t['pattern'] not in BAD_PATTERNS))
    first = core.coq_option(None if t['first'] is None else core.coq_N(t['first']))
    count = core.coq_option(None if t['count'] is None else core.coq_Z(t['count']))
    start = core.coq_option(None if t['start'] is None else core.coq_N(t['start']))
    return '(create %s (fun _ => %s) %s %s %s %s)' % (core.coq_N(case['t0']), core.coq_N(nxv), pat, first, count, start)


def model_expr(case, log, tbl):
    ids = name_ids(case)
    rows = []
    for k, t in enumerate(case['triggers']):
        # the value nxt gives for the start time (only used when there is no first time)
        nxv = 0
        if t['first'] is None and t['pattern'] and t['pattern'] not in BAD_PATTERNS:
            nxv = croniter_next(t['pattern'], t['start'] if t['start'] is not None else case['t0'])
        proj = t['project'] if case['auth'] else 0
        rows.append('(%s, (%s, %s, %s, %s), %s)' % (core.coq_nat(k), core.coq_nat(ids[t['name']]), core.coq_nat(proj),
                                                    core.coq_bool(t.get('scope') == 'public'), core.coq_nat(k + 1),
                                                    coq_create(case, t, nxv)))
    keys = list(range(len(case['triggers'])))
    if log['ambiguous']:
        # the order in which the database enumerates the candidate rows is not specified by SQL: it is observed on
        # the real get_cron_trigger (rows that win a lookup come first) and handed to the model as `keys`
        wins = {k: sum(1 for v in log['lookup'].values() if v == k) for k in keys}
        keys.sort(key=lambda k: (-wins[k], k))
    ops = []
    for e in log['steps']:
        ob = e['obs']
        if ob[0] == 'tick':
            ops.append('Tick %s' % core.coq_N(ob[1]))
        elif ob[0] == 'read':
            ops.append('Read %s' % core.coq_nat(ob[1]))
        elif ob[0] == 'adv':
            ops.append('Adv %s %s' % (core.coq_nat(ob[1]), core.coq_nat(max(ob[2], 0))))
        elif ob[0] == 'sel':
            ops.append('Sel %s %s' % (core.coq_nat(ob[1]), core.coq_nat(max(ob[2], 0))))
        elif ob[0] == 'wr':
            ops.append('Wr %s' % core.coq_nat(ob[1]))
        elif ob[0] == 'start':
            ops.append('Start %s' % core.coq_nat(ob[1]))
        elif ob[0] == 'drop':
            ops.append('Drop %s' % core.coq_nat(ob[1]))
        elif ob[0] == 'crash':
            ops.append('Crash %s' % core.coq_nat(ob[1]))
        else:
            ops.append('Tick 0%N')
    tb = core.coq_list(['(%s, (%s, %s))' % (core.coq_nat(k), core.coq_N(a), core.coq_N(v)) for k, a, v in tbl])
    return 'run_trace lookup_by_name delete_reports_rowcount update_reports_match %s %s %s (mk_rows %s) %s' % (core.coq_list([core.coq_nat(k) for k in keys]), tb, core.coq_N(case['t0']),
                                                  core.coq_list(rows), core.coq_list(ops)), keys


def parse_coq(val):
    import ast
    s = core.re.sub(r'%(Z|N|nat)', '', val).replace(';', ',')
    return ast.literal_eval(s)


def impl_trace(case, log, keys):
    """The real run in the model's observation format."""
    out = []
    trig = log['trig']
    id2k = {v['id']: k for k, v in trig.items()}
    si = 0
    for e in log['steps']:
        ob = e['obs']
        if ob[0] == 'read':
            o = [1] + sorted(ob[2])
        elif ob[0] in ('adv', 'wr'):
            o = [2, 1 if ob[3] else 0]
        elif ob[0] == 'sel':
            o = [4, 1]
        elif ob[0] == 'start':
            s = log['starts'][si]
            si += 1
            k = id2k.get(s['snap_id'], -1)
            t = trig.get(k)
            payload_ok = t is not None and s['wf'] == t['wf'] and s['input'] == t['input'] and s['params'] == t['params'] \
                and (not case['auth'] or (s['ctx'] or {}).get('trust') == t['trust'])
            if case['auth']:
                p = (s['ctx'] or {}).get('project')
                proj = PROJECTS.index(p) if p in PROJECTS else -1
            else:
                proj = 0 if (s['ctx'] or {}).get('is_admin') else -1
            o = [3, k, s['snap_next'], (k + 1) if payload_ok else 0, proj]
        else:
            o = [0]
        v = []
        for k in keys:
            r = e['view'].get(k)
            v += [0, 0, 0, 0] if r is None else [1, r[0], 0 if r[1] is None else 1, 0 if r[1] is None else r[1]]
        out.append((o, v))
    return out


def canon_model(tr, keys):
    out = []
    for o, v in tr:
        o = list(o)
        if o and o[0] == 1:
            o = [1] + sorted(o[1:])
        out.append((o, list(v)))
    return out


# ---------------------------------------------------------------------------
# suites

BAD_PATTERNS = ['bad pattern', '61 * * * *', '* * *']

CORPUS = [
    # CAS race of three processors on one occurrence, then the last execution (delete) race
    {'auth': True, 't0': 100000, 'nproc': 3, 'triggers': [
        {'name': 'a', 'project': 0, 'pattern': '* * * * *', 'first': None, 'count': 2, 'start': None,
         'input': {'x': 1}, 'params': {'tag': 'p0'}, 'scope': 'private'}],
     'steps': [['tick', 19], ['run', 0], ['run', 1], ['run', 2], ['run', 1], ['run', 0], ['run', 2], ['run', 1], ['run', 0],
               ['run', 2], ['tick', 60], ['run', 0], ['run', 1], ['run', 2], ['run', 2], ['run', 1], ['run', 0], ['run', 2],
               ['run', 0], ['run', 1], ['tick', 60], ['run', 0], ['run', 1]]},
    # the winner dies between advancing the trigger and starting the workflow; RPC failure on the next one
    {'auth': True, 't0': 100000, 'nproc': 2, 'triggers': [
        {'name': 'a', 'project': 1, 'pattern': '*/5 * * * *', 'first': None, 'count': None, 'start': None,
         'input': {'x': 1}, 'params': {}, 'scope': 'public'}],
     'steps': [['tick', 200], ['run', 0], ['run', 0], ['crash', 0], ['run', 1], ['run', 0], ['tick', 300], ['run', 1], ['run', 1],
               ['failstart', 1], ['run', 1], ['run', 0], ['run', 0]]},
    # long lag: one firing, next time jumps past the clock; due boundary (next < now + 2)
    {'auth': False, 't0': 100000, 'nproc': 1, 'triggers': [
        {'name': 'a', 'project': 0, 'pattern': '0 * * * *', 'first': None, 'count': 5, 'start': None,
         'input': {'x': 1}, 'params': {'tag': 'p0'}, 'scope': 'private'}],
     'steps': [['tick', 798], ['run', 0], ['tick', 1], ['run', 0], ['run', 0], ['run', 0], ['run', 0], ['tick', 3 * 86400], ['run', 0],
               ['run', 0], ['run', 0], ['run', 0], ['run', 0]]},
    # first-execution-time-only trigger; same name in two projects, both private
    {'auth': True, 't0': 100000, 'nproc': 2, 'triggers': [
        {'name': 'a', 'project': 0, 'pattern': None, 'first': 100060, 'count': None, 'start': None,
         'input': {'x': 1}, 'params': {'tag': 'p0'}, 'scope': 'private'},
        {'name': 'a', 'project': 1, 'pattern': '* * * * *', 'first': 100060, 'count': 1, 'start': None,
         'input': {'x': 8}, 'params': {'tag': 'p1'}, 'scope': 'private'}],
     'steps': [['tick', 59], ['run', 0], ['run', 1], ['run', 0], ['run', 1], ['run', 1], ['run', 0], ['run', 0], ['run', 1],
               ['run', 0], ['run', 1], ['tick', 600], ['run', 0], ['run', 1]]},
    # FINDING witness: a private trigger and another project's PUBLIC trigger share the name (see C17_*_refuted)
    {'auth': True, 't0': 100000, 'nproc': 1, 'triggers': [
        {'name': 'a', 'project': 1, 'pattern': '* * * * *', 'first': None, 'count': None, 'start': None,
         'input': {'x': 1}, 'params': {'tag': 'p0'}, 'scope': 'private'},
        {'name': 'a', 'project': 0, 'pattern': '* * * * *', 'first': None, 'count': 1, 'start': None,
         'input': {'x': 8}, 'params': {'tag': 'p1'}, 'scope': 'public'}],
     'steps': [['tick', 19], ['run', 0], ['run', 0], ['run', 0], ['run', 0], ['run', 0], ['tick', 60], ['run', 0], ['run', 0],
               ['run', 0], ['run', 0], ['tick', 60], ['run', 0], ['run', 0], ['run', 0], ['run', 0]]},
    # FINDING witness 2: the public trigger has count 1 and fires twice (its count is overwritten through the other row)
    {'auth': True, 't0': 100000, 'nproc': 1, 'triggers': [
        {'name': 'a', 'project': 1, 'pattern': '* * * * *', 'first': None, 'count': None, 'start': None,
         'input': {'x': 1}, 'params': {'tag': 'p0'}, 'scope': 'private'},
        {'name': 'a', 'project': 0, 'pattern': '* * * * *', 'first': None, 'count': 1, 'start': None,
         'input': {'x': 8}, 'params': {'tag': 'p1'}, 'scope': 'public'}],
     'steps': [['tick', 19], ['run', 0], ['run', 0], ['run', 0], ['crash', 0], ['tick', 60], ['run', 0], ['run', 0], ['run', 0],
               ['run', 0], ['run', 0], ['tick', 60], ['run', 0], ['run', 0], ['run', 0], ['run', 0]]},
]


# ---------------------------------------------------------------------------
# processors interleaved INSIDE db_api.delete_cron_trigger / update_cron_trigger (case['fine']): a `run` step also
# stops right before the DELETE / UPDATE statement of the call, so the other processors act between a call's SELECT
# and its write.

INSIDE_CORPUS = [
    # last occurrence of a count-1 trigger: both processors select the row, 1 deletes and starts, then 0's DELETE
    # matches nothing (the interleaving of the change seeded in round 2: delete_cron_trigger returning a constant)
    {'auth': True, 't0': 100000, 'nproc': 2, 'fine': True, 'triggers': [
        {'name': 'a', 'project': 0, 'pattern': '* * * * *', 'first': None, 'count': 1, 'start': None,
         'input': {'x': 1}, 'params': {'tag': 'p0'}, 'scope': 'private'}],
     'steps': [['tick', 19], ['run', 0], ['run', 1], ['run', 0], ['run', 1], ['run', 1], ['run', 1], ['run', 0], ['run', 0]]},
    # first-execution-time-only trigger, three processors inside delete_cron_trigger at once
    {'auth': False, 't0': 100000, 'nproc': 3, 'fine': True, 'triggers': [
        {'name': 'a', 'project': 0, 'pattern': None, 'first': 100060, 'count': None, 'start': None,
         'input': {'x': 1}, 'params': {}, 'scope': 'private'}],
     'steps': [['tick', 59], ['run', 0], ['run', 1], ['run', 2], ['run', 2], ['run', 0], ['run', 1], ['run', 0], ['run', 1],
               ['run', 2], ['run', 0], ['run', 1], ['run', 2]]},
    # count 2: both inside update_cron_trigger on the first occurrence (the loser's UPDATE matches no row), then both
    # inside delete_cron_trigger on the last one; the clock moves while a processor is inside its call
    {'auth': True, 't0': 100000, 'nproc': 2, 'fine': True, 'triggers': [
        {'name': 'a', 'project': 1, 'pattern': '* * * * *', 'first': None, 'count': 2, 'start': None,
         'input': {'x': 1}, 'params': {'tag': 'p0'}, 'scope': 'public'}],
     'steps': [['tick', 19], ['run', 0], ['run', 1], ['run', 0], ['run', 1], ['tick', 70], ['run', 0], ['run', 1], ['run', 0],
               ['run', 1], ['run', 0], ['run', 1], ['run', 1], ['run', 0], ['run', 0], ['run', 1], ['run', 0], ['run', 1]]},
    # the processor inside the call dies before its DELETE; the other one takes the occurrence
    {'auth': True, 't0': 100000, 'nproc': 2, 'fine': True, 'triggers': [
        {'name': 'a', 'project': 0, 'pattern': '*/5 * * * *', 'first': None, 'count': 1, 'start': None,
         'input': {'x': 1}, 'params': {}, 'scope': 'private'}],
     'steps': [['tick', 199], ['run', 0], ['run', 1], ['run', 0], ['crash', 0], ['run', 1], ['run', 1], ['run', 1], ['run', 0]]},
]

INSIDE_KINDS = [
    # (name, pattern, first (offset from t0), count, occurrences driven)
    ('count-1', '* * * * *', None, 1, 1),
    ('first-time-only', None, 60, None, 1),
    ('first-time-count-1', None, 120, 1, 1),
    ('count-2', '* * * * *', None, 2, 2),
    ('no-count', '*/2 * * * *', None, None, 2),
    ('count-3', '* * * * *', None, 3, 3),
]


def orders(nproc):
    """All orders in which nproc processors do their SELECT and then their write: every sequence over the
    processors in which each one occurs twice (6 for two processors, 90 for three)."""
    out = []

    def rec(prefix, left):
        if not any(left):
            out.append(list(prefix))
            return
        for i in range(nproc):
            if left[i]:
                left[i] -= 1
                prefix.append(i)
                rec(prefix, left)
                prefix.pop()
                left[i] += 1
    rec([], [2] * nproc)
    return out


def inside_case(kind, nproc, auth, t0, round_orders, rng):
    name, pattern, first, count, occs = kind
    period = 120 if pattern == '*/2 * * * *' else 60
    trig = {'name': 'a', 'project': rng.randrange(2) if auth else 0, 'pattern': pattern,
            'first': None if first is None else t0 + first, 'count': count, 'start': None,
            'input': {'x': 1}, 'params': {'tag': 'p0'}, 'scope': rng.choice(['private', 'private', 'public'])}
    steps = []
    for r in range(occs):
        # to the due time (a whole minute / two minutes later is due for every pattern used here)
        steps.append(['tick', (first + rng.choice([0, 1, 30])) if (r == 0 and first is not None)
                      else period * rng.choice([1, 1, 1, 2]) + rng.choice([0, 0, 1])])
        readers = list(range(nproc))
        rng.shuffle(readers)
        steps += [['run', i] for i in readers]                 # every processor reads the due trigger
        steps += [['run', i] for i in round_orders[r]]         # SELECTs and writes in the given order
        late = list(range(nproc))
        rng.shuffle(late)
        steps += [['run', i] for i in late] * 2                # the starts, then the passes end
    return {'auth': auth, 't0': t0, 'nproc': nproc, 'fine': True, 'triggers': [trig], 'steps': steps, 'kind': name}


def inside_cases(ctx):
    rng = ctx.rng
    out = []
    allo = {n: orders(n) for n in (2, 3)}
    for kind in INSIDE_KINDS:
        occs = kind[4]
        for nproc in (2, 3):
            for auth in (True, False):
                t0 = rng.choice(T0S[:3]) // 120 * 120
                if occs == 1:
                    # exhaustive: every order of who selects / writes first
                    for o in allo[nproc]:
                        out.append(inside_case(kind, nproc, auth, t0, [o], rng))
                else:
                    # every order on the LAST occurrence (and on the first one), the other rounds drawn
                    n = ctx.n(1, 4) * (len(allo[nproc]) if nproc == 2 else 30)
                    pick = allo[nproc] if nproc == 2 else rng.sample(allo[nproc], 30)
                    for j in range(n):
                        ro = [rng.choice(allo[nproc]) for _ in range(occs)]
                        ro[-1 if j % 2 == 0 else 0] = pick[j % len(pick)]
                        out.append(inside_case(kind, nproc, auth, t0, ro, rng))
    # free-form: the generator of the `run` suite with the extra suspension point (ticks, crashes and RPC failures
    # while a processor is inside its call, several triggers)
    for _ in range(ctx.n(250, 3000)):
        c = gen_case(rng)
        c['fine'] = True
        c['nproc'] = rng.choice([2, 2, 3])
        out.append(c)
    return out


def rest_count_type():
    from wsme import types as wtypes
    from mistral.api.controllers.v2 import resources
    return [a for a in wtypes.list_attributes(resources.CronTrigger) if a.name == 'remaining_executions'][0].datatype


def first_args(first):
    """(argument given to create_cron_trigger, seconds or None) of a first-time descriptor."""
    if isinstance(first, (tuple, list)):
        return (dt(first[1]).strftime('%Y-%m-%d %H:%M'), first[1]) if first[0] == 'str' else (first[1], None)
    return (None if first is None else dt(first)), first


def create_eval(desc):
    """The real validate_cron_trigger_input and create_cron_trigger on one row of the decision table."""
    Env.boot()
    m = Env.mods
    from mistral import exceptions as exc
    Env.set_auth(False)
    proj = m['security'].DEFAULT_PROJECT_ID
    wf_name = Env.wf_ids[proj][0]
    Env.wipe()
    Env.clock = desc['t0']
    first = desc['first']
    raw = isinstance(first, (tuple, list)) and first[0] == 'raw'
    farg, fsec = first_args(first)
    m['auth_ctx'].set_ctx(Env.user_ctx(proj))
    v_impl = None
    try:
        if not raw:
            try:
                m['triggers'].validate_cron_trigger_input(desc['pattern'], None if fsec is None else dt(fsec), desc['count'])
                v_impl = 'ok'
            except exc.InvalidModelException:
                v_impl = 'rejected'
            except Exception as e:
                v_impl = 'crash:' + type(e).__name__
        try:
            trig = m['triggers'].create_cron_trigger('n', wf_name, {'x': 1}, {}, desc['pattern'], farg, desc['count'],
                                                     None if desc['start'] is None else dt(desc['start']))
            r = Env.rows()[trig.id]
            impl = [1, r['next'], 0 if r['rem'] is None else 1, 0 if r['rem'] is None else r['rem']]
        except exc.InvalidModelException:
            impl = [0]
        except Exception as e:
            impl = ['crash:' + type(e).__name__]
    finally:
        m['auth_ctx'].set_ctx(None)
        Env.wipe()
    return v_impl, impl


def _work_create(descs):
    return [create_eval(d) for d in descs]


def create_table():
    pats = [None, '', '* * * * *', '*/5 * * * *'] + BAD_PATTERNS
    counts = [None, -1, 0, 1, 2, 7]
    out = []
    for t0 in (100000, 86400 * 31 - 30):
        firsts = [None, t0 - 10, t0, t0 + 59, t0 + 60, t0 + 61, t0 + 3600, ('str', (t0 // 60 + 3) * 60), ('str', (t0 // 60) * 60),
                  ('raw', 'garbage')]
        for pat in pats:
            for first in firsts:
                for count in counts:
                    for start in (None, t0 - 3600):
                        out.append({'t0': t0, 'pattern': pat, 'first': first, 'count': count, 'start': start})
    return out


def suite_create(ctx):
    """Exhaustive decision table of creation-time validation (finite: every combination is run)."""
    cases, exprs = [], []
    dist = {'ok': 0, 'rejected': 0}
    table = create_table()
    results = None
    if _POOL[0] is not None:
        try:
            ex, warm = _POOL[0]
            for f in warm:
                f.result(timeout=300)
            chunks = [table[i:i + 40] for i in range(0, len(table), 40)]
            results = [r for part in ex.map(_work_create, chunks) for r in part]
        except Exception:
            results = None
    if results is None:
        results = _work_create(table)
    Env.boot()
    ctype = rest_count_type()
    for c in [None, -1, 0, 1, 2, 7, 3, 100, -5]:
        try:
            ctype.validate(c) if c is not None else None
            impl = True
        except ValueError:
            impl = False
        cases.append(('rest', c, impl))
        exprs.append('rest_count_ok %s' % core.coq_option(None if c is None else core.coq_Z(c)))
    for desc, (v_impl, impl) in zip(table, results):
        first, pat, t0, start, count = desc['first'], desc['pattern'], desc['t0'], desc['start'], desc['count']
        if isinstance(first, tuple) and first[0] == 'raw':
            # an unparsable first time must be refused (no model input corresponds to it)
            ctx.count('create', repr(desc))
            if impl != [0]:
                ctx.fail('create-accepts-garbage-first-time', 'create_cron_trigger accepts %r' % (desc,), {'create': desc})
            continue
        fsec = first_args(first)[1]
        if v_impl is not None and (v_impl == 'ok') != (impl != [0]) or (v_impl or '').startswith('crash'):
            ctx.disagree('create', desc, 'validate_cron_trigger_input=%s' % v_impl, impl)
        nxv = 0
        if fsec is None and pat and pat not in BAD_PATTERNS:
            nxv = croniter_next(pat, start if start is not None else t0)
        t = {'pattern': pat, 'first': fsec, 'count': count, 'start': start}
        exprs.append('match %s with Some (n, r) => (1%%Z :: Z.of_N n :: zrem r) | None => [0%%Z] end'
                     % coq_create({'t0': t0}, t, nxv))
        cases.append(('create', desc, impl))
        dist['ok' if impl != [0] else 'rejected'] += 1
    res = core.coq_eval('c17create', IMPORTS, exprs, chunk=200)
    for c, r in zip(cases, res):
        ctx.cov['disagreements_checked'] += 1
        if c[0] == 'rest':
            ctx.count('create', ('rest', c[1]))
            if r != core.coq_bool(c[2]):
                ctx.disagree('create', {'rest_count': c[1]}, r, c[2])
            # the property's domain: a count given through the REST API is at least 1
            if c[1] is not None and c[1] < 1 and c[2]:
                ctx.fail('rest-accepts-count-below-1', 'remaining_executions=%r passes the REST type' % c[1], {'rest_count': c[1]})
            continue
        ctx.count('create', repr(c[1]), nontrivial=(c[2] != [0]))
        model = parse_coq(r)
        if list(model) != c[2]:
            ctx.disagree('create', c[1], list(model), c[2])
        # oracle (property text): a first-execution-time-only trigger is stored to fire exactly once
        d = c[1]
        if c[2] != [0] and c[2][0] == 1 and not d['pattern'] and d['first'] is not None and (d['count'] is None or d['count'] >= 1):
            if c[2][2:] != [1, 1]:
                ctx.fail('first-only-count', 'first-time-only trigger stored with remaining %r' % (c[2][2:],), {'create': d})
    ctx.cov['suites']['create']['outcomes'] = dist


WORKERS = max(1, min(12, core.NPROC))
_POOL = [None]


def _warm(_):
    import logging
    import time
    logging.disable(logging.CRITICAL)
    Env.boot()
    time.sleep(0.5)      # keep this worker busy so that every worker process gets started
    return True


def _init_worker():
    """Workers die with the parent (also when the parent is killed by a timeout)."""
    try:
        import ctypes
        import signal
        ctypes.CDLL('libc.so.6').prctl(1, signal.SIGKILL)      # PR_SET_PDEATHSIG
    except Exception:
        pass


def _work(case):
    return case, execute(case)


def start_pool():
    """Fork the worker processes (each boots its own in-memory database). Called before this process loads mistral."""
    if _POOL[0] is None and WORKERS > 1:
        try:
            import multiprocessing as mp
            from concurrent.futures import ProcessPoolExecutor
            ex = ProcessPoolExecutor(max_workers=WORKERS, mp_context=mp.get_context('fork'), initializer=_init_worker)
            warm = [ex.submit(_warm, i) for i in range(WORKERS)]
            _POOL[0] = (ex, warm)
        except Exception:
            _POOL[0] = None


def execute_many(cases):
    """[(case, log)] in order. Cases are independent (own rng seed each), so the result does not depend on how
    they are spread over processes; any trouble with the pool falls back to this process."""
    if len(cases) >= 48 and _POOL[0] is not None:
        try:
            ex, warm = _POOL[0]
            for f in warm:
                f.result(timeout=300)
            return list(ex.map(_work, cases, chunksize=max(1, min(16, len(cases) // (WORKERS * 4)))))
        except Exception:
            try:
                _POOL[0][0].shutdown(wait=False, cancel_futures=True)
            except Exception:
                pass
            _POOL[0] = None
    return [(c, execute(c)) for c in cases]


def run_cases(ctx, cases, tag, with_model=True):
    exprs, metas = [], []
    dist = {'cases': 0, 'steps': 0, 'starts': 0, 'adv_won': 0, 'adv_lost': 0, 'crash_or_rpc_loss': 0, 'lag_ticks': 0,
            'nproc': {}, 'deleted_rows': 0, 'ambiguous': 0}
    for case, log in execute_many(cases):
        dist['cases'] += 1
        dist['steps'] += len(log['steps'])
        dist['starts'] += len(log['starts'])
        dist['adv_won'] += sum(1 for e in log['steps'] if e['obs'][0] == 'adv' and e['obs'][3])
        dist['adv_lost'] += sum(1 for e in log['steps'] if e['obs'][0] == 'adv' and not e['obs'][3])
        if case.get('fine'):
            for e in log['steps']:
                ob = e['obs']
                if ob[0] == 'wr':
                    key = 'write_%s_%s' % (ob[5], 'won' if ob[3] else 'lost')
                    dist[key] = dist.get(key, 0) + 1
            # two or more processors inside a call on the same row at the same time
            inside = {}
            for e in log['steps']:
                ob = e['obs']
                if ob[0] == 'sel':
                    inside[ob[1]] = ob[2]
                    if sum(1 for v in inside.values() if v == ob[2]) > 1:
                        dist['overlapping_calls'] = dist.get('overlapping_calls', 0) + 1
                elif ob[0] in ('wr', 'crash'):
                    if ob[0] == 'crash' and ob[1] in inside:
                        dist['crash_inside_call'] = dist.get('crash_inside_call', 0) + 1
                    inside.pop(ob[1], None)
            if case.get('kind'):
                dist.setdefault('kinds', {})
                dist['kinds'][case['kind']] = dist['kinds'].get(case['kind'], 0) + 1
        dist['crash_or_rpc_loss'] += len(log['lost'])
        dist['lag_ticks'] += sum(1 for e in log['steps'] if e['obs'][0] == 'tick' and e['obs'][1] >= 3600)
        dist['nproc'][str(case.get('nproc'))] = dist['nproc'].get(str(case.get('nproc')), 0) + 1
        dist['deleted_rows'] += sum(1 for k in log['trig'] if log['steps'] and log['steps'][-1]['view'].get(k) is None)
        dist['ambiguous'] += 1 if log['ambiguous'] else 0
        for sig, what in oracle(ctx, case, log):
            ctx.fail(sig, what, {'case': case})
        ctx.count(tag, json.dumps(case, sort_keys=True), nontrivial=bool(log['starts']), evaluations=len(log['steps']))
        if with_model:
            tbl, bad = nxt_table(case, log)
            if bad:
                ctx.disagree(tag, {'case': case}, 'assumed: t < nxt t', 'croniter gives %r' % (bad[:3],))
            e, keys = model_expr(case, log, tbl)
            exprs.append(e)
            metas.append((case, log, keys))
    if with_model and exprs:
        import time
        t_coq = time.time()
        res = core.coq_eval('c17' + tag, IMPORTS, exprs, chunk=max(10, min(100, len(exprs) // core.NPROC + 1)))
        ctx.cov.setdefault('timing_s', {})['coq_' + tag] = round(time.time() - t_coq, 1)
        for (case, log, keys), r in zip(metas, res):
            ctx.cov['disagreements_checked'] += 1
            ctx.cov['traces_validated_against_impl'] += 1
            model = canon_model(parse_coq(r), keys)
            impl = impl_trace(case, log, keys)
            # creation outcome first (the model's rows come from its own `create`)
            if len(model) != len(impl):
                ctx.disagree(tag, {'case': case}, 'trace length %d' % len(model), 'trace length %d' % len(impl))
                continue
            for si, (a, b) in enumerate(zip(model, impl)):
                if (list(a[0]), list(a[1])) != (list(b[0]), list(b[1])):
                    ctx.disagree(tag, {'case': case, 'step_index': si, 'step': log['steps'][si]['step'], 'keys': keys},
                                 {'obs': a[0], 'rows': a[1]}, {'obs': b[0], 'rows': b[1]})
                    break
    s = ctx.cov['suites'].setdefault(tag, {'evaluations': 0, 'distinct_nontrivial': 0})
    s['distribution'] = dist
    if metas:
        ctx.sample({'suite': tag, 'case': metas[-1][0]})


def copy_case(c):
    return json.loads(json.dumps(c))


def run(ctx):
    ctx.cov['rule'] = ('create: exhaustive table pattern(7) x first time(10) x count(6) x start(2) x clock(2); run: seeded cases of '
                       '1-3 triggers (pattern/first/count/start/scope/project/name collisions) x 1-3 processors x adaptive '
                       'schedules of DB steps (ticks to the due boundary, long lags, crashes, RPC failures); inside: processors '
                       'also suspended between SELECT and DELETE/UPDATE inside the db api calls - 6 trigger kinds x 2-3 processors '
                       'x auth on/off x every order of selects / writes on a last occurrence (6 / 90), drawn orders on earlier '
                       'ones, + free-form schedules; distinct = distinct case; non-trivial = at least one workflow start '
                       '(create: accepted)')
    import time
    tm = ctx.cov.setdefault('timing_s', {})
    t = time.time()
    start_pool()
    try:
        suite_create(ctx)
        tm['create'] = round(time.time() - t, 1)
        t = time.time()
        run_cases(ctx, [copy_case(c) for c in CORPUS], 'run_corpus')
        run_cases(ctx, [gen_case(ctx.rng) for _ in range(ctx.n(1200, 12000))], 'run')
        tm['run'] = round(time.time() - t, 1)
        t = time.time()
        run_cases(ctx, [copy_case(c) for c in INSIDE_CORPUS], 'inside_corpus')
        run_cases(ctx, inside_cases(ctx), 'inside')
        tm['inside'] = round(time.time() - t, 1)
    finally:
        stop_pool()
    ctx.assumptions += ['croniter is an oracle: the model gets its values as a table (t < nxt t checked on every table)',
                        'one SQL statement of the real code (SELECT / conditional UPDATE / DELETE with its row count) is atomic; '
                        'the SELECT and the write of one delete_cron_trigger / update_cron_trigger call are NOT (suite inside)',
                        'processors share nothing but the database (per-processor auth context restored on every switch)']


def stop_pool():
    if _POOL[0] is not None:
        try:
            _POOL[0][0].shutdown(wait=False, cancel_futures=True)
        except Exception:
            pass
        _POOL[0] = None


def search(ctx):
    """Widened oracle-only search for a failing input (no model involved)."""
    run_cases(ctx, [gen_case(ctx.rng) for _ in range(1200)], "search", with_model=False)
    run_cases(ctx, [copy_case(c) for c in INSIDE_CORPUS] + inside_cases(ctx), "search_inside", with_model=False)


def replay(obj):
    import logging
    logging.disable(logging.CRITICAL)
    r = obj.get('replay', {})
    if 'create' in r:
        v, impl = create_eval(r['create'])
        print('create_cron_trigger(%r) -> validate=%s stored=%s (%s)' % (r['create'], v, impl, obj.get('what')))
        d = r['create']
        garbage = isinstance(d['first'], (list, tuple)) and d['first'][0] == 'raw'
        bad = (garbage and impl != [0]) or (not garbage and impl != [0] and not d['pattern'] and d['first'] is not None
                                            and (d['count'] is None or d['count'] >= 1) and impl[2:] != [1, 1])
        return 1 if bad else 0
    if 'rest_count' in r:
        try:
            rest_count_type().validate(r['rest_count'])
            print('REST type accepts remaining_executions=%r' % r['rest_count'])
            return 1
        except ValueError as e:
            print('REST type refuses remaining_executions=%r: %s' % (r['rest_count'], e))
            return 0
    if 'case' not in r:
        print(json.dumps(obj, indent=1)[:4000])
        return 1
    case = copy_case(r['case'])
    log = execute(case)
    if case.get('fine'):
        print('processors are also suspended INSIDE db_api.delete_cron_trigger / update_cron_trigger, between the SELECT of the '
              'row and the DELETE / UPDATE statement')
    for e in log['steps']:
        ob, note = e['obs'], ''
        if ob[0] == 'sel':
            note = '   # processor %d inside %s_cron_trigger: row SELECTed, %s not sent yet' % (ob[1], ob[5], ob[5].upper())
        elif ob[0] == 'wr':
            note = '   # processor %d sends its %s and commits; advance_cron_trigger returns %s' % (ob[1], ob[5].upper(), ob[3])
        print('%-18s -> %-44s rows=%s clock=%s%s' % (e['step'], ob, e['view'], e['clock'], note))
    for s in log['starts']:
        print('start: trigger=%s occurrence=%s input=%s params=%s ctx=%s' % (
            {v['id']: k for k, v in log['trig'].items()}.get(s['snap_id']), s['snap_next'], s['input'], s['params'], s['ctx']))
    fails = oracle(None, case, log)
    for sig, what in fails:
        print('FAIL %s: %s' % (sig, what))
    if not fails:
        print('property holds on this input')
    return 1 if fails else 0
