"""C17 - a cron trigger fires once per due time and never more than its count.

Ties Model/Cron.v to the real cron-trigger code of /repo:
  create      vs triggers.create_cron_trigger / validate_cron_trigger_input (+ the REST resource type of
              remaining_executions) on a decision table of pattern / first time / count / clock
  run         vs 1..3 simulated processors, each one a greenlet executing the REAL
              periodic.process_cron_triggers_v2, suspended right before every database / RPC step
              (advance_cron_trigger, engine client start_workflow), resumed in a generated order
              (= an interleaving of the database steps), with a virtual clock (oslo timeutils.utcnow),
              crashes (the greenlet is killed between advance and start), RPC failures, a recording
              engine client and a fake keystone trust client; real sqlite rows are read back with raw SQL
              after every step.  croniter's values (the real triggers.get_next_execution_time) are tabulated
              per case and handed to the model as `nxt`.
Oracle (no model involved): on the observed rows / start_workflow calls of the real run
  once        each start belongs to an occurrence (a value of next_execution_time the row held and left),
              at most one start per occurrence, exactly one unless the winner crashed / its RPC failed
  count       starts <= count, row removed exactly when the count is used up, first-time-only fires once
  forward     every change of next_execution_time is to croniter(pattern, max(now, previous)) > previous
  context     every start carries the trigger's workflow, input, params, description id and runs under a
              context of the trigger's project (and trust when auth is enabled)
  not-early   nothing fires more than 2 s before its due time

Self-test mutations (each applied alone to a scratch worktree, each gives a VIOLATION), see SELFTEST below.
"""
import datetime
import json

from harness import core

GEN = []

MANIFEST = {
    'level_text': 'Coq theorems over Model/Cron.v (step-granular model: Tick/Read/Adv/Start/Drop/Crash, any number of '
                  'processors and triggers, arbitrary step lists, any nxt with t < nxt t): at most one start per '
                  '(trigger, due time), every left occurrence is started / pending / lost to a crash, starts <= count '
                  'and removal at 0, first-time-only fires once, next moves forward to nxt(max(now,next)), starts carry '
                  'the trigger payload; model tied to periodic.py/triggers.py/db api by differential runs of the real '
                  'process_cron_triggers_v2 in 1-3 greenlets suspended at every DB/RPC step.',
    'level_note': 'Trusted: croniter (tabulated as nxt, only t < nxt t is assumed and checked per table), SQLAlchemy/sqlite '
                  'conditional UPDATE atomicity (one DB step = one atomic model step), keystone (fake trust client), '
                  'greenlet suspension points = the DB/RPC calls of process_cron_triggers_v2.',
    'technique': 'Coq invariant proof over a step-granular protocol model; interleaving-driven differential correspondence',
    'design_ref': '6 C17',
}

IMPORTS = ['Model.Cron']

BASE = datetime.datetime(2030, 1, 1, 0, 0, 0)
PROJECTS = ['proj-a', 'proj-b']
WF_TEXT = """
version: '2.0'
%s:
  type: direct
  input:
    - x: 0
  tasks:
    t1:
      action: std.noop
"""


def dt(sec):
    return BASE + datetime.timedelta(seconds=sec)


def sec(d):
    """datetime -> seconds since BASE (exact rational kept as float only if not whole)."""
    delta = d - BASE
    us = delta.days * 86400 * 10**6 + delta.seconds * 10**6 + delta.microseconds
    return us // 10**6 if us % 10**6 == 0 else us / 10**6


# ---------------------------------------------------------------------------
# the real code under a deterministic multi-processor simulation

class Kill(BaseException):
    """Thrown into a processor greenlet to simulate the death of the process."""


class RpcDown(Exception):
    pass


class Env:
    """Process-wide boot of the real DB layer and the patches (done once)."""
    booted = False
    clock = 0
    auth = True
    wf_ids = {}
    trust_deleted = []

    @classmethod
    def boot(cls):
        if cls.booted:
            return
        from oslo_config import cfg
        from oslo_utils import timeutils
        from mistral.db.v2 import api as db_api  # noqa  (first: import order)
        from mistral import context as auth_ctx
        from mistral.services import security, workflows
        from mistral.services import periodic, triggers  # noqa
        from mistral.utils.openstack import keystone
        from mistral.rpc import clients as rpc
        from mistral import config  # noqa
        cfg.CONF.set_default('connection', 'sqlite://', group='database')
        cfg.CONF.set_default('max_overflow', -1, group='database')
        cfg.CONF.set_default('max_pool_size', 1000, group='database')
        cfg.CONF.set_default('auth_enable', False, group='pecan')
        db_api.setup_db()
        cls.mods = dict(cfg=cfg, timeutils=timeutils, db_api=db_api, auth_ctx=auth_ctx, security=security,
                        workflows=workflows, periodic=periodic, triggers=triggers, keystone=keystone, rpc=rpc)
        # virtual clock: the only time source of periodic.py / triggers.py
        cls.real_utcnow = timeutils.utcnow
        timeutils.utcnow = lambda with_timezone=False: dt(cls.clock)

        class Trust:
            def __init__(self, i):
                self.id = i
        cls.trust_seq = 0

        def create_trust():
            cls.trust_seq += 1
            c = auth_ctx.ctx()
            return Trust('trust-%s-%d' % (c.project_id, cls.trust_seq))
        security.create_trust = create_trust

        class FakeTrusts:
            def delete(self, trust_id):
                cls.trust_deleted.append(trust_id)

        class FakeKs:
            session = None

            def __init__(self, trust_id):
                self.auth_token = 'tok-%s' % trust_id
                self.user_id = 'user-%s' % trust_id
                self.trusts = FakeTrusts()
        keystone.client_for_trusts = lambda trust_id: FakeKs(trust_id)
        cls.booted = True
        # workflows, one per project (auth on) and one for the default project (auth off)
        for auth, proj in [(True, PROJECTS[0]), (True, PROJECTS[1]), (False, security.DEFAULT_PROJECT_ID)]:
            cls.set_auth(auth)
            auth_ctx.set_ctx(cls.user_ctx(proj))
            name = 'c17wf_%s' % proj.strip('<>').replace('-', '_')
            wf = workflows.create_workflows(WF_TEXT % name)[0]
            cls.wf_ids[proj] = (wf.name, wf.id)
            auth_ctx.set_ctx(None)

    @classmethod
    def set_auth(cls, on):
        cls.mods['cfg'].CONF.set_override('auth_enable', bool(on), group='pecan')
        cls.auth = bool(on)

    @classmethod
    def user_ctx(cls, proj):
        return cls.mods['auth_ctx'].MistralContext(user_id='user-' + proj, project_id=proj, auth_token='t',
                                                   is_admin=False, roles=['member'])

    @classmethod
    def rows(cls):
        """Raw rows of cron_triggers_v2 (independent of mistral's query layer)."""
        import sqlalchemy as sa
        from mistral.db.sqlalchemy import base as b
        with b.get_engine().connect() as c:
            res = c.execute(sa.text('select id, name, project_id, next_execution_time, remaining_executions, pattern, '
                                    'first_execution_time, trust_id from cron_triggers_v2')).fetchall()
        out = {}
        for r in res:
            nt = r[3]
            if isinstance(nt, str):
                nt = datetime.datetime.strptime(nt, '%Y-%m-%d %H:%M:%S.%f')
            out[r[0]] = {'id': r[0], 'name': r[1], 'project': r[2], 'next': sec(nt), 'rem': r[4], 'pattern': r[5],
                         'trust': r[7]}
        return out

    @classmethod
    def wipe(cls):
        import sqlalchemy as sa
        from mistral.db.sqlalchemy import base as b
        with b.get_engine().begin() as c:
            c.execute(sa.text('delete from cron_triggers_v2'))
        cls.trust_deleted[:] = []


def project_of(case, trig):
    from mistral.services import security
    return PROJECTS[trig['project']] if case['auth'] else security.DEFAULT_PROJECT_ID


class World:
    """One case: triggers created through the real service, processors as greenlets."""

    def __init__(self, case):
        import greenlet
        Env.boot()
        self.g = greenlet
        self.m = Env.mods
        self.case = case
        Env.wipe()
        Env.set_auth(case['auth'])
        Env.clock = case['t0']
        self.key_of_id = {}
        self.trig = {}          # key -> creation facts (id, project, input, params, wf, trust)
        self.created = []       # per key: ('ok', next, rem) | ('rejected', excname)
        self.procs = {}
        self.saved_ctx = {}
        self.cur = {}           # proc -> snapshot object being processed
        self.starts = []        # recorded start_workflow calls
        self.events = []        # per step observation
        self.fail_next_start = set()
        self._patch()
        for k, t in enumerate(case['triggers']):
            self.created.append(self._create(k, t))

    # -- patches (restored by close()) ----------------------------------------
    def _patch(self):
        m = self.m
        w = self
        self.orig = (m['periodic'].advance_cron_trigger, m['rpc'].get_engine_client)
        real_adv = self.orig[0]

        def adv(t):
            i = w.g.getcurrent().proc
            w.cur[i] = t
            w._yield(('before_adv', t.id, sec(t.next_execution_time), t.remaining_executions))
            res = real_adv(t)
            w.last[i] = ('adv', t.id, bool(res))
            return res

        class Recorder:
            def start_workflow(self, wf_identifier, wf_namespace='', wf_ex_id=None, wf_input=None,
                               description='', async_=False, **params):
                i = w.g.getcurrent().proc
                w._yield(('before_start',))
                if i in w.fail_next_start:
                    w.fail_next_start.discard(i)
                    w.last[i] = ('drop',)
                    raise RpcDown('engine not reachable')
                c = m['auth_ctx'].ctx() if m['auth_ctx'].has_ctx() else None
                t = w.cur.get(i)
                rec = {'proc': i, 'wf': wf_identifier, 'ns': wf_namespace, 'wf_ex_id': wf_ex_id,
                       'input': json.loads(json.dumps(wf_input)), 'params': json.loads(json.dumps(params)),
                       'description': description,
                       'ctx': None if c is None else {'project': c.project_id, 'trust': c.trust_id, 'is_admin': bool(c.is_admin),
                                                      'trust_scoped': bool(c.is_trust_scoped), 'token': c.auth_token,
                                                      'user': c.user_id},
                       'snap_id': getattr(t, 'id', None),
                       'snap_next': sec(t.next_execution_time) if t is not None else None,
                       'now': Env.clock}
                w.starts.append(rec)
                w.last[i] = ('start', rec)
                return {}
        m['periodic'].advance_cron_trigger = adv
        m['rpc'].get_engine_client = lambda: Recorder()
        self.last = {}

    def close(self):
        for i in list(self.procs):
            self._kill(i)
        self.m['periodic'].advance_cron_trigger, self.m['rpc'].get_engine_client = self.orig
        self.m['auth_ctx'].set_ctx(None)

    # -- creation -------------------------------------------------------------
    def _create(self, k, t):
        m = self.m
        proj = project_of(self.case, t)
        m['auth_ctx'].set_ctx(Env.user_ctx(proj))
        wf_name, wf_id = Env.wf_ids[proj]
        first = t['first']
        if first is not None and not isinstance(first, str):
            first = dt(first)
        try:
            trig = m['triggers'].create_cron_trigger(
                t['name'], wf_name, t['input'], t['params'], t['pattern'], first, t['count'],
                None if t['start'] is None else dt(t['start']), None, t.get('scope', 'private'))
            self.key_of_id[trig.id] = k
            self.trig[k] = {'id': trig.id, 'project': proj, 'input': t['input'], 'params': t['params'], 'wf': wf_name,
                            'trust': trig.trust_id, 'name': t['name'], 'pattern': trig.pattern, 'count': t['count'],
                            'first': t['first']}
            return ('ok', sec(trig.next_execution_time), trig.remaining_executions)
        except Exception as e:
            return ('rejected', type(e).__name__)
        finally:
            m['auth_ctx'].set_ctx(None)

    # -- processors -----------------------------------------------------------
    def _yield(self, what):
        g = self.g.getcurrent()
        g.at = what
        g.parent.switch(what)

    def _body(self):
        per = self.m['periodic']
        while True:
            per.process_cron_triggers_v2(None, None)
            self._yield(('pass_end',))

    def _switch(self, i):
        """Run processor i until its next suspension point; the thread-local auth context is per processor."""
        a = self.m['auth_ctx']
        g = self.procs[i]
        a.set_ctx(self.saved_ctx.get(i))
        try:
            at = g.switch()
        finally:
            self.saved_ctx[i] = a.ctx() if a.has_ctx() else None
            a.set_ctx(None)
        return at

    def _kill(self, i):
        g = self.procs.pop(i, None)
        if g is not None and not g.dead:
            a = self.m['auth_ctx']
            a.set_ctx(self.saved_ctx.get(i))
            try:
                g.throw(Kill)
            except Kill:
                pass
            finally:
                a.set_ctx(None)
        self.saved_ctx.pop(i, None)
        self.cur.pop(i, None)

    def step(self, st):
        """Execute one schedule step on the real code; returns the observation (a model-step descriptor)."""
        kind = st[0]
        if kind == 'tick':
            Env.clock += st[1]
            return ('tick', st[1])
        i = st[1]
        if kind == 'crash':
            self._kill(i)
            return ('crash', i)
        if kind == 'failstart':
            g = self.procs.get(i)
            if g is None or g.dead or getattr(g, 'at', ('',))[0] != 'before_start':
                return ('noop', i)
            self.fail_next_start.add(i)
            kind = 'run'
        # run: one DB/RPC step of processor i
        g = self.procs.get(i)
        if g is None or g.dead:
            g = self.g.greenlet(self._body)
            g.proc = i
            g.at = ('idle',)
            self.procs[i] = g
        was = g.at
        self.last[i] = None
        if was[0] in ('idle', 'pass_end'):
            # a new pass: the read happens now; collect what it returned by wrapping get_next_cron_triggers
            tr = self.m['triggers']
            real = tr.get_next_cron_triggers
            seen = {}

            def reading():
                r = real()
                seen['ids'] = [x.id for x in r]
                return r
            tr.get_next_cron_triggers = reading
            try:
                self._switch(i)
            finally:
                tr.get_next_cron_triggers = real
            return ('read', i, [self.key_of_id.get(x, -1) for x in seen.get('ids', [])])
        self._switch(i)
        last = self.last.get(i)
        if was[0] == 'before_adv':
            k = self.key_of_id.get(was[1], -1)
            return ('adv', i, k, bool(last and last[0] == 'adv' and last[2]))
        if was[0] == 'before_start':
            if last and last[0] == 'start':
                r = last[1]
                return ('start', i, self.key_of_id.get(r['snap_id'], -1), r['snap_next'])
            return ('drop', i)
        return ('noop', i)

    def db_view(self):
        rows = Env.rows()
        out = {}
        for r in rows.values():
            k = self.key_of_id.get(r['id'])
            out[k] = (r['next'], r['rem'])
        return out
