"""C12 - rerun / skip of a failed task over the EXECUTION TREE, on the real engine (harness/engine_driver.py).

Generated programs (gen_case / build): a failing task `f`
  kind plain   one action                          kind items  with-items, some items fail (reset on / off, concurrency)
  kind retry   retry policy (count, delay)         kind join   f and a parallel branch both lead to `join: all`
placed at nesting depth 0, 1 or 2 (main -> sub1 -> sub2; a level may call its sub-workflow through with-items, the
failing instance is item 1), every level may have a parallel asynchronous branch `side<i>` that completes before the
operator acts ("early": the enclosing workflow has come to rest in ERROR) or after it ("late": the enclosing workflow is
still RUNNING while its sub-workflow task is already in ERROR).  Operator requests: rerun (reset on/off) or skip, issued
through the engine entry point or through the REAL REST controller (PUT /v2/tasks/<id>), as soon as `f` is in ERROR,
a random number of events later, or after the run has come to rest; the new attempt succeeds, fails again (then the
next request follows: repeated reruns) or is cancelled.  All later events are delivered in a seeded random order.

Three things are checked on every case:

  correspondence  the DB (workflow rows, task rows, their action / sub-workflow executions) is abstracted before and
                  after every rerun / skip call and every start_task(rerun) delivery and compared with
                  coq/Model/Rerun.v (rerun_workflow / start_rerun / api_put evaluated by vm_compute): states of the
                  whole chain, accepted flags, processed flags, which items get new executions
  oracle "now"    right after an accepted rerun every enclosing workflow and parent task is RUNNING (after a skip the
                  task is SKIPPED), right after the delivery of its start request the task is RUNNING; a request
                  for a task that is not in ERROR (REST) or whose workflow succeeded is refused with the declared
                  error and changes nothing
  oracle "then"   the property text: a REFERENCE run of the same program in which the outcome oracle gives the new
                  result at the first attempt (for skip: the task succeeds with publish := publish-on-skip and
                  on-success := on-skip, or the original on-success when there is none), canonical schedule, no
                  operator.  After the rerun run drains: state and output of every workflow execution, state and
                  published variables of every task must equal the reference; with-items: with reset off exactly
                  the failed items ran again, with reset on all of them.
"""
import collections
import copy
import json
import random

from harness import core

RULE = ('programs: failing task plain / with-items (1-4 items, concurrency none/1/2) / retry (count 1-2, delay 0-1) / upstream of join:all, at '
        'depth 0-2 (30% of the nested ones through a with-items sub-workflow task), parallel asynchronous branch per level none/early/late; 1-3 '
        'requests (rerun reset on/off or final skip, 30% through REST) issued at once / k events later / at rest, new attempt ok/err/cancel; '
        '30% deliver the start request last; schedules: seeded random walk over the enabled events (25% default scheduler); 50% with refusal '
        'probes (REST put on tasks that are not in ERROR); distinct = distinct case; non-trivial = at least 8 events')
IMPORTS = ['Gen.States', 'Model.Rerun']
LEVELS = ['main', 'sub1', 'sub2']
FINAL = ('SUCCESS', 'ERROR', 'CANCELLED')


# ------------------------------------------------------------------ programs
def gen_case(rng, i=0):
    kind = ['plain', 'items', 'retry', 'join', 'plain', 'items'][i % 6]
    depth = [1, 0, 2, 1, 2, 1, 0, 1][i % 8] if rng.random() < 0.8 else rng.choice([0, 1, 2])
    via = [False] * depth
    if depth and rng.random() < 0.3:
        via[rng.randrange(depth)] = True
    side = [rng.choice(['none', 'late', 'late', 'early']) for _ in range(depth + 1)]
    if kind == 'join':
        side[depth] = rng.choice(['late', 'late', 'early'])
    # outcomes of the new attempt after each rerun; the last element decides the end of the run
    tail = rng.choice([['ok'], ['ok'], ['ok'], ['err', 'ok'], ['cancel'], ['err'], ['err', 'err', 'ok'], ['err', 'cancel']])
    ops = []
    for j in range(len(tail)):
        ops.append({'op': 'rerun', 'reset': (rng.random() < 0.5) if kind == 'items' else (rng.random() < 0.8),
                    'when': rng.choice(['early', 'rest', 'random', 'rest']), 'k': rng.randrange(1, 8),
                    'via': 'api' if rng.random() < 0.3 else 'engine'})
    if rng.random() < 0.25:
        # the last request is a skip instead (the outcome of that attempt is then irrelevant)
        ops[-1]['op'] = 'skip'
        tail = tail[:len(ops) - 1] + ['skip']
    for o in ops:
        if o['via'] == 'api' and o['op'] == 'rerun' and kind != 'items':
            o['reset'] = True     # the REST API refuses reset=false for tasks without with-items
    case = {'kind': kind, 'depth': depth, 'via_items': via, 'side': side, 'ops': ops, 'tail': tail,
            'on_skip': rng.random() < 0.5, 'pub_skip': rng.random() < 0.6,
            'seed': rng.randrange(1 << 30), 'sched': 'default' if rng.random() < 0.25 else 'legacy',
            'probes': rng.random() < 0.5, 'hold_start': rng.random() < 0.3}
    if any(via) and rng.random() < 0.35:
        case['inst0'] = 'cancel'    # the other instance (item 0) of the with-items sub-workflow task is cancelled: the parent task is CANCELLED
    if any(via) and tail[-1] == 'skip':
        case['pub_skip'] = True    # (the reference cannot leave a variable unpublished in one instance only)
    if kind == 'join':
        case['on_skip'] = False    # a skipped task that does not lead to the join makes the join unsatisfiable: no reference program
    if kind == 'items':
        n = rng.choice([1, 2, 3, 4])
        fail = sorted(rng.sample(range(n), rng.randrange(1, n + 1)))
        case['items'] = {'n': n, 'fail': fail, 'conc': rng.choice([None, None, 1, 2])}
    if kind == 'retry':
        case['retry'] = {'count': rng.choice([1, 2]), 'delay': rng.choice([0, 1])}
    return case


def _k_expr(case, level):
    """expression giving the instance number at this level (0 above the with-items level)"""
    return '<% $.k %>'


def build(case, reference=False):
    """-> (yaml text, outcome oracle dict).  reference=True: the program / oracle of the reference run."""
    depth, kind = case['depth'], case['kind']
    last = case['tail'][-1]
    skip_ref = reference and last == 'skip'
    y = ["version: '2.0'"]
    for lv in range(depth + 1):
        y.append('%s:' % LEVELS[lv])
        y += ['  input:', '    - k: 0']
        y.append('  output:')
        if lv < depth:
            y.append('    r%d: <%% $.get(r%d, null) %%>' % (lv, lv))
            y.append('    a%d: <%% $.get(a%d, null) %%>' % (lv, lv))
        else:
            y += ['    v: <% $.get(v, null) %>', '    gv: <% $.get(gv, null) %>', '    hv: <% $.get(hv, null) %>',
                  '    jv: <% $.get(jv, null) %>']
        y.append('    s%d: <%% $.get(sv%d, null) %%>' % (lv, lv))
        y.append('  tasks:')
        if case['side'][lv] != 'none':
            y += ['    side%d:' % lv, '      action: verif.act tag="side%d" sync=false' % lv, '      publish:',
                  '        sv%d: <%% task().result %%>' % lv]
            if lv == depth and kind == 'join':
                y += ['      on-success: [j]']
        if lv < depth:
            y.append('    p%d:' % lv)
            if case['via_items'][lv]:
                y += ['      with-items: kk in [0, 1]', '      workflow: %s k=<%% $.kk %%>' % LEVELS[lv + 1]]
            else:
                y += ['      workflow: %s k=<%% $.k %%>' % LEVELS[lv + 1]]
            y += ['      publish:', '        r%d: <%% task().result %%>' % lv, '      on-success: [after%d]' % lv,
                  '    after%d:' % lv, '      action: verif.act tag="after%d" value=%d' % (lv, 30 + lv), '      publish:',
                  '        a%d: <%% task().result %%>' % lv]
            continue
        # leaf level: the failing task
        y.append('    f:')
        if kind == 'items':
            n = case['items']['n']
            y += ['      with-items: i in %s' % json.dumps(list(range(n))),
                  '      action: verif.act tag="f" item=<% $.k * 100 + $.i %> value=<% $.i * 10 + 1 %>']
            if case['items']['conc'] is not None:
                y.append('      concurrency: %d' % case['items']['conc'])
        else:
            y.append('      action: verif.act tag="f" item=<% $.k * 100 %> value=7')
        if kind == 'retry':
            y += ['      retry:', '        count: %d' % case['retry']['count'], '        delay: %d' % case['retry']['delay']]
        succ = 'j' if kind == 'join' else 'g'
        if skip_ref and any(case['via_items']):
            # (several instances of this workflow: only instance 1 is the skipped one)
            y += ['      publish:', '        v: <% switch($.k = 1 => "skipped", true => task().result) %>']
            if case['on_skip']:
                y += ['      on-success:', '        - h: <% $.k = 1 %>', '        - %s: <%% $.k != 1 %%>' % succ]
            else:
                y += ['      on-success: [%s]' % succ]
        elif skip_ref:
            # the reference of a skip: the task succeeds, publishes publish-on-skip and follows on-skip (or on-success)
            if case['pub_skip']:
                y += ['      publish:', '        v: skipped']
            y += ['      on-success: [%s]' % ('h' if case['on_skip'] else succ)]
        else:
            y += ['      publish:', '        v: <% task().result %>']
            if case['pub_skip']:
                y += ['      publish-on-skip:', '        v: skipped']
            y += ['      on-success: [%s]' % succ]
            if case['on_skip']:
                y += ['      on-skip: [h]']
        # (a task without inbound transition is a start task: g / h exist only where something leads to them)
        if kind == 'join':
            y += ['    j:', '      join: all', '      action: verif.act tag="j" value=4', '      publish:',
                  '        jv: <% [task().result, $.get(v, null)] %>']
        elif not (skip_ref and case['on_skip'] and not any(case['via_items'])):
            y += ['    g:', '      action: verif.act tag="g" value=1', '      publish:', '        gv: <% [task().result, $.get(v, null)] %>']
        if case['on_skip']:
            y += ['    h:', '      action: verif.act tag="h" value=2', '      publish:', '        hv: <% [task().result, $.get(v, null)] %>']
    # ---- outcome oracle
    oracle = {}
    kk = 1 if any(case['via_items']) else 0
    first_fail = 1 if kind != 'retry' else case['retry']['count'] + 1     # failing attempts before the first request
    tail = [t for t in case['tail']]
    if kind == 'items':
        for i in case['items']['fail']:
            key = kk * 100 + i
            seq = ([] if reference else ['err']) + ([tail[-1]] if reference else tail)
            for att, o in enumerate(seq):
                if o == 'err':
                    oracle[('f', key, att)] = ('err', 'boom')
                elif o == 'cancel':
                    oracle[('f', key, att)] = ('cancel',)
                # 'ok' / 'skip': default outcome (the value given in the task)
            # with reset on, an item that already succeeded runs again: default outcome = success with the same value
    else:
        key = kk * 100
        if reference:
            seq = [tail[-1]] if kind != 'retry' else _retry_seq(case, [tail[-1]])
        else:
            seq = (['err'] * first_fail) + (tail if kind != 'retry' else _retry_seq(case, tail))
        for att, o in enumerate(seq):
            if o == 'err':
                oracle[('f', key, att)] = ('err', 'boom')
            elif o == 'cancel':
                oracle[('f', key, att)] = ('cancel',)
    if case.get('inst0') == 'cancel':
        # instance 0 (same in the run and in the reference)
        for i in (range(case['items']['n']) if kind == 'items' else [0]):
            oracle[('f', i, 0)] = ('cancel',)
    return '\n'.join(y) + '\n', oracle


def _retry_seq(case, tail):
    """with a retry policy an attempt that fails is retried `count` times before the task fails again"""
    seq = []
    for o in tail:
        if o == 'err':
            seq += ['err'] * (case['retry']['count'] + 1)
        else:
            seq.append(o)
    return seq


# ------------------------------------------------------------------ DB abstraction (for the model)
def snapshot(d):
    """Rows of the real DB in the shape of Model/Rerun.v's db, keyed by DB ids."""
    from mistral.db.v2 import api as db_api
    from mistral import context as auth_context
    auth_context.set_ctx(d._ctx())
    snap = {'wf': {}, 'task': {}}
    with db_api.transaction():
        for w in db_api.get_workflow_executions():
            snap['wf'][w.id] = {'state': w.state, 'accepted': bool(w.accepted), 'ptask': w.task_execution_id or None}
        for t in db_api.get_task_executions():
            execs = []
            # action executions only: a sub-workflow execution is a workflow row of its own
            for a in sorted(t.action_executions, key=lambda a: (a.created_at, d.uuid_order.get(a.id, 1 << 60), a.id)):
                execs.append({'id': a.id, 'index': (a.runtime_context or {}).get('index', 0) or 0, 'state': a.state,
                              'accepted': bool(a.accepted)})
            snap['task'][t.id] = {'wf': t.workflow_execution_id, 'state': t.state, 'info': t.state_info is not None,
                                  'processed': bool(t.processed), 'execs': execs, 'name': t.name}
    return snap


def coq_state(s):
    return 'RUNNING_DELAYED' if s == 'DELAYED' else s


def show_state(s):
    return 'RUNNING_DELAYED' if s == 'DELAYED' else s


def coq_db(snap, wf_order, task_order):
    wpos = {w: i for i, w in enumerate(wf_order)}
    tpos = {t: i for i, t in enumerate(task_order)}
    ws = []
    for w in wf_order:
        r = snap['wf'][w]
        pt = 'None' if r['ptask'] is None else '(Some %d)' % tpos[r['ptask']]
        ws.append('(mkW %s %s %s)' % (coq_state(r['state']), core.coq_bool(r['accepted']), pt))
    ts = []
    for t in task_order:
        r = snap['task'][t]
        ex = core.coq_list(['(mkA %d %s %s)' % (a['index'], coq_state(a['state']), core.coq_bool(a['accepted'])) for a in r['execs']])
        ts.append('(mkT %d %s %s %s %s)' % (wpos[r['wf']], coq_state(r['state']), core.coq_bool(r['info']),
                                             core.coq_bool(r['processed']), ex))
    return '(mkDb %s %s)' % (core.coq_list(ws), core.coq_list(ts))


def show_db(snap, wf_order, task_order, before=None, target=None):
    """The text Coq prints for view_db of the same rows.  Executions of the target task created by the event
    (absent from `before`) are listed after the old ones in index order, as the model appends them."""
    ws = ['(%s, %s)' % (show_state(snap['wf'][w]['state']), core.coq_bool(snap['wf'][w]['accepted'])) for w in wf_order]
    ts = []
    for t in task_order:
        r = snap['task'][t]
        execs = r['execs']
        if before is not None:
            old_ids = [a['id'] for a in before['task'][t]['execs']]
            by_id = {a['id']: a for a in execs}
            new = sorted([a for a in execs if a['id'] not in old_ids], key=lambda a: a['index'])
            execs = [by_id[i] for i in old_ids if i in by_id] + new
        ex = '[' + '; '.join('(%d, %s, %s)' % (a['index'], show_state(a['state']), core.coq_bool(a['accepted'])) for a in execs) + ']'
        ts.append('(%s, %s, %s, %s)' % (show_state(r['state']), core.coq_bool(r['info']), core.coq_bool(r['processed']), ex))
    return '[%s], [%s]' % ('; '.join(ws), '; '.join(ts))


def norm(s):
    return ''.join(str(s).split())


# ------------------------------------------------------------------ default scheduler: expired in-memory jobs
def repair_scheduler(d):
    """Workflow._recursive_rerun schedules the integrity check of the sub-workflow and THEN locks the parent
    workflow; acquire_lock() does session.expire_all(), which expires the ScheduledJob object that the default
    scheduler keeps in memory.  After the transaction the object is detached: every attribute access raises
    DetachedInstanceError.  The real scheduler then fails to run the in-memory copy (the exception is swallowed by its
    thread pool) and the job is run by the next poll of the job store.  The driver's job firing reads the in-memory
    objects, so we do what the store poll does: reload the row.  Counted in the coverage as an observation (reported
    to the lead; it does not change the outcome of a run)."""
    if d.scheduler_type != 'default':
        return 0
    import sqlalchemy as sa
    from mistral.db.v2 import api as db_api
    n = 0
    sch = d.sched
    for i, h in enumerate(list(sch._heap)):
        st = sa.inspect(h[2])
        if st.expired_attributes and st.detached:
            jid = st.identity[0]
            with db_api.transaction():
                fresh = db_api.get_scheduled_job(jid)
                for col in fresh.__table__.columns:
                    getattr(fresh, col.name)
            sch._heap[i] = (h[0], h[1], fresh)
            for k, v in list(sch.in_memory_jobs.items()):
                if v is h[2]:
                    sch.in_memory_jobs[k] = fresh
            n += 1
    return n


# ------------------------------------------------------------------ REST
_APP = {}


def rest_app(d):
    """The real pecan application (auth off).  Its engine client is the driver's fake client extended with
    rerun_workflow, which only RECORDS the call: the engine call itself is made by api_put after the request has
    returned (API and engine are different processes; running the engine inside the request thread lets the
    request's session clean-up expire the scheduler's in-memory job objects - an artefact of the test set-up)."""
    from harness import engine_driver as ed
    if 'app' not in _APP:
        import pecan
        import pecan.testing
        from oslo_config import cfg
        from mistral.api import app as pecan_app
        _APP['calls'] = []

        def rerun_workflow(self, task_ex_id, reset=True, skip=False, env=None):
            _APP['calls'].append({'task_ex_id': task_ex_id, 'reset': reset, 'skip': skip, 'env': env})
            return None
        ed._FakeEngineClient.rerun_workflow = rerun_workflow
        cfg.CONF.set_override('auth_enable', False, group='pecan')
        cfg.CONF.set_override('enabled', False, group='cron_trigger')   # no periodic thread next to the single-threaded driver
        _APP['app'] = pecan.testing.load_test_app(dict(pecan_app.get_pecan_config()))
    return _APP['app']


def api_put(d, task_id, body):
    """PUT /v2/tasks/<id> through the real controller, then the engine call it made (if any);
    -> ('ok' | 'declared' | 'internal', http status)"""
    from mistral import context as auth_context
    app = rest_app(d)
    auth_context.set_ctx(d._ctx())
    del _APP['calls'][:]
    try:
        resp = app.put_json('/v2/tasks/%s' % task_id, body, expect_errors=True)
        code = resp.status_int
    except Exception as e:   # noqa
        d.entry_errors.append({'event': 'api_put', 'type': type(e).__name__, 'msg': str(e)[:300], 'tb': ''})
        return 'internal', 0
    finally:
        auth_context.set_ctx(d._ctx())
    if code == 200:
        out = 'ok'
        for c in list(_APP['calls']):
            out = d.operator('rerun', c['task_ex_id'], reset=c['reset'], skip=c['skip'], env=c['env'])
        return out, code
    if 400 <= code < 500:
        return 'declared', code
    return 'internal', code


# ------------------------------------------------------------------ one run
class Run:
    def __init__(self, d, case, reference=False):
        self.d = d
        self.case = case
        self.reference = reference
        self.fails = []
        self.model_cases = []       # (kind, coq expression, expected text, description)
        self.labels = []
        self.rng = random.Random('rerun/%s/%s' % (case['seed'], 'ref' if reference else 'run'))
        self.ops_done = 0
        self.sides_done = set()
        self.events = 0
        self.accepted_ops = 0
        self.stats = collections.Counter()

    def fail(self, signature, what):
        self.fails.append({'signature': signature, 'what': what, 'at': len(self.labels)})

    # ---- views
    def view(self):
        v = self.d.view()
        self.ids = {'task': {c: i for i, c in self.d._ids['task'].items()}, 'act': {c: i for i, c in self.d._ids['act'].items()},
                    'wf': {c: i for i, c in self.d._ids['wf'].items()}}
        return v

    def target(self, v, state='ERROR'):
        """the failing task: the task named f in the failing instance"""
        for cid, t in v['tasks'].items():
            if cid.split('/')[-1].startswith('f#') and (state is None or t['state'] == state) and self._failing_instance(cid):
                return cid
        return None

    def _failing_instance(self, cid):
        if not any(self.case['via_items']):
            return True
        return '.sub1/' in cid

    def chain_of(self, v, task_cid):
        """[(workflow cid, parent task cid or None)] upwards from the workflow of the task"""
        out = []
        wf = task_cid.rsplit('/', 1)[0]
        while True:
            if wf == 'R':
                out.append((wf, None))
                return out
            pt = wf.rsplit('.sub', 1)[0]
            out.append((wf, pt))
            wf = pt.rsplit('/', 1)[0]

    # ---- events
    def side_candidates(self, v):
        out = []
        for acid, a in v['actions'].items():
            name = acid.split('/')[-1].split('#')[0]
            if not name.startswith('side') or a['state'] != 'RUNNING' or acid in self.sides_done:
                continue
            lv = int(name[4:])
            mode = self.case['side'][lv]
            if self.reference or mode == 'early' or self.ops_done >= len(self.case['ops']) or (mode == 'late' and self.ops_done >= 1):
                out.append(acid)
        return out

    def complete_side(self, acid):
        from mistral_lib import actions as ml_actions
        lv = int(acid.split('/')[-1].split('#')[0][4:])
        self.sides_done.add(acid)
        out = self.d.operator('action_complete', self.ids['act'][acid], ml_actions.Result(data=50 + lv))
        self.labels.append('side:%s' % acid)
        if out != 'ok':
            self.fail('side-completion-%s' % out, 'completing the asynchronous action %s: %s' % (acid, out))

    def _is_rerun_start(self, ev):
        if ev[0] != 'item':
            return False
        it = self.d.pending.get(ev[1])
        return bool(it and it['kind'] == 'rpc' and it['payload']['method'] == 'start_task' and it['payload']['kw'].get('rerun'))

    def step(self, v):
        """fire one random enabled event (or complete a side branch); False when nothing is enabled"""
        d = self.d
        evs = [e for e in d.enabled() if not d._is_integrity_job(e)]
        sides = self.side_candidates(v)
        if self.case.get('hold_start') and not self.reference:
            # the start request of the rerun is delivered last: everything else (other branches, completion
            # checks) happens in the window between the accepted request and the restart of the task
            others = [e for e in evs if not self._is_rerun_start(e)]
            if others or sides:
                evs = others
        if self.reference:
            # canonical schedule: oldest pending item first, side branches as soon as they can complete
            if sides:
                self.complete_side(sorted(sides)[0])
                return True
            if not evs:
                return d._tick_non_integrity()
            self.fire(evs[0])
            return True
        n = len(evs) + len(sides)
        if n == 0:
            return d._tick_non_integrity()
        k = self.rng.randrange(n)
        if k >= len(evs):
            self.complete_side(sides[k - len(evs)])
        else:
            self.fire(evs[k])
        return True

    def fire(self, ev):
        d = self.d
        label = ev[0]
        rerun_start = None
        if ev[0] == 'item':
            it = d.pending[ev[1]]
            label = d.describe(it)
            if it['kind'] == 'rpc' and it['payload']['method'] == 'start_task' and it['payload']['kw'].get('rerun'):
                rerun_start = it['payload']['kw']
        before = snapshot(d) if rerun_start else None
        out = d.fire(ev)
        self.events += 1
        self.labels.append('%s -> %s' % (label, out))
        if out == 'internal':
            e = d.entry_errors[-1] if d.entry_errors else {'type': '?', 'msg': '?'}
            self.fail('internal-error:%s' % e['type'], 'non-declared exception escaped %s: %s' % (label, e['msg'][:200]))
        if rerun_start is not None and not self.reference:
            self.after_rerun_start(rerun_start, before, out)
        return out

    # ---- the operator request
    def issue(self, op, v, tcid):
        d = self.d
        tid = self.ids['task'][tcid]
        before = snapshot(d)
        skip = op['op'] == 'skip'
        if op['via'] == 'api':
            body = {'state': 'SKIPPED' if skip else 'RUNNING'}
            if not skip:
                body['reset'] = bool(op['reset'])
            out, code = api_put(d, tid, body)
        else:
            out = d.operator('rerun', tid, reset=bool(op['reset']), skip=skip)
        self.ops_done += 1
        self.stats['expired-in-memory-scheduler-jobs'] += repair_scheduler(d)
        self.labels.append('%s:%s(reset=%s,via=%s) -> %s' % (op['op'], tcid, op['reset'], op['via'], out))
        after = snapshot(d)
        v2 = self.view()
        chain = self.chain_of(v, tcid)
        # --- correspondence with the model
        wf_order = sorted(before['wf'])
        task_order = sorted(before['task'])
        if skip:
            # a skip continues the workflow in the same transaction (the next tasks are dispatched, which may create
            # rows or re-arm a join of the same workflow): that part is the core model's (Model/Engine.v ESkipTask);
            # the tree model is compared on everything else
            parents = {w['ptask'] for w in before['wf'].values()}
            task_order = [t for t in task_order if t == tid or t in parents or before['task'][t]['wf'] != before['task'][tid]['wf']]
        tpos = task_order.index(tid)
        if op['via'] == 'api':
            expr = 'view_rerun (api_put %s %d %s %s %s)' % (
                coq_db(before, wf_order, task_order), tpos, 'SKIPPED' if skip else 'RUNNING',
                'None' if skip else '(Some %s)' % core.coq_bool(bool(op['reset'])), core.coq_bool(self.case['kind'] == 'items'))
        else:
            expr = 'view_rerun (rerun_workflow %s %d %s)' % (coq_db(before, wf_order, task_order), tpos, core.coq_bool(skip))
        impl = '(%s, %s, %s)' % (show_db(after, wf_order, task_order, before=before), 'Ok' if out == 'ok' else 'Declared', '?')
        self.model_cases.append({'kind': 'rerun', 'expr': expr, 'impl': impl, 'what': self.labels[-1]})
        # --- oracle "now"
        pre_states = {w: v['wf'][w]['state'] for w, _ in chain}
        if out == 'ok' and pre_states[chain[0][0]] != 'PAUSED':
            self.accepted_ops += 1
            self.await_restart = not skip
            for w, pt in chain:
                if v2['wf'][w]['state'] != 'RUNNING':
                    self.fail('after-%s:enclosing-workflow-not-RUNNING' % op['op'],
                              'right after the accepted %s of %s workflow %s is %s (was %s)' % (op['op'], tcid, w, v2['wf'][w]['state'], pre_states[w]))
                if pt is not None and v2['tasks'][pt]['state'] != 'RUNNING':
                    self.fail('after-%s:parent-task-not-RUNNING' % op['op'],
                              'right after the accepted %s of %s the parent task %s is %s (its workflow %s was %s)' % (
                                  op['op'], tcid, pt, v2['tasks'][pt]['state'], pt.rsplit('/', 1)[0], v['wf'][pt.rsplit('/', 1)[0]]['state']))
            if not skip and v2['tasks'][tcid]['state'] != 'RUNNING':
                self.fail('after-rerun:task-not-RUNNING',
                          'right after the accepted rerun of %s the task is still %s: until its start request is delivered a '
                          'completion check of its workflow finds no incomplete task' % (tcid, v2['tasks'][tcid]['state']))
            if skip and v2['tasks'][tcid]['state'] != 'SKIPPED':
                self.fail('after-skip:task-not-SKIPPED', 'right after the accepted skip %s is %s' % (tcid, v2['tasks'][tcid]['state']))
            self.stats['op-parent-running' if any(pre_states[w] == 'RUNNING' for w, _ in chain[1:]) else 'op-parents-at-rest'] += 1
        elif out == 'declared':
            if norm(show_db(after, wf_order, task_order)) != norm(show_db(before, wf_order, task_order)):
                self.fail('refused-%s-changed-state' % op['op'], 'the refused %s of %s changed rows' % (op['op'], tcid))
            if all(s in ('ERROR', 'RUNNING', 'CANCELLED') for s in pre_states.values()):
                self.fail('%s-of-failed-task-refused' % op['op'],
                          '%s of the ERROR task %s was refused (chain states %s)' % (op['op'], tcid, pre_states))
        return out, v2

    def after_rerun_start(self, kw, before, out):
        d = self.d
        after = snapshot(d)
        tid = kw['task_ex_id']
        wf_order = sorted(before['wf'])
        task_order = sorted(before['task'])
        if tid not in before['task']:
            return
        name = before['task'][tid]['name']
        items = 'None'
        if name == 'f' and self.case['kind'] == 'items':
            conc = self.case['items']['conc']
            items = '(Some (%d, %s))' % (self.case['items']['n'], 'None' if conc is None else '(Some %d)' % conc)
        expr = 'view_start (start_rerun %s %d %s %s)' % (coq_db(before, wf_order, task_order), task_order.index(tid),
                                                         core.coq_bool(bool(kw['reset'])), items)
        impl = '(%s, %s)' % (show_db(after, wf_order, task_order, before=before), 'Ok' if out == 'ok' else 'Declared')
        self.model_cases.append({'kind': 'start', 'expr': expr, 'impl': impl, 'what': self.labels[-1]})
        if out == 'ok' and after['task'][tid]['state'] not in ('RUNNING',):
            self.fail('after-rerun-start:task-not-RUNNING', 'after the delivery of its rerun start request task %s is %s' % (
                name, after['task'][tid]['state']))
        # with-items: which items got a new execution
        if name == 'f' and self.case['kind'] == 'items' and out == 'ok' and self.case['items']['conc'] is None:
            old = {a['id'] for a in before['task'][tid]['execs']}
            new_idx = sorted(a['index'] for a in after['task'][tid]['execs'] if a['id'] not in old)
            ok_before = sorted(a['index'] for a in before['task'][tid]['execs'] if a['accepted'] and a['state'] == 'SUCCESS')
            want = list(range(self.case['items']['n'])) if kw['reset'] else [i for i in range(self.case['items']['n']) if i not in ok_before]
            if new_idx != want:
                self.fail('with-items-rerun:wrong-items-re-executed:reset=%s' % bool(kw['reset']),
                          'items re-executed %s, required %s (reset=%s, items that had succeeded %s)' % (new_idx, want, kw['reset'], ok_before))

    # ---- probes: requests that must be refused
    def probe(self, v):
        """PUT on a task that is not in ERROR (or a rerun inside a succeeded workflow): refused, nothing changes."""
        d = self.d
        cands = [c for c, t in v['tasks'].items() if t['state'] != 'ERROR']
        if not cands:
            return
        tcid = cands[self.rng.randrange(len(cands))]
        st = v['tasks'][tcid]['state']
        tid = self.ids['task'][tcid]
        body = self.rng.choice([{'state': 'RUNNING', 'reset': True}, {'state': 'SKIPPED'}, {'state': 'RUNNING', 'reset': False}])
        before = snapshot(d)
        npend = len(d.pending)
        out, code = api_put(d, tid, body)
        after = snapshot(d)
        self.labels.append('probe:%s(%s,%s) -> %s' % (tcid, st, body, out))
        self.stats['probe:%s' % st] += 1
        wf_order = sorted(before['wf'])
        task_order = sorted(before['task'])
        skip = body['state'] == 'SKIPPED'
        wi = tcid.split('/')[-1].startswith('f#') and self.case['kind'] == 'items' or (
            tcid.split('/')[-1].startswith('p') and self.case['via_items'][int(tcid.split('/')[-1][1:].split('#')[0])])
        expr = 'view_rerun (api_put %s %d %s %s %s)' % (
            coq_db(before, wf_order, task_order), task_order.index(tid), body['state'],
            'None' if skip else '(Some %s)' % core.coq_bool(body['reset']), core.coq_bool(bool(wi)))
        impl = '(%s, %s, %s)' % (show_db(after, wf_order, task_order, before=before), 'Ok' if out == 'ok' else 'Declared', '?')
        self.model_cases.append({'kind': 'probe', 'expr': expr, 'impl': impl, 'what': self.labels[-1]})
        if out != 'declared':
            self.fail('%s-of-%s-task-not-refused' % ('skip' if skip else 'rerun', st),
                      'PUT %s on task %s in state %s answered %s (%s), a declared refusal is required' % (body, tcid, st, out, code))
        if before != after or len(d.pending) != npend:
            self.fail('refused-request-changed-state:%s' % st, 'PUT %s on task %s (%s): rows or pending operations changed' % (body, tcid, st))

    # ---- the whole run
    def run(self):
        d, case = self.d, self.case
        yaml_text, oracle = build(case, self.reference)
        d.reset(case['seed'] % 100000)
        d.create_workflows(yaml_text)
        d.oracle = dict(oracle)
        out, wid = d.start_workflow('main', {})
        if out != 'ok':
            self.fail('start-failed', str(wid)[:200])
            return self
        self.await_restart = False
        guard = 0
        ops = [] if self.reference else list(case['ops'])
        countdown = None
        while guard < 3000:
            guard += 1
            v = self.view()
            tc = self.target(v) if self.ops_done < len(ops) else None
            if self.await_restart:
                # the next request is made only after the task has left ERROR (its start request was delivered)
                if tc is None:
                    self.await_restart = False
                tc = None
            if tc is not None:
                op = ops[self.ops_done]
                fire_now = False
                if op['when'] == 'early':
                    fire_now = True
                elif op['when'] == 'random':
                    if countdown is None:
                        countdown = op['k']
                    elif countdown <= 0:
                        fire_now = True
                    else:
                        countdown -= 1
                if fire_now:
                    countdown = None
                    self.issue(op, v, tc)
                    continue
            if not self.reference and case['probes'] and self.rng.random() < 0.04:
                self.probe(v)
                continue
            if not self.step(v):
                # at rest
                if tc is not None:
                    countdown = None
                    self.issue(ops[self.ops_done], v, tc)
                    continue
                break
        self.final = self.view()
        self.quiescent = guard < 3000
        for e in d.swallowed:
            self.fail('lost-post-commit-operation:%s' % e['type'], e['msg'][:200])
        for e in d.entry_errors:
            if e['event'].startswith('job'):
                self.fail('internal-error-in-job:%s' % e['type'], e['msg'][:200])
        self.calls = {('%s' % (k,)): n for k, n in d.calls.items()}
        self.item_calls = {k[1]: n for k, n in d.calls.items() if k[0] == 'f'}
        return self


def summary(v, skip=False):
    """what the property compares: every workflow's state (+ output when it succeeded), every task's state and
    published variables.  After a skip the reference task is SUCCESS where the run has SKIPPED."""
    s = {'wf': {}, 'tasks': {}}
    for c, w in v['wf'].items():
        s['wf'][c] = (w['state'], json.dumps(w['output'], sort_keys=True) if w['state'] == 'SUCCESS' else None)
    for c, t in v['tasks'].items():
        st = t['state']
        if skip and st == 'SKIPPED' and c.split('/')[-1].startswith('f#'):
            st = 'SUCCESS'
        s['tasks'][c] = (st, json.dumps(t['published'], sort_keys=True))
    return s


def run_case(d, case):
    """rerun run + reference run + comparison; returns a JSON-able result"""
    run = Run(d, case).run()
    fails = list(run.fails)
    res = {'case': case, 'events': run.events, 'labels': run.labels, 'model_cases': run.model_cases, 'stats': dict(run.stats),
           'accepted_ops': run.accepted_ops}
    if any(f['signature'] == 'start-failed' for f in fails):
        res['failures'] = fails
        return res
    ref = Run(d, case, reference=True).run()
    for f in ref.fails:
        fails.append({'signature': 'reference-run:' + f['signature'], 'what': f['what'], 'at': -1})
    skip = case['tail'][-1] == 'skip'
    a, b = summary(run.final, skip), summary(ref.final)
    root, rroot = run.final['wf'].get('R', {}), ref.final['wf'].get('R', {})
    res['final'] = {'root': root.get('state'), 'ref_root': rroot.get('state'), 'ops_done': run.ops_done}
    if not run.quiescent or not ref.quiescent:
        fails.append({'signature': 'run-does-not-come-to-rest', 'what': 'more than 3000 steps', 'at': len(run.labels)})
    elif run.ops_done < len(case['ops']):
        fails.append({'signature': 'harness:task-did-not-fail-as-scheduled', 'at': len(run.labels),
                      'what': 'only %d of %d requests could be issued: the task was not in ERROR again; tasks %s' % (
                          run.ops_done, len(case['ops']), {c: t[0] for c, t in a['tasks'].items()})})
    else:
        place = 'depth=%d' % case['depth']
        if root.get('state') not in FINAL:
            fails.append({'signature': 'stuck-after-rerun:%s:%s' % (case['kind'], place), 'at': len(run.labels),
                          'what': 'at rest but the root workflow is %s; tasks %s' % (root.get('state'), {c: t[0] for c, t in a['tasks'].items()})})
        elif a != b:
            diff = []
            for c in sorted(set(a['wf']) | set(b['wf'])):
                if a['wf'].get(c) != b['wf'].get(c):
                    diff.append('workflow %s: %s, reference %s' % (c, a['wf'].get(c), b['wf'].get(c)))
            for c in sorted(set(a['tasks']) | set(b['tasks'])):
                if a['tasks'].get(c) != b['tasks'].get(c):
                    diff.append('task %s: %s, reference %s' % (c, a['tasks'].get(c), b['tasks'].get(c)))
            what = diff[0].split(':')[0].split(' ')[0]
            fails.append({'signature': 'differs-from-first-time-run:%s:%s:%s:%s' % (case['kind'], place, case['tail'][-1], what),
                          'at': len(run.labels), 'what': '; '.join(diff)[:900]})
        # with-items: how often each item ran
        if case['kind'] == 'items' and not any(f['signature'].startswith('differs') for f in fails):
            kk = 100 if any(case['via_items']) else 0
            want = collections.Counter()
            ok = set(range(case['items']['n'])) - set(case['items']['fail'])
            for i in range(case['items']['n']):
                want[kk + i] = 1
            failing = set(case['items']['fail'])
            for j, op in enumerate(case['ops']):
                if op['op'] != 'rerun':
                    continue
                for i in range(case['items']['n']):
                    if op['reset'] or i in failing:
                        want[kk + i] += 1
                if case['tail'][j] == 'ok':
                    failing = set()
            got = {k: n for k, n in run.item_calls.items() if k is not None and k >= kk and k < kk + 100}
            if dict(want) != got and 'cancel' not in case['tail']:
                fails.append({'signature': 'with-items-rerun:item-run-count', 'at': len(run.labels),
                              'what': 'runs per item %s, required %s (ops %s, items failing at first %s)' % (
                                  got, dict(want), [(o['op'], o['reset']) for o in case['ops']], case['items']['fail'])})
    res['failures'] = fails
    return res


# ------------------------------------------------------------------ parallel driver
_W = {}


def _worker(case):
    import logging
    logging.disable(logging.CRITICAL)
    from harness import engine_driver as ed
    d = _W.get('d')
    if d is None or d.scheduler_type != case.get('sched', 'legacy'):
        d = ed.Driver(case.get('sched', 'legacy'), 0)
        _W['d'] = d
    try:
        return run_case(d, case)
    except Exception:   # noqa: a crash of the harness is reported, not hidden
        import traceback
        return {'case': case, 'events': 0, 'labels': [], 'model_cases': [], 'stats': {}, 'accepted_ops': 0,
                'failures': [{'signature': 'harness-crash', 'what': traceback.format_exc()[-1500:], 'at': -1}]}


CORPUS = [
    # the seeded regression: depth 1, parent has a parallel branch still RUNNING, rerun as soon as the sub-workflow task failed
    {'kind': 'plain', 'depth': 1, 'via_items': [False], 'side': ['late', 'none'], 'tail': ['ok'], 'on_skip': False, 'pub_skip': False,
     'ops': [{'op': 'rerun', 'reset': True, 'when': 'rest', 'k': 1, 'via': 'engine'}], 'seed': 11, 'sched': 'legacy', 'probes': False},
    {'kind': 'plain', 'depth': 2, 'via_items': [False, False], 'side': ['late', 'none', 'none'], 'tail': ['ok'], 'on_skip': False, 'pub_skip': False,
     'ops': [{'op': 'rerun', 'reset': True, 'when': 'rest', 'k': 1, 'via': 'api'}], 'seed': 12, 'sched': 'legacy', 'probes': False},
    {'kind': 'plain', 'depth': 1, 'via_items': [False], 'side': ['late', 'none'], 'tail': ['skip'], 'on_skip': True, 'pub_skip': True,
     'ops': [{'op': 'skip', 'reset': True, 'when': 'rest', 'k': 1, 'via': 'engine'}], 'seed': 13, 'sched': 'legacy', 'probes': False},
    {'kind': 'items', 'depth': 0, 'via_items': [], 'side': ['none'], 'tail': ['ok'], 'on_skip': False, 'pub_skip': False,
     'items': {'n': 3, 'fail': [1], 'conc': None},
     'ops': [{'op': 'rerun', 'reset': False, 'when': 'rest', 'k': 1, 'via': 'engine'}], 'seed': 14, 'sched': 'legacy', 'probes': True},
    {'kind': 'items', 'depth': 1, 'via_items': [True], 'side': ['early', 'late'], 'tail': ['err', 'ok'], 'on_skip': False, 'pub_skip': False,
     'items': {'n': 3, 'fail': [0, 2], 'conc': 1},
     'ops': [{'op': 'rerun', 'reset': True, 'when': 'rest', 'k': 1, 'via': 'engine'}, {'op': 'rerun', 'reset': False, 'when': 'early', 'k': 1, 'via': 'api'}],
     'seed': 15, 'sched': 'default', 'probes': True},
    {'kind': 'retry', 'depth': 1, 'via_items': [False], 'side': ['late', 'none'], 'tail': ['ok'], 'on_skip': False, 'pub_skip': False,
     'retry': {'count': 1, 'delay': 1},
     'ops': [{'op': 'rerun', 'reset': True, 'when': 'early', 'k': 1, 'via': 'engine'}], 'seed': 16, 'sched': 'legacy', 'probes': False},
    {'kind': 'join', 'depth': 0, 'via_items': [], 'side': ['late'], 'tail': ['ok'], 'on_skip': False, 'pub_skip': False,
     'ops': [{'op': 'rerun', 'reset': True, 'when': 'rest', 'k': 1, 'via': 'engine'}], 'seed': 17, 'sched': 'legacy', 'probes': False},
    # the parent task is CANCELLED (with-items over sub-workflows, the other instance was cancelled), the root workflow too
    {'kind': 'plain', 'depth': 1, 'via_items': [True], 'side': ['early', 'none'], 'tail': ['ok'], 'on_skip': False, 'pub_skip': False, 'inst0': 'cancel',
     'ops': [{'op': 'rerun', 'reset': True, 'when': 'rest', 'k': 1, 'via': 'engine'}], 'seed': 18, 'sched': 'legacy', 'probes': False},
    # finding "rerun window" (fixed by the repo commit that makes task_handler.create_task put the rerun task to RUNNING):
    # another branch finishes between the accepted request and the delivery of the start request
    {'kind': 'plain', 'depth': 0, 'via_items': [], 'side': ['late'], 'tail': ['ok'], 'on_skip': False, 'pub_skip': False, 'hold_start': True,
     'ops': [{'op': 'rerun', 'reset': True, 'when': 'rest', 'k': 1, 'via': 'engine'}], 'seed': 21, 'sched': 'legacy', 'probes': False},
    {'kind': 'plain', 'depth': 1, 'via_items': [False], 'side': ['none', 'late'], 'tail': ['ok'], 'on_skip': False, 'pub_skip': False, 'hold_start': True,
     'ops': [{'op': 'rerun', 'reset': True, 'when': 'rest', 'k': 1, 'via': 'api'}], 'seed': 22, 'sched': 'default', 'probes': False},
    # ... or the operator is faster than the completion check of the failure itself
    {'kind': 'items', 'depth': 1, 'via_items': [False], 'side': ['none', 'none'], 'tail': ['ok'], 'on_skip': False, 'pub_skip': False, 'hold_start': True,
     'items': {'n': 2, 'fail': [1], 'conc': None},
     'ops': [{'op': 'rerun', 'reset': False, 'when': 'early', 'k': 1, 'via': 'engine'}], 'seed': 23, 'sched': 'legacy', 'probes': False},
    {'kind': 'retry', 'depth': 0, 'via_items': [], 'side': ['late'], 'tail': ['cancel'], 'on_skip': False, 'pub_skip': False, 'hold_start': True,
     'retry': {'count': 1, 'delay': 0},
     'ops': [{'op': 'rerun', 'reset': True, 'when': 'rest', 'k': 1, 'via': 'engine'}], 'seed': 24, 'sched': 'legacy', 'probes': False},
    # finding "publish-on-skip lost at a join" (fixed by the repo commit adding SKIPPED to the join's upstream filter)
    {'kind': 'join', 'depth': 0, 'via_items': [], 'side': ['early'], 'tail': ['skip'], 'on_skip': False, 'pub_skip': True,
     'ops': [{'op': 'skip', 'reset': True, 'when': 'rest', 'k': 1, 'via': 'engine'}], 'seed': 25, 'sched': 'legacy', 'probes': False},
    {'kind': 'join', 'depth': 1, 'via_items': [False], 'side': ['late', 'early'], 'tail': ['err', 'skip'], 'on_skip': False, 'pub_skip': True,
     'ops': [{'op': 'rerun', 'reset': True, 'when': 'rest', 'k': 1, 'via': 'engine'}, {'op': 'skip', 'reset': True, 'when': 'rest', 'k': 1, 'via': 'api'}],
     'seed': 26, 'sched': 'legacy', 'probes': False},
]


def gen_cases(seed, n):
    rng = random.Random('engine_rerun/%s' % seed)
    return [copy.deepcopy(c) for c in CORPUS] + [gen_case(rng, i) for i in range(n)]


def run_cases(cases, nproc=None):
    import multiprocessing as mp
    nproc = nproc or min(core.NPROC, max(1, len(cases) // 3))
    if nproc <= 1:
        return [_worker(c) for c in cases]
    with mp.get_context('spawn').Pool(nproc) as pool:
        return pool.map(_worker, cases, chunksize=max(1, len(cases) // (nproc * 6)))


def check_model(ctx, results, suite):
    """evaluate the model on every abstracted event and compare with what the engine did"""
    items = []
    for r in results:
        for m in r['model_cases']:
            items.append((r, m))
    if not items:
        return 0
    outs = core.coq_eval('c12rerun', IMPORTS, [m['expr'] for _, m in items], chunk=max(20, len(items) // core.NPROC + 1))
    bad = 0
    for (r, m), out in zip(items, outs):
        ctx.cov['disagreements_checked'] += 1
        model = norm(out)
        impl = norm(m['impl'])
        if m['kind'] in ('rerun', 'probe'):
            # the third component (start request registered) is not observable separately: compare DB and outcome
            model = model.rsplit(',', 1)[0]
            impl = impl.rsplit(',', 1)[0]
        if model != impl:
            bad += 1
            ctx.disagree(suite, {'case': r['case'], 'event': m['what'], 'kind': m['kind']}, out, m['impl'])
    return len(items)


def run(ctx, n_cases, suite='engine_rerun', case_filter=None):
    cases = gen_cases(ctx.seed, n_cases)
    if case_filter is not None:
        cases = [c for c in gen_cases(ctx.seed + 7919, 5 * n_cases) if case_filter(c)][:n_cases]
    results = run_cases(cases)
    stats = collections.Counter()
    dist = collections.Counter()
    for r in results:
        c = r['case']
        ctx.count(suite, json.dumps(c, sort_keys=True), nontrivial=r['events'] >= 8)
        ctx.cov['traces_validated_against_impl'] += 1
        dist['kind=%s' % c['kind']] += 1
        dist['depth=%d' % c['depth']] += 1
        dist['last=%s' % c['tail'][-1]] += 1
        dist['ops=%d' % len(c['ops'])] += 1
        if any(c['via_items']):
            dist['sub-workflow via with-items'] += 1
        for k, n in r['stats'].items():
            stats[k] += n
        stats['accepted-requests'] += r['accepted_ops']
        stats['events'] += r['events']
        for f in r['failures']:
            ctx.fail(f['signature'], f['what'], {'kind': 'engine-rerun', 'case': c, 'signature': f['signature'],
                                                 'yaml': build(c)[0], 'events_until_failure': r['labels'][:max(0, f['at'])][-60:]})
    n_model = check_model(ctx, results, suite)
    st = ctx.cov['suites'].setdefault(suite, {})
    st['input_distribution'] = dict(dist)
    st['observed'] = dict(stats)
    st['model_events_compared'] = n_model
    if hasattr(ctx, 'notes'):
        ctx.notes.append('observation (outside the property text, not flagged): the fix of the "rerun window" puts a rerun task to RUNNING in the rerun '
                         'transaction only when it was in ERROR; an engine-level rerun of a CANCELLED task (the REST API refuses it) still leaves the '
                         'task CANCELLED until its start request is processed, so the window exists for such reruns. All requests generated here '
                         'are for tasks in ERROR (the property quantifies over failed tasks).')
    if stats.get('expired-in-memory-scheduler-jobs') and hasattr(ctx, 'notes'):
        ctx.notes.append('observation (default scheduler, not a C12 violation): Workflow._recursive_rerun schedules the integrity check of the '
                         'sub-workflow and then locks the parent workflow; acquire_lock() expires the session, so the ScheduledJob object kept in '
                         'the scheduler\'s in-memory heap is detached+expired after the commit (DetachedInstanceError on any attribute access; the '
                         'real scheduler loses the in-memory run, the job runs at the next store poll). Seen %d times; engine_rerun.repair_scheduler '
                         'reloads such rows so that the driver can go on.' % stats['expired-in-memory-scheduler-jobs'])
    if results:
        ctx.sample({'suite': suite, 'case': results[-1]['case'], 'final': results[-1].get('final')})
    return results


def search(ctx, n_cases=600):
    """oracle-only search (no model)"""
    rng = random.Random('engine_rerun/search/%s' % ctx.seed)
    for r in run_cases([gen_case(rng, i) for i in range(n_cases)]):
        for f in r['failures']:
            ctx.fail(f['signature'], f['what'], {'kind': 'engine-rerun', 'case': r['case'], 'signature': f['signature'],
                                                 'yaml': build(r['case'])[0], 'events_until_failure': r['labels'][:max(0, f['at'])][-60:]})


def replay(obj):
    """./check C12 --replay <file>: re-run the recorded case on the real engine and print the history"""
    import logging
    logging.disable(logging.CRITICAL)
    from harness import engine_driver as ed
    r = obj.get('replay', obj)
    case = r['case']
    d = ed.Driver(case.get('sched', 'legacy'), 0)
    res = run_case(d, case)
    print(build(case)[0])
    print('case', json.dumps(case, sort_keys=True))
    for l in res['labels']:
        print('  ', l)
    run_ = Run(d, case).run()
    print('final state of the rerun run:')
    for c, w in sorted(run_.final['wf'].items()):
        print('   workflow %-28s %-9s %s' % (c, w['state'], json.dumps(w['output'], sort_keys=True)[:100] if w['state'] == 'SUCCESS' else ''))
    for c, t in sorted(run_.final['tasks'].items()):
        print('   task     %-28s %-9s %s' % (c, t['state'], json.dumps(t['published'], sort_keys=True)[:100]))
    for f in res['failures']:
        print('ORACLE %s: %s' % (f['signature'], f['what']))
    want = obj.get('signature') or r.get('signature')
    return 1 if any(f['signature'] == want for f in res['failures']) or (want is None and res['failures']) else 0


if __name__ == '__main__':
    import sys
    import time

    class _Ctx:
        seed = int(sys.argv[2]) if len(sys.argv) > 2 else 0
        cov = {'suites': {}, 'disagreements_checked': 0, 'traces_validated_against_impl': 0}
        failures = []
        disagreements = []

        def count(self, *a, **k):
            pass

        def sample(self, *a, **k):
            pass

        def fail(self, sig, what, rp):
            self.failures.append((sig, what, rp))

        def disagree(self, suite, case, model, impl):
            self.disagreements.append((case, model, impl))
    c = _Ctx()
    t0 = time.time()
    run(c, int(sys.argv[1]) if len(sys.argv) > 1 else 40)
    sigs = collections.Counter(f[0] for f in c.failures)
    print(json.dumps(c.cov['suites'], indent=1))
    for s, n in sigs.most_common():
        ex = next(f for f in c.failures if f[0] == s)
        print('FAIL %4d %s\n      %s\n      %s' % (n, s, ex[1][:600], json.dumps(ex[2]['case'], sort_keys=True)))
    for dd in c.disagreements[:5]:
        print('DISAGREE', json.dumps(dd[0])[:400], '\n   model', dd[1], '\n   impl ', dd[2])
    print('failures', len(c.failures), 'disagreements', len(c.disagreements), 'wall %.1fs' % (time.time() - t0))
