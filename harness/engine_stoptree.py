"""C11 / C10 - stop, cancel, pause and resume over the EXECUTION TREE, on the real engine (harness/engine_driver.py).

Generated programs (gen_case / build): main -> sub1 -> sub2 -> sub3 (depth 0-3).  Every level below the leaf calls the next
one from task `p<i>` (plain, or `with-items` over two instances) and optionally a second time from `q<i>`; every level may
have a parallel asynchronous action `side<i>`; the leaf runs an asynchronous action `a` followed by `b`.  All asynchronous
actions complete at seeded random points, all engine events are delivered in a seeded random order.

Operator requests (1-4 per case) at seeded random points, on the root or on any nested execution that exists at that time:
stop SUCCESS / ERROR / CANCELLED with a message, pause, resume - in particular pause (root or nested) followed by cancel,
cancel while a child's result is in flight, stop between a task completion and its follow-up.

  correspondence  the DB tree (workflow executions with state and state_info, their task executions with state, the
                  sub-workflow executions of those) is abstracted before and after every operator request and every
                  delivery of a failed / cancelled child's result to its parent and compared with coq/Model/StopTree.v
                  (stop_at / pause_at / resume_at / deliver_at / notify_at evaluated by vm_compute; notify = the scheduled job that
                  reports the pause / resume of a sub-workflow to its with-items parent task)
  oracle          the property text: C11 - an accepted stop holds the requested state with the given message until the
                  end, output included; after a cancel every descendant that was unfinished is CANCELLED at once and its
                  parent task is CANCELLED once the run has drained; every finished sub-workflow is reported to its parent
                  exactly once; no task is created in a stopped workflow afterwards, after a cancel nowhere below it either: a
                  sub-workflow whose start request was on its way is created CANCELLED, never owns a task, and its parent task
                  ends CANCELLED.  C10 - after an acknowledged pause the workflow and every sub-workflow below it that
                  was not finished is PAUSED.

30% of the nested cases put policies on the calling tasks (wait-after, also through task-defaults; wait-before; retry count 1):
ORACLE ONLY, no model comparison (DELAYED task states and retries are outside Model/StopTree.v); the run is drained with the
virtual clock advancing, so a parent task left DELAYED for ever shows as cancel:parent-task-not-CANCELLED:*.

corpus/stoptree/*.json: minimal histories of the findings of this part (A fixed by repo commit 404dec69; B, C by 85c5b051; D =
scenario of a seeded change), all must replay clean; they run first in every check.

SELFTEST (scratch worktree = /repo HEAD 85c5b051 + the change; `VERIF_REPO=<wt> ./check C11` resp.
`PYTHONPATH=<wt>:/verif python -m harness.engine_stoptree 260 0`):
  S   seeded: workflow_handler.stop_workflow cascades only through RUNNING task executions          VIOLATION (exit 1)
      cancel:descendant-not-CANCELLED:was-PAUSED / :was-RUNNING, cancel:descendant-not-CANCELLED-at-the-end,
      cancel:parent-task-not-CANCELLED:plain / :with-items, task-created-after-cancelled; 43 model disagreements (stop_at)
  M1  workflows._cancel_workflow does not report to the parent (the parent-task cancel is dropped)  CAUGHT
      child-reported-never (361x), cancel:parent-task-not-CANCELLED:plain / :with-items; 161 model disagreements (sent, deliver_at)
  M2  workflows._cancel_workflow without its `completed -> return` guard (a child reports twice)   CAUGHT
      child-reported-twice, stopped-workflow-changed:CANCELLED, stop-changed-finished-workflow; 22 model disagreements
  M3  workflow_handler._pause_subworkflows skips finished sub-workflows again                      CAUGHT
      pause:sub-workflow-not-PAUSED (corpus C deviates from its expectation); 2 model disagreements (pause_at)
Observation (not flagged, kept by 85c5b051): when a RUNNING sub-workflow below a FINISHED workflow is paused, its Plain
parent task is first updated to PAUSED, then pause_workflow of the finished workflow raises inside _on_action_update, which
catches it and force-fails that parent task (ERROR, whatever its state was); the model mirrors this (pause_down).
"""
import collections
import copy
import json
import random

from harness import core

IMPORTS = ['Gen.States', 'Model.StopTree']
LEVELS = ['main', 'sub1', 'sub2', 'sub3']
FINAL = ('SUCCESS', 'ERROR', 'CANCELLED')
RULE = ('programs: call chain main -> sub1 -> sub2 -> sub3 of depth 0-3, per level one or two sub-workflow tasks (plain or with-items '
        'over 2 instances) and an optional parallel asynchronous branch, leaf = asynchronous action + follow-up; 1-4 operator requests '
        '(stop SUCCESS/ERROR/CANCELLED, pause, resume; 25% pause first and cancel later; 20% pause one item\'s sub-workflow of a with-items task / pause, '
        'resume one item, pause again) on the root or a nested execution, '
        'each k events after the previous one; schedules: seeded random walk over the enabled events and the completions of the '
        'asynchronous actions (25% default scheduler); distinct = distinct case; non-trivial = at least 8 events')


# ------------------------------------------------------------------ programs
def gen_case(rng, i=0):
    depth = [1, 2, 2, 3, 1, 0, 2, 3][i % 8] if rng.random() < 0.85 else rng.choice([0, 1, 2, 3])
    calls = []
    for lv in range(depth):
        c = [rng.choice(['plain', 'plain', 'items'])]
        if rng.random() < 0.3:
            c.append(rng.choice(['plain', 'items']))
        calls.append(c)
    side = [rng.random() < 0.4 for _ in range(depth + 1)]
    # 30% of the nested cases: policies on the calling (sub-workflow) tasks - wait-after (on the task or through task-defaults),
    # wait-before, retry.  These cases are ORACLE ONLY (the DELAYED task state is outside Model/StopTree.v)
    policies = None
    if depth >= 1 and rng.random() < 0.3:
        policies = {'defaults': rng.random() < 0.3,
                    'tasks': [[rng.choice(['wait-after', 'wait-after', 'wait-before', 'retry', None]) for _ in c] for c in calls]}
    r = rng.random()
    msgs = ['m1', 'm2', 'm3', 'm4']
    sel = lambda: {'depth': rng.choice([0, 0, 1, 1, 2, 3]), 'pick': rng.randrange(8)}   # noqa
    if r < 0.2 and depth >= 1:
        # a with-items sub-workflow task with both items in flight: (a) pause ONE item's sub-workflow (the pause is reported upwards
        # by a scheduled job and must come down again to the sibling), (b) pause the parent, resume one item's sub-workflow only,
        # pause the parent again
        lv = rng.randrange(depth)
        calls[lv][0] = 'items'
        one = {'depth': lv + 1, 'pick': rng.randrange(8)}
        if rng.random() < 0.5:
            ops = [{'op': 'pause', 'target': one}]
            if rng.random() < 0.5:
                ops.append({'op': 'resume', 'target': {'depth': rng.choice([0, lv]), 'pick': 0}})
        else:
            par = {'depth': lv, 'pick': rng.randrange(8)}
            ops = [{'op': 'pause', 'target': par}, {'op': 'resume', 'target': one}, {'op': 'pause', 'target': dict(par)}]
        for o in ops:
            o['late'] = True
    elif r < 0.45:
        ops = [{'op': 'pause', 'target': sel()}, {'op': 'stop', 'state': 'CANCELLED', 'target': sel()}]
        if rng.random() < 0.3:
            ops.append({'op': 'resume', 'target': sel()})
    elif r < 0.75:
        ops = [{'op': 'stop', 'state': rng.choice(['CANCELLED', 'CANCELLED', 'ERROR', 'SUCCESS']), 'target': sel()}]
        if rng.random() < 0.4:
            ops.append({'op': 'stop', 'state': rng.choice(['CANCELLED', 'ERROR', 'SUCCESS']), 'target': sel()})
    else:
        ops = []
        for _ in range(rng.randrange(2, 5)):
            k = rng.choice(['pause', 'resume', 'stop', 'stop'])
            o = {'op': k, 'target': sel()}
            if k == 'stop':
                o['state'] = rng.choice(['CANCELLED', 'ERROR', 'SUCCESS'])
            ops.append(o)
    for j, o in enumerate(ops):
        o['k'] = rng.randrange(0, 14) if j == 0 else rng.randrange(0, 8)
        if o.pop('late', False) and j == 0:
            o['k'] = rng.randrange(8, 40)      # late enough for the sub-workflows of the items to exist
        if o['op'] == 'stop':
            o['msg'] = msgs[j]
    case = {'depth': depth, 'calls': calls, 'side': side, 'ops': ops, 'seed': rng.randrange(1 << 30),
            'sched': 'default' if rng.random() < 0.25 else 'legacy'}
    if policies:
        case['policies'] = policies
    return case


def build(case):
    depth = case['depth']
    y = ["version: '2.0'"]
    pol = case.get('policies')
    for lv in range(depth + 1):
        y += ['%s:' % LEVELS[lv]]
        if pol and pol['defaults'] and lv < depth:
            y += ['  task-defaults:', '    wait-after: 1']
        y += ['  output:', '    o%d: <%% $.get(r%d, null) %%>' % (lv, lv), '    s%d: <%% $.get(sv%d, null) %%>' % (lv, lv), '  tasks:']
        if case['side'][lv]:
            y += ['    side%d:' % lv, '      action: verif.act tag="side%d" sync=false' % lv, '      publish:', '        sv%d: <%% task().result %%>' % lv]
        if lv < depth:
            for ci, kind in enumerate(case['calls'][lv]):
                name = ('p%d' if ci == 0 else 'q%d') % lv
                y.append('    %s:' % name)
                if kind == 'items':
                    y += ['      with-items: kk in [0, 1]', '      workflow: %s' % LEVELS[lv + 1]]
                else:
                    y += ['      workflow: %s' % LEVELS[lv + 1]]
                pk = pol['tasks'][lv][ci] if pol else None
                if pk == 'wait-after' and not pol['defaults']:
                    y += ['      wait-after: 1']
                elif pk == 'wait-before':
                    y += ['      wait-before: 1']
                elif pk == 'retry':
                    y += ['      retry:', '        count: 1', '        delay: 1']
                if ci == 0:
                    y += ['      publish:', '        r%d: <%% task().result %%>' % lv, '      on-success: [after%d]' % lv]
            y += ['    after%d:' % lv, '      action: verif.act tag="after%d" value=%d' % (lv, 30 + lv)]
        else:
            y += ['    a:', '      action: verif.act tag="a" sync=false', '      publish:', '        r%d: <%% task().result %%>' % lv,
                  '      on-success: [b]', '    b:', '      action: verif.act tag="b" value=2']
    return '\n'.join(y) + '\n'


# ------------------------------------------------------------------ DB tree
def snapshot(d):
    """All rows needed for the tree, keyed by DB id (column queries: the JSON columns of the models are deferred, loading
    whole rows costs one query per row and column)."""
    from mistral.db.v2 import api as db_api
    from mistral.db.v2.sqlalchemy import models as m
    from mistral.db.sqlalchemy import base as b
    from mistral import context as auth_context
    auth_context.set_ctx(d._ctx())
    snap = {'wf': {}, 'task': {}}
    W, T = m.WorkflowExecution, m.TaskExecution
    with db_api.transaction():
        ses = b._get_thread_local_session()
        for (wid, state, info, pt, rc, name, output, created) in ses.query(
                W.id, W.state, W.state_info, W.task_execution_id, W.runtime_context, W.workflow_name, W.output, W.created_at).all():
            snap['wf'][wid] = {'state': state, 'info': info, 'ptask': pt or None, 'index': (rc or {}).get('index', 0) or 0, 'name': name,
                               'output': json.dumps(d_strip(output), sort_keys=True, default=str), 'created': str(created),
                               'order': d.uuid_order.get(wid, 1 << 60)}
        for (tid, wf, state, name, created, spec, typ) in ses.query(T.id, T.workflow_execution_id, T.state, T.name, T.created_at, T.spec, T.type).all():
            snap['task'][tid] = {'wf': wf, 'state': state, 'name': name, 'created': str(created), 'items': bool((spec or {}).get('with-items')),
                                 'order': d.uuid_order.get(tid, 1 << 60)}
    return snap


def d_strip(o):
    if isinstance(o, dict):
        return {k: d_strip(v) for k, v in o.items() if not (isinstance(k, str) and k.startswith('__'))}
    if isinstance(o, (list, tuple)):
        return [d_strip(x) for x in o]
    return o


def tree_ids(snap):
    """-> (root id, {wf id: [task ids in creation order]}, {task id: [sub-workflow ids in index / creation order]})"""
    roots = [w for w, r in snap['wf'].items() if r['ptask'] is None]
    tasks = collections.defaultdict(list)
    subs = collections.defaultdict(list)
    for t, r in snap['task'].items():
        tasks[r['wf']].append(t)
    for w, r in snap['wf'].items():
        if r['ptask'] is not None:
            subs[r['ptask']].append(w)
    for w in tasks:
        tasks[w].sort(key=lambda t: (snap['task'][t]['created'], snap['task'][t]['name'], snap['task'][t]['order']))
    for t in subs:
        subs[t].sort(key=lambda w: (snap['wf'][w]['index'], snap['wf'][w]['created'], snap['wf'][w]['order']))
    return (roots[0] if roots else None), tasks, subs


def paths(snap):
    """{wf id: path string}, canonical: R, R/p0.0, R/p0.0/p1.1 ..."""
    root, tasks, subs = tree_ids(snap)
    out = {}

    def walk(w, p):
        out[w] = p
        for t in tasks.get(w, []):
            for i, s in enumerate(subs.get(t, [])):
                walk(s, '%s/%s.%d' % (p, snap['task'][t]['name'], i))
    if root:
        walk(root, 'R')
    return out


def descendants(snap, w):
    root, tasks, subs = tree_ids(snap)
    out = []

    def walk(x):
        for t in tasks.get(x, []):
            for s in subs.get(t, []):
                out.append(s)
                walk(s)
    walk(w)
    return out


def coq_state(s):
    return 'RUNNING_DELAYED' if s == 'DELAYED' else s


def info_tag(info, msgs):
    """state_info abstracted: 0 = none, 1+i = the i-th operator message, 9 = any other text"""
    if info is None:
        return 0
    for i, m in enumerate(msgs):
        if info == m:
            return 1 + i
    return 9


# ------------------------------------------------------------------ results sent to the parent
_SENT = collections.Counter()     # child workflow execution id -> calls of Workflow._send_result_to_parent_workflow


def install_send_counter():
    """count the decisions to report to the parent where they are taken (inside the transaction); the message itself
    is put on the wire by a post-commit operation and is counted there a second time (Run.count_new_handoffs)"""
    from mistral.engine import workflows
    if getattr(workflows.Workflow, '_verif_counted', False):
        return
    orig = workflows.Workflow._send_result_to_parent_workflow

    def counted(self):
        _SENT[self.wf_ex.id] += 1
        return orig(self)
    workflows.Workflow._send_result_to_parent_workflow = counted
    workflows.Workflow._verif_counted = True


# ------------------------------------------------------------------ one run
class Run:
    def __init__(self, d, case):
        self.d = d
        self.case = case
        self.rng = random.Random('stoptree/%s' % case['seed'])
        self.fails = []
        self.labels = []
        self.model_cases = []
        self.events = 0
        self.stats = collections.Counter()
        self.held = {}          # wf id -> expectations recorded at an accepted stop
        self.frozen = {}        # wf id -> (set of task ids, set of sub-workflow ids) that may exist in it from now on
        self.late = {}          # sub-workflows created below a CANCELLED workflow after the cancel
        self.sent = collections.Counter()   # child wf id -> results sent to the parent
        self.msgs = [o.get('msg') for o in case['ops'] if o.get('msg')]

    def fail(self, signature, what):
        self.fails.append({'signature': signature, 'what': what, 'at': len(self.labels)})

    # ---- events
    def async_candidates(self):
        """the asynchronous actions that are RUNNING: [(label, action execution id)] in a seed-determined order"""
        from mistral.db.v2 import api as db_api
        from mistral import context as auth_context
        d = self.d
        auth_context.set_ctx(d._ctx())
        out = []
        from mistral.db.v2.sqlalchemy import models as m
        from mistral.db.sqlalchemy import base as b
        with db_api.transaction():
            A = m.ActionExecution
            for (aid, inp) in b._get_thread_local_session().query(A.id, A.input).filter(A.state == 'RUNNING').all():
                if (inp or {}).get('sync') is False:
                    out.append((d.uuid_order.get(aid, 1 << 60), 'async:%s' % (inp or {}).get('tag'), aid))
        return [(l, i) for _, l, i in sorted(out)]

    def step(self):
        d = self.d
        evs = [e for e in d.enabled() if not d._is_integrity_job(e)]
        asyncs = self.async_candidates()
        n = len(evs) + len(asyncs)
        if n == 0:
            return d._tick_non_integrity()
        k = self.rng.randrange(n)
        if k >= len(evs):
            self.complete_async(asyncs[k - len(evs)])
        else:
            self.fire(evs[k])
        return True

    def complete_async(self, cand):
        from mistral_lib import actions as ml_actions
        label, aid = cand
        self.note_sent_before()
        out = self.d.operator('action_complete', aid, ml_actions.Result(data=5))
        self.events += 1
        self.labels.append('%s -> %s' % (label, out))
        if out == 'internal':
            e = self.d.entry_errors[-1] if self.d.entry_errors else {'type': '?', 'msg': '?'}
            self.fail('internal-error:%s' % e['type'], 'completing %s: %s' % (label, e['msg'][:200]))
        self.after_any_event()

    def fire(self, ev):
        d = self.d
        label = ev[0]
        handoff = None
        if ev[0] == 'item':
            it = d.pending[ev[1]]
            label = d.describe(it)
            p = it['payload']
            if it['kind'] == 'rpc' and p['method'] == 'on_action_complete' and p['kw'].get('wf_action'):
                handoff = ('rpc', p['kw']['action_ex_id'])
            if it['kind'] == 'rpc' and p['method'] == 'start_workflow' and p['kw'].get('task_execution_id'):
                handoff = ('start', p['kw']['task_execution_id'])
            if it['kind'] == 'rpc' and p['method'] == 'start_task' and p['kw'].get('first_run'):
                handoff = ('start', p['kw']['task_ex_id'])     # (compared when it creates sub-workflow executions)
        else:
            j = d._job_by_id(ev[1])
            if j:
                label = 'job:%s' % j['func']
                if j['func'] == '_scheduled_on_action_complete' and (j['args'] or {}).get('wf_action'):
                    handoff = ('job', j['args']['action_ex_id'])
                if j['func'] == '_scheduled_on_action_update' and (j['args'] or {}).get('wf_action'):
                    handoff = ('update', j['args']['action_ex_id'])
        self.note_sent_before()
        before = self.snap() if handoff else None
        out = d.fire(ev)
        self.events += 1
        self.labels.append('%s -> %s' % (label, out))
        if out == 'internal':
            e = d.entry_errors[-1] if d.entry_errors else {'type': '?', 'msg': '?'}
            self.fail('internal-error:%s' % e['type'], 'non-declared exception escaped %s: %s' % (label, e['msg'][:200]))
        if handoff:
            after = self.snap()
            child = handoff[1]
            pt = before['wf'].get(child, {}).get('ptask')
            if handoff[0] == 'start':
                self.start_event(before, after, child, out)
            elif handoff[0] == 'update':
                # the pause / resume of a sub-workflow is reported to its with-items parent task
                if child in before['wf']:
                    self.model_event('notify', before, after, child, out, self.labels[-1])
            elif pt is not None and pt in before['task']:
                items = before['task'][pt]['items']
                # a Plain parent task processes the result when the message is delivered, an Items one in the scheduled job
                if (handoff[0] == 'rpc' and not items) or (handoff[0] == 'job' and items):
                    self.model_event('deliver', before, after, child, out, self.labels[-1])
        self.after_any_event()

    def start_event(self, before, after, task_id, out):
        """the start_workflow request of a sub-workflow task is processed: compare the new execution with start_child_at"""
        if task_id not in before['task'] or out != 'ok' or self.case.get('policies'):
            return
        new = [w for w, r in after['wf'].items() if r['ptask'] == task_id and w not in before['wf']]
        if not new:
            return
        owner = before['task'][task_id]['wf']
        term, addr = self.coq_tree(before, before)
        if owner not in addr:
            return
        root, tasks, subs = tree_ids(before)
        ti = tasks[owner].index(task_id)
        base = {'wf': dict(before['wf']), 'task': dict(before['task']), 'sent': before['sent']}
        for x in new:
            base['wf'][x] = dict(after['wf'][x], index=10 ** 6 + after['wf'][x]['index'])     # the model appends the new executions
            if after['wf'][x]['state'] != 'RUNNING':
                # (a RUNNING one is shown bare: its first tasks come from the workflow definition)
                for t, r in after['task'].items():
                    if r['wf'] == x:
                        base['task'][t] = r
        impl_tree, _ = self.coq_tree(after, base, show=True)
        path = core.coq_list(['(%d, %d)' % q for q in addr[owner]])
        self.model_cases.append({'kind': 'start', 'expr': 'show_result (start_child_at %s %d %d %s)' % (path, ti, len(new), term),
                                 'impl': [impl_tree, out], 'what': self.labels[-1]})

    def snap(self):
        self.count_new_handoffs()
        sn = snapshot(self.d)
        sn['sent'] = dict(_SENT)
        return sn

    # ---- results sent to parents: count the hand-off messages as they are put on the wire
    def note_sent_before(self):
        self._seen_pids = set(self.d.pending)

    def count_new_handoffs(self):
        for pid, it in self.d.pending.items():
            if pid in getattr(self, '_seen_pids', ()):
                continue
            p = it['payload']
            if it['kind'] == 'rpc' and p['method'] == 'on_action_complete' and p['kw'].get('wf_action'):
                self.sent[p['kw']['action_ex_id']] += 1
        self._seen_pids = set(self.d.pending)

    def after_any_event(self):
        """oracles that hold at every point of the run"""
        self.count_new_handoffs()
        snap = snapshot(self.d)
        pth = paths(snap)
        # C10: whenever an execution BECOMES PAUSED - by an operator request or because the pause of one of its
        # sub-workflows was reported upwards (at once through a Plain task, by a scheduled job through a with-items task) -
        # no sub-workflow below it is left RUNNING
        prev = getattr(self, 'prev_states', {})
        for w, r in snap['wf'].items():
            if r['state'] == 'PAUSED' and prev.get(w) not in (None, 'PAUSED'):
                left = [s for s in descendants(snap, w) if snap['wf'][s]['state'] == 'RUNNING']
                if left:
                    pt = snap['task'].get(snap['wf'][left[0]]['ptask'], {})
                    self.fail('pause:running-sub-workflow-below-newly-paused-workflow:%s-task' % ('with-items' if pt.get('items') else 'plain'),
                              'workflow %s became PAUSED (%s) while its sub-workflow %s is RUNNING (parent task %s is %s)' % (
                                  pth.get(w), self.labels[-1] if self.labels else '?', [pth.get(s) for s in left], pt.get('name'), pt.get('state')))
        self.prev_states = {w: r['state'] for w, r in snap['wf'].items()}
        if not self.held and not self.frozen:
            return
        for w, exp in self.held.items():
            r = snap['wf'].get(w)
            if r is None:
                continue
            if (r['state'], r['info']) != (exp['state'], exp['info']):
                self.fail('stopped-workflow-changed:%s' % exp['state'],
                          'workflow %s was stopped as %s with message %r, later it is %s / %r' % (pth.get(w), exp['state'], exp['info'], r['state'], r['info']))
            elif r['output'] != exp['output']:
                self.fail('stopped-workflow-output-changed:%s' % exp['state'],
                          'output of the stopped workflow %s changed from %s to %s' % (pth.get(w), exp['output'][:150], r['output'][:150]))
        for w, (tset, wset, why) in self.frozen.items():
            new_t = [t for t, r in snap['task'].items() if r['wf'] == w and t not in tset]
            if new_t:
                self.fail('task-created-after-%s' % why, 'task %s created in workflow %s after it was %s' % (
                    [snap['task'][t]['name'] for t in new_t], pth.get(w), why))
                tset.update(new_t)
            new_w = [s for s, r in snap['wf'].items() if r['ptask'] is not None and snap['task'].get(r['ptask'], {}).get('wf') == w and s not in wset]
            if new_w:
                wset.update(new_w)
                if why == 'cancelled' and snap['wf'][w]['state'] == 'CANCELLED':
                    # the sub-workflow did not exist at the time of the cancel: the start request of its parent task (or of the
                    # sub-workflow itself) was still on its way.  It must be cancelled at once, never own a task, and its parent
                    # task must end CANCELLED (checked from now on / at the end)
                    for x in new_w:
                        self.late[x] = {'owner': w, 'task_live': snap['task'][snap['wf'][x]['ptask']]['state'] not in FINAL + ('SKIPPED',)}
                    self.stats['sub-workflow-started-below-cancelled-workflow'] += len(new_w)
                elif why == 'cancelled':
                    self.stats['sub-workflow-started-below-finished-not-cancelled-workflow'] += len(new_w)
        for x, rec in self.late.items():
            ts = [r['name'] for t, r in snap['task'].items() if r['wf'] == x]
            if ts and not rec.get('flagged'):
                rec['flagged'] = True
                self.fail('cancel:late-subworkflow-created-tasks', 'sub-workflow %s, started below workflow %s after that was cancelled (its start request '
                          'was on its way), is %s and created the tasks %s below the cancelled workflow' % (pth.get(x), pth.get(rec['owner']), snap['wf'][x]['state'], ts))

    # ---- operator requests
    def pick_target(self, snap, sel):
        pth = paths(snap)
        by_depth = collections.defaultdict(list)
        for w, p in pth.items():
            by_depth[p.count('/')].append(w)
        dep = min(sel['depth'], max(by_depth) if by_depth else 0)
        while dep > 0 and not by_depth.get(dep):
            dep -= 1
        c = sorted(by_depth[dep], key=lambda w: pth[w])
        return c[sel['pick'] % len(c)]

    def issue(self, op):
        d = self.d
        self.note_sent_before()
        before = self.snap()
        if not before['wf']:
            return
        w = self.pick_target(before, op['target'])
        pth = paths(before)
        self.note_sent_before()
        if op['op'] == 'stop':
            out = d.operator('stop', w, op['state'], op['msg'])
        elif op['op'] == 'pause':
            out = d.operator('pause', w)
        else:
            out = d.operator('resume', w)
        from harness.engine_rerun import repair_scheduler
        repair_scheduler(d)
        after = self.snap()
        label = '%s%s:%s -> %s' % (op['op'], ('(%s,%s)' % (op['state'], op['msg'])) if op['op'] == 'stop' else '', pth[w], out)
        self.labels.append(label)
        self.stats['%s:%s' % (op['op'] if op['op'] != 'stop' else op['state'], 'root' if pth[w] == 'R' else 'nested')] += 1
        if out == 'internal':
            e = d.entry_errors[-1] if d.entry_errors else {'type': '?', 'msg': '?'}
            self.fail('internal-error:%s' % e['type'], 'non-declared exception escaped %s: %s' % (label, e['msg'][:200]))
        self.model_event(op['op'] if op['op'] != 'stop' else 'stop:%s:%d' % (op['state'], 1 + self.msgs.index(op['msg'])), before, after, w, out, label)
        # ---- oracles "now"
        st0 = before['wf'][w]['state']
        desc = descendants(before, w)
        unfinished = [s for s in desc if before['wf'][s]['state'] not in FINAL]
        if out == 'declared':
            _SENT.clear()
            _SENT.update(before['sent'])      # the transaction was rolled back
            after['sent'] = dict(before['sent'])
            if self.comparable(before) != self.comparable(after, before):
                self.fail('refused-%s-changed-state' % op['op'], '%s was refused with a declared error but rows changed' % label)
        if op['op'] == 'stop' and out == 'ok':
            now = after['wf'][w]
            if st0 not in FINAL:
                if (now['state'], now['info']) != (op['state'], op['msg']):
                    self.fail('stop-not-held:%s' % op['state'], 'after %s the workflow is %s with message %r' % (label, now['state'], now['info']))
                self.held[w] = {'state': now['state'], 'info': now['info'], 'output': now['output']}
                self.frozen.setdefault(w, (set(t for t, r in after['task'].items() if r['wf'] == w),
                                           set(s for s, r in after['wf'].items() if r['ptask'] is not None and after['task'][r['ptask']]['wf'] == w),
                                           'cancelled' if op['state'] == 'CANCELLED' else 'stopped'))
            elif (now['state'], now['info'], now['output']) != (before['wf'][w]['state'], before['wf'][w]['info'], before['wf'][w]['output']):
                self.fail('stop-changed-finished-workflow', 'after %s the finished workflow (%s) is %s / %r' % (label, st0, now['state'], now['info']))
            if op['state'] == 'CANCELLED':
                self.stats['cancel-with-unfinished-descendants' if unfinished else 'cancel-without'] += 1
                if any(before['wf'][s]['state'] == 'PAUSED' for s in unfinished):
                    self.stats['cancel-of-paused-subtree'] += 1
                for s in unfinished:
                    if after['wf'][s]['state'] != 'CANCELLED':
                        self.fail('cancel:descendant-not-CANCELLED:was-%s' % before['wf'][s]['state'],
                                  'after %s the sub-workflow %s (was %s) is %s' % (label, pth[s], before['wf'][s]['state'], after['wf'][s]['state']))
                    else:
                        self.held.setdefault(s, {'state': 'CANCELLED', 'info': after['wf'][s]['info'], 'output': after['wf'][s]['output']})
                for s in [w] + desc:
                    self.frozen.setdefault(s, (set(t for t, r in after['task'].items() if r['wf'] == s),
                                               set(x for x, r in after['wf'].items() if r['ptask'] is not None and after['task'][r['ptask']]['wf'] == s),
                                               'cancelled'))
                self.cancelled_sets = getattr(self, 'cancelled_sets', [])
                # (sub-workflow, was its parent task unfinished at that time: a finished task never changes again)
                self.cancelled_sets.append((label, [(s, before['task'][before['wf'][s]['ptask']]['state'] not in FINAL + ('SKIPPED',))
                                                    for s in unfinished]))
        if op['op'] == 'pause' and out == 'ok':
            self.stats['pause-with-unfinished-descendants' if unfinished else 'pause-without'] += 1
            for s in [w] + unfinished:
                if before['wf'][s]['state'] in FINAL:
                    continue
                if after['wf'][s]['state'] != 'PAUSED':
                    self.fail('pause:%s-not-PAUSED' % ('workflow' if s == w else 'sub-workflow'),
                              'after the acknowledged %s workflow %s (was %s) is %s' % (label, pth[s], before['wf'][s]['state'], after['wf'][s]['state']))
        self.after_any_event()

    # ---- correspondence
    def comparable(self, snap, base=None):
        base = base or snap
        return json.dumps([[w, snap['wf'][w]['state'], snap['wf'][w]['info']] for w in sorted(base['wf'])] +
                          [[t, snap['task'][t]['state']] for t in sorted(base['task'])])

    def coq_tree(self, snap, base, show=False):
        """the tree of `base` rows with the states of `snap`: Coq term (show=False) or the text Coq prints for it"""
        root, tasks, subs = tree_ids(base)
        addr = {}

        def node(w, path, top):
            addr[w] = path
            r = snap['wf'][w]
            ts = []
            for ti, t in enumerate(tasks.get(w, [])):
                tr = snap['task'][t]
                ss = [node(s, path + [(ti, si)], False) for si, s in enumerate(subs.get(t, []))]
                kind = 'Items' if base['task'][t]['items'] else 'Plain'
                ts.append('(%s, %s, [%s])' % (coq_state(tr['state']), kind, '; '.join(ss)))
            txt = 'mkN %s %d %d [%s]' % (coq_state(r['state']), info_tag(r['info'], self.msgs), snap['sent'].get(w, 0), '; '.join(ts))
            return txt
        t = node(root, [], True)
        return (t if show else '(%s)' % t), addr

    def model_event(self, kind, before, after, w, out, label):
        if self.case.get('policies'):
            return      # oracle only: policies (DELAYED tasks, retries) are outside the tree model
        term, addr = self.coq_tree(before, before)
        if w not in addr:
            return
        path = core.coq_list(['(%d, %d)' % p for p in addr[w]])
        if kind.startswith('stop:'):
            _, st, tag = kind.split(':')
            expr = 'show_result (stop_at %s %s %s %s)' % (st, tag, path, term)
        elif kind == 'pause':
            expr = 'show_result (pause_at %s %s)' % (path, term)
        elif kind == 'resume':
            expr = 'show_result (resume_at %s %s)' % (path, term)
        elif kind == 'notify':
            expr = 'show_result (notify_at %s %s)' % (path, term)
        else:
            expr = 'show_result (deliver_at %s %s)' % (path, term)
        impl_tree, _ = self.coq_tree(after, before, show=True)
        self.model_cases.append({'kind': kind, 'expr': expr, 'impl': [impl_tree, out], 'what': label})

    # ---- whole run
    def run(self):
        d, case = self.d, self.case
        install_send_counter()
        _SENT.clear()
        d.reset(case['seed'] % 100000)
        d.create_workflows(build(case))
        d.oracle = {}
        out, wid = d.start_workflow('main', {})
        if out != 'ok':
            self.fail('start-failed', str(wid)[:200])
            return self
        self.note_sent_before()
        ops = list(case['ops'])
        countdown = ops[0]['k'] if ops else None
        guard = 0
        while guard < 4000:
            guard += 1
            if ops and countdown is not None and countdown <= 0:
                op = ops.pop(0)
                self.issue(op)
                countdown = ops[0]['k'] if ops else None
                continue
            if not self.step():
                if ops:
                    countdown = 0     # at rest (e.g. everything is PAUSED): the next request comes now
                    continue
                break
            if countdown is not None:
                countdown -= 1
        self.quiescent = guard < 4000
        self.final = snapshot(d)
        self.final_oracles()
        for e in d.swallowed:
            self.fail('lost-post-commit-operation:%s' % e['type'], e['msg'][:200])
        for e in d.entry_errors:
            if e['event'].startswith('job'):
                self.fail('internal-error-in-job:%s' % e['type'], e['msg'][:200])
        return self

    def final_oracles(self):
        snap = self.final
        pth = paths(snap)
        if not self.quiescent:
            self.fail('run-does-not-come-to-rest', 'more than 4000 steps')
            return
        # after a cancel: every descendant that was unfinished is CANCELLED and so is its parent task
        for label, ws in getattr(self, 'cancelled_sets', []):
            for s, task_was_live in ws:
                r = snap['wf'][s]
                pt = snap['task'][r['ptask']]
                if r['state'] != 'CANCELLED':
                    self.fail('cancel:descendant-not-CANCELLED-at-the-end', 'at the end the sub-workflow %s below %s is %s' % (pth[s], label, r['state']))
                if task_was_live and pt['state'] != 'CANCELLED':
                    self.fail('cancel:parent-task-not-CANCELLED:%s' % ('with-items' if pt['items'] else 'plain'),
                              'at the end the parent task %s of the cancelled sub-workflow %s (%s) is %s' % (pt['name'], pth[s], label, pt['state']))
        # a sub-workflow started below a cancelled workflow after the cancel: CANCELLED, and so is its parent task
        for x, rec in self.late.items():
            r = snap['wf'][x]
            pt = snap['task'][r['ptask']]
            if r['state'] != 'CANCELLED':
                self.fail('cancel:late-subworkflow-not-CANCELLED', 'at the end the sub-workflow %s started below the cancelled workflow %s is %s' % (
                    pth[x], pth[rec['owner']], r['state']))
            elif rec['task_live'] and pt['state'] != 'CANCELLED':
                self.fail('cancel:late-subworkflow-parent-task-not-CANCELLED', 'at the end the parent task %s of the sub-workflow %s started below the '
                          'cancelled workflow %s is %s' % (pt['name'], pth[x], pth[rec['owner']], pt['state']))
        # every finished sub-workflow was reported to its parent exactly once
        for w, r in snap['wf'].items():
            if r['ptask'] is None:
                continue
            n = self.sent[w]
            if r['state'] in FINAL and n != 1:
                self.fail('child-reported-%s' % ('twice' if n > 1 else 'never'), 'the %s sub-workflow %s sent %d results to its parent' % (r['state'], pth[w], n))
            if r['state'] not in FINAL and n != 0:
                self.fail('unfinished-child-reported', 'the %s sub-workflow %s sent %d results to its parent' % (r['state'], pth[w], n))


def run_case(d, case):
    run = Run(d, case).run()
    return {'case': case, 'events': run.events, 'labels': run.labels, 'model_cases': run.model_cases, 'stats': dict(run.stats),
            'failures': run.fails, 'final': {paths(run.final)[w]: r['state'] for w, r in run.final['wf'].items()} if hasattr(run, 'final') else {}}


# ------------------------------------------------------------------ parallel driver
_W = {}


def _worker(case):
    import logging
    logging.disable(logging.CRITICAL)
    from harness import engine_driver as ed
    d = _W.get('d')
    if d is None or d.scheduler_type != case.get('sched', 'legacy'):
        d = ed.Driver(case.get('sched', 'legacy'), 0)
        _W['d'] = d
    try:
        return run_case(d, case)
    except Exception:   # noqa: a crash of the harness is reported, not hidden
        import traceback
        return {'case': case, 'events': 0, 'labels': [], 'model_cases': [], 'stats': {}, 'final': {},
                'failures': [{'signature': 'harness-crash', 'what': traceback.format_exc()[-1500:], 'at': -1}]}


CORPUS = [
    # the seeded regression: pause of the root, then cancel of the root
    {'depth': 2, 'calls': [['plain'], ['plain']], 'side': [False, False, False], 'seed': 31, 'sched': 'legacy',
     'ops': [{'op': 'pause', 'target': {'depth': 0, 'pick': 0}, 'k': 30}, {'op': 'stop', 'state': 'CANCELLED', 'msg': 'm2', 'target': {'depth': 0, 'pick': 0}, 'k': 3}]},
    # pause of the leaf (propagates upwards), then cancel of the root
    {'depth': 2, 'calls': [['plain'], ['plain']], 'side': [False, True, False], 'seed': 32, 'sched': 'legacy',
     'ops': [{'op': 'pause', 'target': {'depth': 2, 'pick': 0}, 'k': 30}, {'op': 'stop', 'state': 'CANCELLED', 'msg': 'm2', 'target': {'depth': 0, 'pick': 0}, 'k': 3}]},
    # cancel of a nested execution while everything runs, with-items parent
    {'depth': 2, 'calls': [['items'], ['plain', 'items']], 'side': [True, False, False], 'seed': 33, 'sched': 'default',
     'ops': [{'op': 'stop', 'state': 'CANCELLED', 'msg': 'm1', 'target': {'depth': 1, 'pick': 1}, 'k': 25}]},
    {'depth': 3, 'calls': [['plain'], ['items'], ['plain']], 'side': [False, False, True, False], 'seed': 34, 'sched': 'legacy',
     'ops': [{'op': 'stop', 'state': 'ERROR', 'msg': 'm1', 'target': {'depth': 1, 'pick': 0}, 'k': 40}, {'op': 'stop', 'state': 'CANCELLED', 'msg': 'm2', 'target': {'depth': 0, 'pick': 0}, 'k': 2}]},
    {'depth': 1, 'calls': [['plain']], 'side': [True, False], 'seed': 35, 'sched': 'legacy',
     'ops': [{'op': 'pause', 'target': {'depth': 0, 'pick': 0}, 'k': 12}, {'op': 'resume', 'target': {'depth': 0, 'pick': 0}, 'k': 2},
             {'op': 'stop', 'state': 'SUCCESS', 'msg': 'm3', 'target': {'depth': 0, 'pick': 0}, 'k': 4}]},
]


def corpus_files():
    """30% of the nested cases put policies on the calling tasks (wait-after, also through task-defaults; wait-before; retry count 1):
ORACLE ONLY, no model comparison (DELAYED task states and retries are outside Model/StopTree.v); the run is drained with the
virtual clock advancing, so a parent task left DELAYED for ever shows as cancel:parent-task-not-CANCELLED:*.

corpus/stoptree/*.json: minimal histories of findings; `expect` = the only oracle signatures they may show"""
    import glob
    import os
    out = []
    for f in sorted(glob.glob(os.path.join(core.VERIF, 'corpus', 'stoptree', '*.json'))):
        o = json.load(open(f))
        c = copy.deepcopy(o['replay']['case'])
        c['corpus'] = os.path.basename(f)
        c['expect'] = o.get('expect', [])
        out.append(c)
    return out


def gen_cases(seed, n):
    rng = random.Random('engine_stoptree/%s' % seed)
    return corpus_files() + [copy.deepcopy(c) for c in CORPUS] + [gen_case(rng, i) for i in range(n)]


def run_cases(cases, nproc=None):
    import multiprocessing as mp
    nproc = nproc or min(core.NPROC, max(1, len(cases) // 3))
    if nproc <= 1:
        return [_worker(c) for c in cases]
    with mp.get_context('spawn').Pool(nproc) as pool:
        return pool.map(_worker, cases, chunksize=max(1, len(cases) // (nproc * 6)))


def norm(s):
    return ''.join(str(s).split())


def check_model(ctx, results, suite, kinds=None):
    items = [(r, m) for r in results for m in r['model_cases'] if kinds is None or m['kind'].split(':')[0] in kinds]
    if not items:
        return 0
    outs = core.coq_eval('stoptree_%s' % suite, IMPORTS, [m['expr'] for _, m in items], chunk=max(20, len(items) // core.NPROC + 1))
    skipped = 0
    for (r, m), out in zip(items, outs):
        if norm(out).endswith(',OutOfClass)'):
            skipped += 1      # a tree outside the class the model claims (an unfinished execution below a finished one)
            continue
        ctx.cov['disagreements_checked'] += 1
        impl = '(%s, %s)' % (m['impl'][0], 'Ok' if m['impl'][1] == 'ok' else 'Declared')
        if norm(out) != norm(impl):
            ctx.disagree(suite, {'case': r['case'], 'event': m['what'], 'kind': m['kind']}, out, impl)
    ctx.cov['suites'].setdefault(suite, {})['model_events_out_of_class'] = skipped
    return len(items) - skipped


def run(ctx, n_cases, suite='engine_stoptree', props=('C11', 'C10')):
    """props: which oracle signatures are reported (C11: stop / cancel / hand-off, C10: pause)"""
    results = run_cases(gen_cases(ctx.seed, n_cases))
    stats = collections.Counter()
    dist = collections.Counter()
    for r in results:
        c = r['case']
        ctx.count(suite, json.dumps(c, sort_keys=True), nontrivial=r['events'] >= 8)
        ctx.cov['traces_validated_against_impl'] += 1
        dist['depth=%d' % c['depth']] += 1
        dist['ops=%s' % '+'.join(o['op'] if o['op'] != 'stop' else o['state'] for o in c['ops'])] += 1
        if any('items' in x for x in c['calls']):
            dist['with-items sub-workflow task'] += 1
        for k, n in r['stats'].items():
            stats[k] += n
        stats['events'] += r['events']
        for f in r['failures']:
            if wanted(f['signature'], props):
                ctx.fail(f['signature'], f['what'], replay_obj(r, f))
        if c.get('corpus'):
            got = sorted(set(f['signature'] for f in r['failures']))
            stats['corpus:%s:%s' % (c['corpus'], 'as-expected' if got == sorted(c['expect']) else 'DIFFERENT %s' % got)] += 1
    n_model = check_model(ctx, results, suite, kinds=None if 'C11' in props else ('pause', 'resume', 'notify'))   # (C11: all kinds incl. deliver, start)
    st = ctx.cov['suites'].setdefault(suite, {})
    st['input_distribution'] = dict(dist)
    st['observed'] = dict(stats)
    st['model_events_compared'] = n_model
    if hasattr(ctx, 'notes'):
        ctx.notes.append('observation (not flagged): pausing a RUNNING sub-workflow that lies below a FINISHED workflow (forced stop) makes '
                         '_on_action_update call pause_workflow on the finished workflow, which raises; the handler force-fails the Plain parent '
                         'task (ERROR). The tree model mirrors it; the property texts do not speak about that task.')
    if results:
        ctx.sample({'suite': suite, 'case': results[-1]['case'], 'final': results[-1].get('final')})
    return results


def wanted(sig, props):
    is_pause = sig.startswith('pause:')
    return ('C10' in props and is_pause) or ('C11' in props and not is_pause) or sig.startswith(('internal-error', 'harness', 'lost-post', 'run-does-not'))


def replay_obj(r, f):
    return {'kind': 'engine-stoptree', 'case': r['case'], 'signature': f['signature'], 'yaml': build(r['case']),
            'events_until_failure': r['labels'][:max(0, f['at'])][-80:]}


def search(ctx, n_cases=800, props=('C11', 'C10')):
    rng = random.Random('engine_stoptree/search/%s' % ctx.seed)
    for r in run_cases([gen_case(rng, i) for i in range(n_cases)]):
        for f in r['failures']:
            if wanted(f['signature'], props):
                ctx.fail(f['signature'], f['what'], replay_obj(r, f))


def replay(obj):
    """./check C11 --replay <file>: re-run the recorded case on the real engine and print the history and the final tree"""
    import logging
    logging.disable(logging.CRITICAL)
    from harness import engine_driver as ed
    r = obj.get('replay', obj)
    case = r['case']
    d = ed.Driver(case.get('sched', 'legacy'), 0)
    run_ = Run(d, case).run()
    print(build(case))
    print('case', json.dumps(case, sort_keys=True))
    for l in run_.labels:
        print('  ', l)
    snap = run_.final
    pth = paths(snap)
    print('final tree:')
    for w in sorted(pth, key=lambda w: pth[w]):
        print('   workflow %-34s %-9s %r' % (pth[w], snap['wf'][w]['state'], snap['wf'][w]['info'] and snap['wf'][w]['info'][:60]))
        for t, tr in sorted(snap['task'].items(), key=lambda x: (x[1]['created'], x[1]['name'])):
            if tr['wf'] == w:
                print('      task %-20s %s' % (tr['name'], tr['state']))
    for f in run_.fails:
        print('ORACLE %s: %s' % (f['signature'], f['what']))
    want = obj.get('signature') or r.get('signature')
    return 1 if any(f['signature'] == want for f in run_.fails) or (want is None and run_.fails) else 0


if __name__ == '__main__':
    import sys
    import time

    class _Ctx:
        seed = int(sys.argv[2]) if len(sys.argv) > 2 else 0
        cov = {'suites': {}, 'disagreements_checked': 0, 'traces_validated_against_impl': 0}
        failures = []
        disagreements = []
        notes = []

        def count(self, *a, **k):
            pass

        def sample(self, *a, **k):
            pass

        def fail(self, sig, what, rp):
            self.failures.append((sig, what, rp))

        def disagree(self, suite, case, model, impl):
            self.disagreements.append((case, model, impl))
    c = _Ctx()
    t0 = time.time()
    nomodel = len(sys.argv) > 3 and sys.argv[3] == 'nomodel'
    if nomodel:
        globals()['check_model'] = lambda *a, **k: 0
    run(c, int(sys.argv[1]) if len(sys.argv) > 1 else 40)
    sigs = collections.Counter(f[0] for f in c.failures)
    print(json.dumps(c.cov['suites'], indent=1))
    for s, n in sigs.most_common():
        ex = next(f for f in c.failures if f[0] == s)
        print('FAIL %4d %s\n      %s\n      %s' % (n, s, ex[1][:600], json.dumps(ex[2]['case'], sort_keys=True)))
    for dd in c.disagreements[:6]:
        print('DISAGREE', json.dumps(dd[0])[:500], '\n   model', dd[1], '\n   impl ', dd[2])
    print('failures', len(c.failures), 'disagreements', len(c.disagreements), 'wall %.1fs' % (time.time() - t0))
