"""Feature-level exploration of the REAL engine (no model involved): generated workflows using
with-items, retry / wait / timeout policies, sub-workflows, publish / output expressions, run under
seeded delivery orders with the virtual clock, with the implementation-side oracles of the properties
that the control-flow core model does not cover (C05, C07, C08, C09, C20 and the sub-workflow clauses of
C10 / C11).  It supports the search for failing inputs and the validation of the component models;
it never stands in for a theorem (DESIGN.md 1, 3.3).
"""
import collections
import copy
import json
import random

from harness import core


# ------------------------------------------------------------------ programs
def gen_feature_program(rng, feature):
    """Returns dict(yaml=..., oracle=..., meta=...).  Workflow names: main (+ sub)."""
    if feature == 'reverse':
        # reverse workflow: `requires` graph (acyclic), optionally `task-defaults: requires`, a target task; every task
        # succeeds or fails (outcome oracle).  What the language prescribes (meta): the tasks the target depends on run,
        # each after everything it requires has succeeded, each once; nothing else runs.
        n = rng.choice([1, 2, 3, 4, 5, 6, 7])
        names = ['t%d' % i for i in range(n)]
        req = {}
        for i, nm in enumerate(names):
            pool = names[:i]
            k = rng.choice([0, 1, 1, 2, 3])
            req[nm] = sorted(set(rng.choice(pool) for _ in range(k)), key=names.index) if pool else []
        default = None
        roots = [nm for nm in names if not req[nm]]
        if rng.random() < 0.4 and roots:
            default = rng.choice(roots)
        eff = {nm: [r for r in dict.fromkeys(req[nm] + ([default] if default else [])) if r != nm] for nm in names}
        outs = {nm: rng.choice(['ok', 'ok', 'ok', 'ok', 'err']) for nm in names}
        target = rng.choice(names[n // 2:])
        order = names[:]
        rng.shuffle(order)
        y = ["version: '2.0'", 'main:', '  type: reverse']
        if default:
            y += ['  task-defaults:', '    requires: [%s]' % default]
        y += ['  tasks:']
        for nm in order:
            y += ['    %s:' % nm, '      action: verif.act tag="%s" value=%d' % (nm, names.index(nm) + 1), '      publish:', '        v_%s: <%% task().result %%>' % nm]
            if req[nm]:
                y.append('      requires: [%s]' % ', '.join(req[nm]))
        oracle = {(nm, None, 0): (('ok', names.index(nm) + 1) if outs[nm] == 'ok' else ('err', 'boom')) for nm in names}
        return {'yaml': '\n'.join(y) + '\n', 'oracle': oracle,
                'meta': {'feature': feature, 'requires': eff, 'outs': outs, 'target': target, 'start_params': {'task_name': target}}}
    if feature == 'with_items':
        n = rng.choice([0, 1, 2, 3, 4, 5])
        conc = rng.choice([None, 1, 2, n + 1])
        outs = [rng.choice(['ok', 'ok', 'ok', 'err']) for _ in range(n)]
        if rng.random() < 0.15 and n:
            outs[rng.randrange(n)] = 'cancel'
        y = ["version: '2.0'", 'main:', '  input:', '    - items: %s' % json.dumps(list(range(n))), '  output:',
             '    res: <% task(t1).result %>' if all(o == 'ok' for o in outs) else '    res: done',
             '  tasks:', '    t1:', '      with-items: i in <% $.items %>',
             '      action: verif.act tag="t1" item=<% $.i %> value=<% $.i * 10 %>']
        if conc is not None:
            y.append('      concurrency: %d' % conc)
        y += ['      on-success: [t2]', '      on-error: [t2]', '    t2:', '      action: verif.act tag="t2"']
        oracle = {}
        for i, o in enumerate(outs):
            oracle[('t1', i, None)] = {'ok': ('ok', i * 10), 'err': ('err', 'boom'), 'cancel': ('cancel',)}[o]
        return {'yaml': '\n'.join(y) + '\n', 'oracle': oracle,
                'meta': {'feature': feature, 'n': n, 'concurrency': conc, 'outs': outs}}
    if feature == 'retry':
        count = rng.choice([0, 1, 2, 3])
        delay = rng.choice([0, 1, 5])
        seq = [rng.choice(['err', 'err', 'ok']) for _ in range(count + 3)]
        use_break = rng.random() < 0.3
        y = ["version: '2.0'", 'main:', '  input:', '    - stop: %s' % ('true' if rng.random() < 0.5 else 'false'),
             '  tasks:', '    t1:', '      action: verif.act tag="t1"', '      retry:', '        count: %d' % count,
             '        delay: %d' % delay]
        if use_break:
            y.append('        break-on: <% $.stop %>')
        y += ['      on-success: [t2]', '      on-error: [t3]', '    t2:', '      action: verif.act tag="t2"', '    t3:',
              '      action: verif.act tag="t3"']
        oracle = {('t1', None, k): (('ok', k) if o == 'ok' else ('err', 'boom')) for k, o in enumerate(seq)}
        return {'yaml': '\n'.join(y) + '\n', 'oracle': oracle,
                'meta': {'feature': feature, 'count': count, 'delay': delay, 'seq': seq, 'break_on': use_break}}
    if feature == 'policies':
        wb = rng.choice([0, 0, 2])
        wa = rng.choice([0, 0, 3])
        to = rng.choice([None, None, 4])
        out = rng.choice(['ok', 'ok', 'err'])
        y = ["version: '2.0'", 'main:', '  tasks:', '    t1:', '      action: verif.act tag="t1"']
        if wb:
            y.append('      wait-before: %d' % wb)
        if wa:
            y.append('      wait-after: %d' % wa)
        if to:
            y.append('      timeout: %d' % to)
        y += ['      on-success: [t2]', '      on-error: [t2]', '    t2:', '      action: verif.act tag="t2"']
        return {'yaml': '\n'.join(y) + '\n', 'oracle': {('t1', None, None): (('ok', 1) if out == 'ok' else ('err', 'boom'))},
                'meta': {'feature': feature, 'wait_before': wb, 'wait_after': wa, 'timeout': to, 'out': out}}
    if feature == 'subwf':
        child_out = rng.choice(['ok', 'ok', 'err', 'cancel'])
        via_items = rng.random() < 0.3
        y = ["version: '2.0'", 'main:', '  input:', '    - x: 5', '  output:', '    r: <% $.get(r, null) %>', '  tasks:', '    p1:']
        if via_items:
            y += ['      with-items: i in [1, 2]', '      workflow: sub a=<% $.i %> extra=7']
        else:
            y += ['      workflow: sub a=<% $.x %> extra=7']
        keep = rng.random() < 0.6
        if not keep:
            y.append('      keep-result: false')
        y += ['      publish:', '        r: <% task().result %>', '      on-success: [p2]', '      on-error: [p2]', '    p2:',
              '      action: verif.act tag="p2"', 'sub:', '  input:', '    - a', '  output:', '    o: <% $.a %>', '  tasks:', '    c1:',
              '      action: verif.act tag="c1"', '      on-success: [c2]', '    c2:', '      action: verif.act tag="c2"']
        oracle = {('c2', None, None): {'ok': ('ok', 1), 'err': ('err', 'boom'), 'cancel': ('cancel',)}[child_out]}
        return {'yaml': '\n'.join(y) + '\n', 'oracle': oracle,
                'meta': {'feature': feature, 'child_out': child_out, 'via_items': via_items, 'keep_result': keep}}
    if feature == 'dataflow':
        # fork / join with publishes in branches; deterministic values; joins read branch variables
        y = ["version: '2.0'", 'main:', '  input:', '    - v: 0', '  output:', '    a: <% $.get(a, null) %>', '    b: <% $.get(b, null) %>',
             '    v: <% $.v %>', '  tasks:', '    t0:', '      action: verif.act tag="t0" value=1', '      publish:', '        v: <% task().result %>',
             '      on-success: [ta, tb]', '    ta:', '      action: verif.act tag="ta" value=10', '      publish:',
             '        a: <% task().result + $.v %>', '      on-success: [tj]', '    tb:', '      action: verif.act tag="tb" value=20',
             '      publish:', '        b: "{{ _.v + 20 }}"' if rng.random() < 0.5 else '        b: <% $.v + 20 %>', '      on-success: [tc]', '    tc:',
             '      action: verif.act tag="tc" value=3', '      on-success: [tj]', '    tj:', '      join: all',
             '      action: verif.act tag="tj" value=<% $.a %>', '      publish:', '        v: <% $.a + $.b %>']
        return {'yaml': '\n'.join(y) + '\n', 'oracle': {}, 'meta': {'feature': feature}}
    if feature == 'defaults':
        # one sub-workflow definition with defaulted input parameters, started several times - in parallel branches and
        # afterwards in sequence - some starts passing explicit values, others relying on the defaults.  Prescribed: every
        # start sees the explicit value it was given, else the declared default (meta['want']), whatever the delivery
        # order and whether or not the in-memory definition caches are dropped in between.
        n = rng.choice([2, 3, 4])
        calls = []
        for i in range(n + 1):
            calls.append({'g': rng.choice([None, None, 'bye%d' % i]), 'h': rng.choice([None, {'k': i + 10}])})
        if all(c['g'] is None for c in calls[:n]):
            calls[0]['g'] = 'bye0'
        if all(c['g'] is not None for c in calls):
            calls[-1]['g'] = None
        y = ["version: '2.0'", 'main:', '  output:'] + ['    r%d: <%% $.get(r%d, null) %%>' % (i, i) for i in range(n + 1)]
        y += ['  tasks:', '    s0:', '      action: verif.act tag="s0"', '      on-success: [%s]' % ', '.join('c%d' % i for i in range(n))]

        def call(i, c):
            args = ''
            if c['g'] is not None:
                args += ' g="%s"' % c['g']
            if c['h'] is not None:
                args += " h=<% dict(k => " + str(c['h']['k']) + ") %>"
            return ['    c%d:' % i, '      workflow: sub%s' % args, '      publish:', '        r%d: <%% task().result %%>' % i]
        for i in range(n):
            y += call(i, calls[i]) + ['      on-success: [j]']
        y += ['    j:', '      join: all', '      action: verif.act tag="j"', '      on-success: [c%d]' % n]
        y += call(n, calls[n])
        y += ['sub:', '  input:', '    - g: hello', '    - h:', '        k: 1', '  output:', '    g: <% $.g %>', '    k: <% $.h.k %>',
              '  tasks:', '    w1:', '      action: verif.act tag="w1"']
        want = {'r%d' % i: {'g': c['g'] if c['g'] is not None else 'hello', 'k': c['h']['k'] if c['h'] is not None else 1}
                for i, c in enumerate(calls)}
        return {'yaml': '\n'.join(y) + '\n', 'oracle': {}, 'meta': {'feature': feature, 'want': want}}
    if feature == 'pausedsub':
        # tasks that are IDLE when the workflow is resumed (pause-before), whose body is a sub-workflow or an action, next to a
        # parallel branch; with operator pauses (the running sub-workflow is paused: its parent task becomes PAUSED) and
        # duplicates of every start request - also the one the resume issued.  Prescribed: each task body starts ONCE.
        body_wf = [rng.random() < 0.7 for _ in range(2)]
        y = ["version: '2.0'", 'main:', '  tasks:']
        for i in range(2):
            y += ['    p%d:' % i, ('      workflow: sub' if body_wf[i] else '      action: verif.act tag="p%d"' % i)]
            if i == 0 or rng.random() < 0.5:
                y.append('      pause-before: true')
            y += ['      on-success: [z]']
        y += ['    z:', '      join: all', '      action: verif.act tag="z"',
              'sub:', '  tasks:', '    s1:', '      action: verif.act tag="s1"', '      on-success: [s2]', '    s2:', '      action: verif.act tag="s2"']
        return {'yaml': '\n'.join(y) + '\n', 'oracle': {}, 'meta': {'feature': feature, 'body_wf': body_wf}}
    if feature == 'joinsub':
        # a join (all / one / N) whose BODY is a sub-workflow or an action, triggered by 2-4 parallel branches that complete
        # in any order (also after the join has already completed) through on-success / on-error / on-complete routes.
        # Prescribed: the join has ONE task execution whose body ran ONCE (one sub-workflow / action execution).
        nb = rng.choice([2, 3, 3, 4])
        kind = rng.choice(['one', 'one', 'all', 2])
        if kind == 2 and nb < 3:
            kind = 'one'
        body_wf = rng.random() < 0.7
        outs = [rng.choice(['ok', 'ok', 'err']) for _ in range(nb)]
        # branches that arrive late: for a partial join after it has completed
        late = set(rng.sample(range(1, nb), rng.choice([0, 1, 1, min(2, nb - 1)])))
        y = ["version: '2.0'", 'main:', '  tasks:']
        oracle = {}
        for i in range(nb):
            y += ['    b%d:' % i, '      action: verif.act tag="b%d"' % i]
            if i in late:
                y.append('      wait-before: 30')       # starts only when everything else has drained (virtual clock)
            route = rng.choice(['on-complete', 'on-success' if outs[i] == 'ok' else 'on-error'])
            y += ['      %s: [j]' % route]
            oracle[('b%d' % i, None, None)] = ('ok', i) if outs[i] == 'ok' else ('err', 'boom')
        y += ['    j:', '      join: %s' % kind, ('      workflow: sub' if body_wf else '      action: verif.act tag="j"'), '      on-success: [z]',
              '    z:', '      action: verif.act tag="z"']
        if body_wf:
            y += ['sub:', '  tasks:', '    s1:', '      action: verif.act tag="s1"']
        return {'yaml': '\n'.join(y) + '\n', 'oracle': oracle, 'meta': {'feature': feature, 'join': kind, 'body_wf': body_wf, 'branches': nb, 'late': sorted(late)}}
    if feature == 'nullflow':
        # a value set before a fork, re-published in ONE branch as null / false / 0 / '' / an empty dict or list (values a
        # careless "is it there?" test takes for missing) while the other branch merely inherits the old value; the
        # branches end separately or meet at a join.  Prescribed: the re-published value wins everywhere, in every order.
        new = rng.choice(['null', 'false', '0', "''", '<% dict() %>', '<% list() %>'])
        want = {'null': None, 'false': False, '0': 0, "''": '', '<% dict() %>': {}, '<% list() %>': []}[new]
        join = rng.random() < 0.5
        jinja = rng.random() < 0.3
        y = ["version: '2.0'", 'main:', '  output:', '    x: <% $.x %>', '    y: <% $.y %>', '  tasks:',
             '    t0:', '      action: verif.act tag="t0" value=1', '      publish:', '        x: <% task().result %>', '        y: kept',
             '      on-success: [a1, b1]',
             '    a1:', '      action: verif.act tag="a1"', '      on-success: [a2]',
             '    a2:', '      action: verif.act tag="a2"', '      publish:', '        x: %s' % new]
        if join:
            y.append('      on-success: [tj]')
        y += ['    b1:', '      action: verif.act tag="b1"', '      on-success: [b2]', '    b2:', '      action: verif.act tag="b2"']
        if join:
            y += ['      on-success: [tj]', '    tj:', '      join: all', '      action: verif.act tag="tj"', '      publish:',
                  ('        seen: "{{ _.x }}"' if jinja else '        seen: <% $.x %>')]
        return {'yaml': '\n'.join(y) + '\n', 'oracle': {}, 'meta': {'feature': feature, 'want_x': want, 'join': join}}
    if feature == 'compose':
        return gen_composed_program(rng)
    raise ValueError(feature)


def gen_composed_program(rng):
    """Deterministic composition of the features: a tree of 3-6 tasks (each task has one parent, so it runs
    at most once) plus optionally one `join: all` fed by two on-complete routes; task kinds: plain action,
    with-items action (optional concurrency), sub-workflow call, with-items sub-workflow; optional retry /
    wait-before / wait-after / pause-before; every task publishes its own variable; per (task, item, attempt)
    outcomes; no engine commands, no cancellation, no timeout: the final summary is schedule independent."""
    n = rng.randint(3, 6)
    kinds, lines, oracle, meta_tasks = [], [], {}, []
    parent = {0: None}
    for i in range(1, n):
        parent[i] = rng.randrange(0, i)
    route = {}          # child -> 'on-success' | 'on-error' | 'on-complete'
    will_fail = {}
    for i in range(n):
        kind = rng.choice(['act', 'act', 'act', 'items', 'sub', 'subitems'])
        kinds.append(kind)
    use_sub = any(k in ('sub', 'subitems') for k in kinds)
    child_fails = use_sub and rng.random() < 0.25
    y = ["version: '2.0'", 'main:', '  input:', '    - x: 5', '  output:']
    for i in range(n):
        y.append('    v%d: <%% $.get(v%d, null) %%>' % (i, i))
    join_at = None
    if n >= 4 and rng.random() < 0.4:
        join_at = n           # an extra task joined from two distinct tasks
        y.append('    vj: <% $.get(vj, null) %>')
    y.append('  tasks:')
    join_parents = rng.sample(range(n), 2) if join_at is not None else []
    for i in range(n):
        kind = kinds[i]
        t = ['    t%d:' % i]
        fails = False
        if kind == 'act':
            t.append('      action: verif.act tag="t%d" value=%d' % (i, i + 1))
            retry = rng.random() < 0.3
            seq = [rng.choice(['err', 'ok', 'ok']) for _ in range(4)]
            if retry:
                cnt = rng.choice([1, 2])
                t += ['      retry:', '        count: %d' % cnt, '        delay: %d' % rng.choice([0, 1])]
                for k, o in enumerate(seq):
                    oracle[('t%d' % i, None, k)] = ('ok', i + 1) if o == 'ok' else ('err', 'boom')
                fails = 'ok' not in seq[:cnt + 1]
            elif rng.random() < 0.25:
                oracle[('t%d' % i, None, None)] = ('err', 'boom')
                fails = True
        elif kind == 'items':
            m = rng.choice([1, 2, 3])
            t += ['      with-items: i in %s' % json.dumps(list(range(m))), '      action: verif.act tag="t%d" item=<%% $.i %%> value=<%% $.i * 10 %%>' % i]
            if rng.random() < 0.5:
                t.append('      concurrency: %d' % rng.choice([1, 2]))
            for k in range(m):
                if rng.random() < 0.2:
                    oracle[('t%d' % i, k, None)] = ('err', 'boom')
                    fails = True
        elif kind == 'sub':
            t.append('      workflow: sub a=<% $.x %>')
            fails = child_fails
        else:
            t += ['      with-items: i in [1, 2]', '      workflow: sub a=<% $.i %>']
            fails = child_fails
        r = rng.random()
        if r < 0.15:
            t.append('      wait-before: %d' % rng.choice([1, 2]))
        elif r < 0.3:
            t.append('      wait-after: %d' % rng.choice([1, 2]))
        elif r < 0.38:
            t.append('      pause-before: true')
        t += ['      publish:', '        v%d: <%% task().result %%>' % i]
        will_fail[i] = fails
        kids = [c for c in range(n) if parent.get(c) == i]
        by_route = collections.defaultdict(list)
        for c in kids:
            # mostly routes that fire, sometimes one that does not (the subtree then never runs)
            good = 'on-error' if fails else 'on-success'
            bad = 'on-success' if fails else 'on-error'
            by_route[rng.choice([good, good, good, 'on-complete', bad])].append('t%d' % c)
        if i in join_parents:
            by_route['on-complete'].append('tj')
        for key in ('on-success', 'on-error', 'on-complete'):
            if by_route[key]:
                t.append('      %s: %s' % (key, json.dumps(by_route[key])))
        lines += t
        meta_tasks.append({'kind': kind, 'fails': fails})
    if join_at is not None:
        lines += ['    tj:', '      join: all', '      action: verif.act tag="tj" value=99', '      publish:', '        vj: <% task().result %>']
    y += lines
    if use_sub:
        y += ['sub:', '  input:', '    - a', '  output:', '    o: <% $.a %>', '  tasks:', '    c1:', '      action: verif.act tag="c1" value=<% $.a %>',
              '      on-success: [c2]', '    c2:', '      action: verif.act tag="c2" value=2']
        if child_fails:
            oracle[('c2', None, None)] = ('err', 'boom')
    return {'yaml': '\n'.join(y) + '\n', 'oracle': oracle,
            'meta': {'feature': 'compose', 'tasks': meta_tasks, 'join': join_at is not None, 'child_fails': child_fails}}


FEATURES = ['with_items', 'retry', 'policies', 'subwf', 'dataflow', 'compose']


# ------------------------------------------------------------------ cached specifications stay what was parsed
def _fingerprint(o, depth=0, seen=None):
    """Canonical text of a specification object graph (attributes, dictionaries, lists)."""
    seen = seen if seen is not None else set()
    if isinstance(o, (str, int, float, bool, type(None))):
        return repr(o)
    if depth > 8 or id(o) in seen:
        return '...'
    seen = seen | {id(o)}
    if isinstance(o, dict):
        return '{' + ','.join('%s:%s' % (_fingerprint(k, depth + 1, seen), _fingerprint(v, depth + 1, seen))
                              for k, v in sorted(o.items(), key=lambda kv: repr(kv[0]))) + '}'
    if isinstance(o, (list, tuple)):
        return '[' + ','.join(_fingerprint(x, depth + 1, seen) for x in o) + ']'
    if hasattr(o, '__dict__') and type(o).__module__.startswith('mistral.lang'):
        # attributes named *_cache are memo tables the specification fills on demand (inbound / outbound tasks)
        return type(o).__name__ + _fingerprint({k: v for k, v in vars(o).items() if not callable(v) and not k.endswith('_cache')},
                                               depth + 1, seen)
    return type(o).__name__


def cached_spec_changes(known):
    """Specification objects sitting in the parser's caches whose content differs from what it was when first seen
    (C02: the caches hold what was parsed from the stored definition, nothing a run wrote into it)."""
    from mistral.lang import parser as spec_parser
    out = []
    for cname in ('_WF_EX_CACHE', '_WF_DEF_CACHE'):
        cache = getattr(spec_parser, cname, None)
        if cache is None:
            continue
        for key, spec in list(cache.items()):
            fp = _fingerprint(spec)
            k = (cname, id(spec))
            if k not in known:
                known[k] = (fp, spec)           # the reference keeps id() from being reused
            elif known[k][0] != fp:
                out.append((cname, getattr(spec, 'get_name', lambda: '?')()))
                known[k] = (fp, spec)
    return out


def _core_view(v):
    """What a refused / absorbed message must leave alone: states of all executions, accepted flags, the task set."""
    out = {}
    for k, w in v['wf'].items():
        out['wf:' + k] = (w['state'], json.dumps(w['output'], sort_keys=True, default=str))
    for k, t in v['tasks'].items():
        out['task:' + k] = (t['state'], json.dumps(t['published'], sort_keys=True, default=str))
    for k, a in v['actions'].items():
        out['act:' + k] = (a['state'], a['accepted'])
    return out


# ------------------------------------------------------------------ one run
def run_one(d, prog, seed, inject_pause=False, inject_evict=False, pause_rate=0.06, inject_dup=False):
    """Seeded schedule with virtual clock on the real engine; oracles after every event."""
    d.reset(seed)
    d.create_workflows(prog['yaml'])
    d.oracle = dict(prog['oracle'])
    fails = []
    meta = prog['meta']
    rng = random.Random('explore/%s' % seed)
    out, wid = d.start_workflow('main', {}, **(meta.get('start_params') or {}))
    if out != 'ok':
        return {'failures': [{'property': 'C01', 'signature': 'start-failed:%s' % out, 'what': str(wid)[:200]}], 'summary': None,
                'events': 0, 'meta': meta}
    n_events = [0]
    max_running = [0]
    finished = {}
    finished_checked = set()
    delivered = []
    done_tasks = set()
    done_acts = {}

    def check(label):
        v = d.view()
        # C07: never more than `concurrency` items RUNNING at once
        if meta['feature'] == 'with_items':
            running = sum(1 for k, a in v['actions'].items() if '/t1#' in k and a['state'] == 'RUNNING')
            max_running[0] = max(max_running[0], running)
            if meta['concurrency'] is not None and running > meta['concurrency']:
                fails.append({'property': 'C07', 'signature': 'concurrency-exceeded',
                              'what': '%d items RUNNING with concurrency %d after %s' % (running, meta['concurrency'], label)})
        # C03 / C11: a finished workflow execution (root or sub-workflow) keeps its state and its output whatever arrives
        # afterwards (no rerun / skip is issued in these runs)
        for k, w in v['wf'].items():
            if w['state'] in ('SUCCESS', 'ERROR', 'CANCELLED'):
                now = (w['state'], json.dumps(w['output'], sort_keys=True, default=str))
                was = finished.setdefault(k, now)
                if was != now and not any(f['signature'].startswith('finished-workflow-changed') for f in fails):
                    what = 'state' if was[0] != now[0] else 'output'
                    fails.append({'property': 'C03', 'signature': 'finished-workflow-changed:%s:%s' % (what, 'sub' if w['has_parent'] else 'root'),
                                  'what': 'workflow execution %s had finished as %s with output %s; after %s it is %s with output %s' % (
                                      k, was[0], was[1][:120], label, now[0], now[1][:120])})
            elif k in finished and not any(f['signature'].startswith('finished-workflow-changed') for f in fails):
                fails.append({'property': 'C03', 'signature': 'finished-workflow-changed:state:%s' % ('sub' if w['has_parent'] else 'root'),
                              'what': 'workflow execution %s had finished as %s; after %s it is %s' % (k, finished[k][0], label, w['state'])})
        # C01: a workflow execution finishes (by itself: these runs issue no stop, the definitions no fail / succeed command)
        # only when none of its tasks is still IDLE / WAITING / RUNNING / DELAYED / PAUSED - "the tasks that ran with their
        # final states are the ones the language defines" (a completion check that overlooks a delayed task ends the run early)
        for k, w in v['wf'].items():
            if w['state'] in ('SUCCESS', 'ERROR', 'CANCELLED') and k not in finished_checked:
                finished_checked.add(k)
                prefix = k + '/' if k == 'R' or '.sub' in k else None
                if prefix:
                    left = sorted(t for t, x in v['tasks'].items() if t.startswith(prefix) and t.count('/') == k.count('/') + 1
                                  and x['state'] not in ('SUCCESS', 'ERROR', 'CANCELLED', 'SKIPPED'))
                    if left and not any(f['signature'].startswith('workflow-finished-with-unfinished-tasks') for f in fails):
                        fails.append({'property': 'C01', 'signature': 'workflow-finished-with-unfinished-tasks:%s' % meta['feature'],
                                      'what': 'workflow execution %s became %s on %s while its tasks %s were not finished' % (
                                          k, w['state'], label, {t: v['tasks'][t]['state'] for t in left})})
        # C03: a task that reached SUCCESS never changes state again; a completed action execution (result accepted) keeps
        # its state (these runs issue no rerun / skip)
        for k, t in v['tasks'].items():
            if t['state'] == 'SUCCESS':
                done_tasks.add(k)
            elif k in done_tasks and not any(f['signature'].startswith('task-left-SUCCESS') for f in fails):
                fails.append({'property': 'C03', 'signature': 'task-left-SUCCESS:%s' % meta['feature'],
                              'what': 'task %s had reached SUCCESS; after %s it is %s' % (k, label, t['state'])})
        for k, a in v['actions'].items():
            if a['state'] in ('SUCCESS', 'ERROR', 'CANCELLED') and a['accepted']:
                was = done_acts.setdefault(k, a['state'])
                if was != a['state'] and not any(f['signature'].startswith('action-state-changed-after-completion') for f in fails):
                    fails.append({'property': 'C03', 'signature': 'action-state-changed-after-completion:%s' % meta['feature'],
                                  'what': 'action execution %s %s -> %s after %s' % (k, was, a['state'], label)})
        if meta['feature'] == 'pausedsub':
            # C06: however often its start requests are delivered, a task body (sub-workflow / action) is started once
            for i in range(2):
                tk = [k for k in v['tasks'] if k.split('/')[-1].split('#')[0] == 'p%d' % i and k.count('/') == 1]
                bodies = [k for k in v['wf'] if '/p%d#' % i in k and k.count('/') == 1] if meta['body_wf'][i] else \
                         [k for k in v['actions'] if k.split('!')[0] in tk]
                if (len(tk) > 1 or len(bodies) > 1) and not any(f['signature'].startswith('task-body-started-twice') for f in fails):
                    fails.append({'property': 'C06', 'signature': 'task-body-started-twice:%s' % ('sub-workflow' if meta['body_wf'][i] else 'action'),
                                  'what': 'task p%d has %d task executions and its body was started %d times after %s: %s' % (
                                      i, len(tk), len(bodies), label, sorted(bodies))})
        if meta['feature'] == 'joinsub':
            # C04: one task execution of the join, its body started at most once
            jt = [k for k in v['tasks'] if k.split('/')[-1].split('#')[0] == 'j' and k.count('/') == 1]
            bodies = [k for k in v['wf'] if '/j#' in k and k.count('/') == 1] if meta['body_wf'] else \
                     [k for k in v['actions'] if k.split('!')[0] in jt]
            if (len(jt) > 1 or len(bodies) > 1) and not any(f['signature'].startswith('join-started-twice') for f in fails):
                fails.append({'property': 'C04', 'signature': 'join-started-twice:%s' % ('sub-workflow' if meta['body_wf'] else 'action'),
                              'what': 'join j (join: %s) has %d task executions and its body was started %d times after %s: %s' % (
                                  meta['join'], len(jt), len(bodies), label, sorted(bodies))})
        if meta['feature'] == 'reverse':
            # C01 / C04: a task exists only once everything it requires has succeeded, and at most once
            by_name = collections.defaultdict(list)
            for k, t in v['tasks'].items():
                by_name[k.split('/')[-1].split('#')[0]].append(t['state'])
            for nm, sts in by_name.items():
                if len(sts) > 1 and not any(f['signature'].startswith('reverse:task-twice') for f in fails):
                    fails.append({'property': 'C01', 'signature': 'reverse:task-twice', 'what': 'task %s has %d executions after %s' % (nm, len(sts), label)})
                for r in meta['requires'].get(nm, []):
                    if 'SUCCESS' not in by_name.get(r, []) and not any(f['signature'] == 'reverse:started-before-required' for f in fails):
                        fails.append({'property': 'C01', 'signature': 'reverse:started-before-required',
                                      'what': 'task %s exists after %s although the task %s it requires has not succeeded (%s)' % (nm, label, r, by_name.get(r))})
        return v

    known_specs = {}

    def on_event(ev, o):
        n_events[0] += 1
        for cname, wname in cached_spec_changes(known_specs):
            if not any(f['signature'].startswith('cached-spec-modified') for f in fails):
                fails.append({'property': 'C02', 'signature': 'cached-spec-modified:%s' % cname,
                              'what': 'the cached specification of workflow %s in %s was modified by event %s' % (wname, cname, ev[0])})
        if o == 'internal':
            fails.append({'property': 'C01', 'signature': 'internal-error:%s' % (d.entry_errors[-1]['type'] if d.entry_errors else '?'),
                          'what': 'non-declared exception: %s' % (d.entry_errors[-1]['msg'][:150] if d.entry_errors else '?')})
        check(str(ev[0]))
    paused = False
    resumes = 0
    steps = 0
    from harness.engine_rerun import repair_scheduler
    while steps < 400:
        # default scheduler: an in-memory job object expired by a later lock acquisition of its transaction is detached
        # afterwards; the real scheduler then loses the in-memory run and the store poll runs the job - do what the poll does
        repair_scheduler(d)
        evs = [e for e in d.enabled() if not d._is_integrity_job(e)]
        if inject_evict and rng.random() < 0.25:
            # parser.clear_caches(): the engine's in-memory definition caches dropped (restart, eviction)
            from mistral.lang import parser as spec_parser
            spec_parser.clear_caches()
        if inject_pause and rng.random() < pause_rate:
            if not paused:
                d.operator('pause', wid)
                paused = True
            else:
                d.operator('resume', wid)
                paused = False
            continue
        if not evs:
            if d._tick_non_integrity():
                continue
            if paused:
                d.operator('resume', wid)
                paused = False
                continue
            if resumes < 8 and (d.view()['wf'].get('R') or {}).get('state') == 'PAUSED':
                # paused by the definition itself (pause-before policy): the operator resumes it
                d.operator('resume', wid)
                resumes += 1
                continue
            break
        if inject_dup and delivered and rng.random() < 0.12:
            # C06: a message delivered before (action / sub-workflow result, start-task request) is delivered once more: it
            # must be refused or absorbed - no state of any execution changes, nothing is created
            it = delivered[rng.randrange(len(delivered))]
            before = _core_view(d.view())
            o = d.redeliver(it)
            after = _core_view(d.view())
            steps += 1
            n_events[0] += 1
            changed = [k for k in set(before) | set(after) if before.get(k) != after.get(k)]
            # a repeated start request may be the one that starts a task which is IDLE again (paused before it started, a
            # resume-issued request still on its way): the task leaves IDLE and its action / sub-workflow rows appear - that
            # is a single start, whichever copy of the request performs it; "started twice" is checked separately
            started_idle = (it['payload'].get('method') == 'start_task' and
                            sum(1 for k in changed if k.startswith('task:') and (before.get(k) or ('',))[0] == 'IDLE') == 1 and
                            all(before.get(k) is None or (k.startswith('task:') and before[k][0] == 'IDLE') for k in changed))
            if after != before and not started_idle and not any(f['signature'].startswith('duplicate-changed-state') for f in fails):
                diff = sorted(k for k in set(before) | set(after) if before.get(k) != after.get(k))[:4]
                alld = [k for k in set(before) | set(after) if before.get(k) != after.get(k)]
                # the known re-pause by a pause-before policy (the policy issues a pause request once more): running
                # workflows - the root and / or sub-workflows, with their parent tasks and action rows - go from RUNNING to
                # PAUSED, nothing else changes
                repaused = (it['payload'].get('method') == 'start_task' and 'pause-before: true' in prog['yaml'] and
                            all((before.get(k) or ('',))[0] == 'RUNNING' and (after.get(k) or ('',))[0] == 'PAUSED' for k in alld))
                fails.append({'property': 'C06', 'signature': ('duplicate-start-repauses:pause-before' if repaused else
                                                              'duplicate-changed-state:%s:%s' % (it['payload'].get('method'), meta['feature'])),
                              'what': 'a second delivery of %s (%s) changed %s' % (it['payload'].get('method'), o, [(k, before.get(k), after.get(k)) for k in diff])})
            check('dup')
            continue
        ev = evs[rng.randrange(len(evs))]
        if ev[0] == 'item':
            it0 = d.pending.get(ev[1]) if hasattr(d.pending, 'get') else None
            if it0 and it0.get('kind') == 'rpc' and it0['payload'].get('method') in ('on_action_complete', 'start_task'):
                delivered.append(copy.copy(it0))
        o = d.fire(ev)
        steps += 1
        on_event(ev, o)
    v = d.view()
    for e in d.swallowed:
        fails.append({'property': 'C01', 'signature': 'lost-post-commit-operation:%s' % e['type'], 'what': e['msg'][:150]})
    for e in d.entry_errors:
        if e['event'].startswith('job'):
            fails.append({'property': 'C01', 'signature': 'internal-error-in-job:%s' % e['type'], 'what': e['msg'][:150]})
    quiescent = not [e for e in d.enabled() if not d._is_integrity_job(e)] and d.next_due() is None or steps < 400
    root = v['wf'].get('R')
    summary = None
    if root is not None:
        out = dict(root['output'] or {})
        if root['state'] in ('ERROR', 'CANCELLED') and isinstance(out.get('result'), str):
            # the failure message lists task / action execution ids and the failed tasks in creation order
            out['result'] = '<failure message>'
        summary = (root['state'], json.dumps(out, sort_keys=True),
                   tuple(sorted((k.split('#')[0], t['state'], json.dumps(t['published'], sort_keys=True)) for k, t in v['tasks'].items())))
    if steps < 400 and root is not None:
        # C01: quiescent => final
        if root['state'] not in ('SUCCESS', 'ERROR', 'CANCELLED'):
            fails.append({'property': 'C01', 'signature': 'stuck-%s:%s' % (root['state'], meta['feature']),
                          'what': 'quiescent but root workflow %s; tasks=%s' % (root['state'], {k: t['state'] for k, t in v['tasks'].items()})})
        else:
            fails += final_oracles(d, v, meta)
    return {'failures': fails, 'summary': summary, 'events': steps, 'meta': meta, 'max_running': max_running[0]}


def final_oracles(d, v, meta):
    fails = []
    f = meta['feature']
    root = v['wf']['R']
    if f == 'nullflow':
        out = root['output'] or {}
        if root['state'] != 'SUCCESS' or out.get('x', 'absent') != meta['want_x'] or out.get('y') != 'kept':
            fails.append({'property': 'C02', 'signature': 'nullflow:stale-value-in-output',
                          'what': 'workflow %s output %s; x was re-published as %r in one branch, y is "kept"' % (
                              root['state'], json.dumps(out, sort_keys=True), meta['want_x'])})
        return fails
    if f == 'defaults':
        if root['state'] != 'SUCCESS' or (root['output'] or {}) != meta['want']:
            fails.append({'property': 'C02', 'signature': 'defaults:wrong-input-seen',
                          'what': 'workflow %s, sub-workflow starts saw %s, the definition and the calls prescribe %s' % (
                              root['state'], json.dumps(root['output'], sort_keys=True), json.dumps(meta['want'], sort_keys=True))})
        return fails
    if f == 'reverse':
        req, outs, target = meta['requires'], meta['outs'], meta['target']
        needed, todo = [], [target]
        while todo:
            x = todo.pop()
            if x not in needed:
                needed.append(x)
                todo += req[x]
        runs = {}

        def will_run(x):
            if x not in runs:
                runs[x] = all(will_run(r) and outs[r] == 'ok' for r in req[x])
            return runs[x]
        want = {x: ('SUCCESS' if outs[x] == 'ok' else 'ERROR') for x in needed if will_run(x)}
        got = {}
        for k, t in v['tasks'].items():
            got.setdefault(k.split('/')[-1].split('#')[0], []).append(t['state'])
        got1 = {k: (x[0] if len(x) == 1 else x) for k, x in got.items()}
        if got1 != want:
            fails.append({'property': 'C01', 'signature': 'reverse:wrong-task-set',
                          'what': 'tasks that ran %s, the definition prescribes %s (target %s, requires %s, outcomes %s)' % (got1, want, target, req, outs)})
        wstate = 'SUCCESS' if all(x == 'SUCCESS' for x in want.values()) else 'ERROR'
        if root['state'] != wstate:
            fails.append({'property': 'C01', 'signature': 'reverse:wrong-final-state', 'what': 'workflow %s, prescribed %s (tasks %s)' % (root['state'], wstate, want)})
        return fails
    if f == 'with_items':
        n, outs = meta['n'], meta['outs']
        acts = {k: a for k, a in v['actions'].items() if '/t1#' in k}
        idx = collections.Counter(a['index'] for a in acts.values() if a['accepted'])
        t1 = next((t for k, t in v['tasks'].items() if '/t1#' in k), None)
        if t1 is not None:
            # every index exactly once among accepted executions
            if 'cancel' not in outs and (sorted(idx) != list(range(n)) or any(c != 1 for c in idx.values())):
                fails.append({'property': 'C07', 'signature': 'item-index-multiset', 'what': 'accepted item indexes %s for n=%d' % (dict(idx), n)})
            want = 'CANCELLED' if 'cancel' in outs else ('ERROR' if 'err' in outs else 'SUCCESS')
            if t1['state'] != want:
                fails.append({'property': 'C07', 'signature': 'final-state', 'what': 'with-items task is %s, items %s' % (t1['state'], outs)})
            if want == 'SUCCESS' and root['state'] == 'SUCCESS' and root['output'].get('res') != [i * 10 for i in range(n)]:
                fails.append({'property': 'C07', 'signature': 'result-order', 'what': 'result %s for items %s' % (root['output'].get('res'), list(range(n)))})
            # each item executed once (no item run twice)
            for i in range(n):
                if d.calls[('t1', i)] > 1 or ('cancel' not in outs and d.calls[('t1', i)] != 1):
                    fails.append({'property': 'C07', 'signature': 'item-run-count', 'what': 'item %d ran %d times' % (i, d.calls[('t1', i)])})
    if f == 'retry':
        count, seq = meta['count'], meta['seq']
        attempts = d.calls[('t1', None)]
        # expected number of attempts: stop at first ok, at most count+1; break-on true stops after the first failure
        exp = 0
        for k, o in enumerate(seq[:count + 1]):
            exp = k + 1
            if o == 'ok':
                break
            if meta['break_on'] and 'stop: true' in d_yaml(meta):
                break
        if attempts > count + 1:
            fails.append({'property': 'C08', 'signature': 'retry-bound', 'what': '%d attempts with count %d' % (attempts, count)})
        t1 = next((t for k, t in v['tasks'].items() if '/t1#' in k), None)
        last_ok = seq[attempts - 1] == 'ok' if attempts else False
        if t1 is not None and (t1['state'] == 'SUCCESS') != last_ok:
            fails.append({'property': 'C08', 'signature': 'retry-verdict', 'what': 'task %s but last attempt %s (attempts=%d seq=%s)' % (
                t1['state'], 'ok' if last_ok else 'err', attempts, seq)})
        if 'ok' in seq[:attempts - 1]:
            fails.append({'property': 'C08', 'signature': 'retry-after-success', 'what': 'attempts=%d seq=%s' % (attempts, seq)})
    if f == 'subwf':
        for k, w in v['wf'].items():
            if k == 'R':
                continue
            if w['root'] != 'R':
                fails.append({'property': 'C09', 'signature': 'root-id', 'what': '%s has root %s' % (k, w['root'])})
            ptask = k.split('.sub')[0]
            pt = v['tasks'].get(ptask)
            if pt and not meta['via_items'] and pt['state'] != w['state'] and w['state'] in ('SUCCESS', 'ERROR', 'CANCELLED'):
                fails.append({'property': 'C09', 'signature': 'parent-task-mismatch', 'what': 'child %s %s but parent task %s' % (k, w['state'], pt['state'])})
    return fails


def d_yaml(meta):
    return 'stop: true' if meta.get('stop') else ''


# ------------------------------------------------------------ parallel driver
_W = {}


def _worker(job):
    import logging
    logging.disable(logging.CRITICAL)
    from harness import engine_driver as ed
    d = _W.get('d')
    if d is None or d.scheduler_type != job.get('sched', 'legacy'):
        d = ed.Driver(job.get('sched', 'legacy'), 0)
        _W['d'] = d
    r = run_one(d, job['prog'], job['seed'], inject_pause=job.get('pause', False), inject_evict=job.get('evict', False),
                pause_rate=job.get('pause_rate', 0.06), inject_dup=job.get('dup', False))
    r['job'] = {'seed': job['seed'], 'sched': job.get('sched', 'legacy'), 'pause': job.get('pause', False), 'evict': job.get('evict', False),
                'pause_rate': job.get('pause_rate', 0.06), 'dup': job.get('dup', False), 'gi': job.get('gi')}
    r['yaml'] = job['prog']['yaml']
    r['oracle'] = {json.dumps(k): v for k, v in job['prog']['oracle'].items()}
    return r


def explore(ctx, props, features, n_programs, n_schedules, suite='engine_explore', pause_heavy=False, dups=False):
    import multiprocessing as mp
    rng = random.Random('%s/%s' % (suite, ctx.seed))
    jobs = []
    for gi in range(n_programs):
        f = features[gi % len(features)]
        prog = gen_feature_program(rng, f)
        for k in range(n_schedules):
            jobs.append({'prog': prog, 'seed': ctx.seed * 9973 + gi * 131 + k, 'gi': gi, 'sched': 'default' if k % 3 == 2 else 'legacy',
                         'pause': (k % 4 == 3) or (pause_heavy and k > 0), 'evict': (k % 2 == 1),
                         'pause_rate': [0.06, 0.12, 0.25][k % 3] if pause_heavy else 0.06, 'dup': dups and k > 0})
    with mp.get_context('spawn').Pool(min(core.NPROC, max(1, len(jobs) // 4))) as pool:
        results = pool.map(_worker, jobs, chunksize=max(1, len(jobs) // (core.NPROC * 4)))
    by = collections.defaultdict(list)
    feats = collections.Counter()
    for r in results:
        by[r['job']['gi']].append(r)
        feats[r['meta']['feature']] += 1
        ctx.count(suite, (r['yaml'], r['job']['seed']), nontrivial=r['events'] >= 5)
        for f in r['failures']:
            if f['property'] in props:
                ctx.fail(f['signature'], f['what'], {'kind': 'engine-explore', 'yaml': r['yaml'], 'oracle': r['oracle'], 'job': r['job'],
                                                     'meta': r['meta']})
    # schedule independence of the final summary (C02 / C05) for deterministic programs
    if 'C02' in props or 'C05' in props or 'C10' in props or 'C06' in props:
        for gi, rs in by.items():
            m = rs[0]['meta']
            if 'cancel' in (m.get('outs') or []) or m.get('child_out') == 'cancel':
                continue   # a cancellation races the other branches by nature: outside the order-insensitive fragment
            # only runs that drained to a final state are compared (a run cut off by the step limit proves nothing)
            sums = collections.Counter(r['summary'] for r in rs if r['summary'] is not None and not r['failures']
                                       and r['summary'][0] in ('SUCCESS', 'ERROR', 'CANCELLED'))
            if len(sums) > 1:
                a, b = list(sums)[:2]
                ctx.fail('schedule-dependent-result:%s' % rs[0]['meta']['feature'],
                         'same program, different delivery orders: %s vs %s' % (a[:2], b[:2]),
                         {'kind': 'engine-explore', 'yaml': rs[0]['yaml'], 'oracle': rs[0]['oracle'], 'jobs': [r['job'] for r in rs], 'meta': rs[0]['meta']})
    st = ctx.cov['suites'].setdefault(suite, {})
    st['runs_by_feature'] = dict(feats)
    st['events'] = sum(r['events'] for r in results)
    if results:
        ctx.sample({'suite': suite, 'yaml': results[-1]['yaml'], 'meta': results[-1]['meta'], 'summary': results[-1]['summary']})
    return results


def replay(obj):
    import logging
    logging.disable(logging.CRITICAL)
    from harness import engine_driver as ed
    r = obj.get('replay', obj)
    job = r.get('job') or (r.get('jobs') or [{}])[0]
    d = ed.Driver(job.get('sched', 'legacy'), 0)
    prog = {'yaml': r['yaml'], 'oracle': {tuple(json.loads(k)): tuple(v) for k, v in r.get('oracle', {}).items()}, 'meta': r['meta']}
    res = run_one(d, prog, job.get('seed', 0), inject_pause=job.get('pause', False), inject_evict=job.get('evict', False),
                  pause_rate=job.get('pause_rate', 0.06), inject_dup=job.get('dup', False))
    print(r['yaml'])
    print('summary', res['summary'])
    for f in res['failures']:
        print('ORACLE', f)
    return 1 if res['failures'] else 0
