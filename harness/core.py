"""Shared machinery of the /verif checks: translators -> Gen/, Coq build and
assumption collection, Coq-side evaluation of models for correspondence,
evidence writing, known findings, verdict logic (DESIGN.md section 3.3).

Run with /venv/bin/python, PYTHONPATH=<repo>, PYTHONHASHSEED=0 (./check does it).
"""
import fcntl
import hashlib
import json
import os
import random
import re
import subprocess
import sys
import time
import re  # noqa (re-exported for suites)

VERIF = os.path.dirname(os.path.dirname(os.path.abspath(__file__)))
REPO = os.environ.get('VERIF_REPO', '/repo')
BUILD = os.path.join(VERIF, 'build')
if os.path.realpath(REPO) == '/repo' or os.environ.get('VERIF_SHARED_COQ'):
    COQ = os.path.join(VERIF, 'coq')
else:
    # checks run against a scratch copy of the repository (self-test, seeded
    # mutations) get their own copy of the Coq tree, so Gen/ regenerated from the
    # scratch copy never disturbs the build for /repo.
    COQ = os.path.join(BUILD, 'alt_' + hashlib.sha1(os.path.realpath(REPO).encode()).hexdigest()[:10], 'coq')
    os.makedirs(COQ, exist_ok=True)
    if not os.environ.get('VERIF_ALT_SYNCED'):
        # once per check process (worker processes spawned later import this module again)
        os.environ['VERIF_ALT_SYNCED'] = '1'
        subprocess.run(['rsync', '-a', '--delete', '--exclude', 'Gen/*.v', '--exclude', 'Gen/*.vo', '--exclude', 'Gen/*.glob',
                        '--exclude', 'Gen/.*.aux', '--exclude', '.Makefile.d', '--exclude', 'Makefile', '--exclude', 'Makefile.conf',
                        '--exclude', '.lia.cache', '--exclude', '.nia.cache',
                        os.path.join(VERIF, 'coq') + '/', COQ + '/'], check=True)
    EVID_ALT = True
EVID = os.path.join(VERIF, 'evidence') if os.path.realpath(REPO) == '/repo' else os.path.join(
    BUILD, 'alt_' + hashlib.sha1(os.path.realpath(REPO).encode()).hexdigest()[:10], 'evidence')
REPLAYS = os.path.join(EVID, 'replays')
NPROC = int(os.environ.get('VERIF_JOBS', '16'))

# Axioms a theorem may depend on without the obligation being counted broken
# (all are declared by the standard library / installed libraries, never here).
ALLOWED_AXIOMS = {
    'Eqdep.Eq_rect_eq.eq_rect_eq',
    'Coq.Logic.Eqdep.Eq_rect_eq.eq_rect_eq',
    'functional_extensionality_dep',
    'FunctionalExtensionality.functional_extensionality_dep',
    'Coq.Logic.FunctionalExtensionality.functional_extensionality_dep',
    'proof_irrelevance', 'ProofIrrelevance.proof_irrelevance',
    'Classical_Prop.classic', 'classic',
    'JMeq_eq', 'JMeq.JMeq_eq',
}

FORBIDDEN = re.compile(
    r'(?<![A-Za-z0-9_])(Admitted|admit|Axiom|Axioms|Parameter|Parameters|Conjecture|Conjectures|'
    r'Admit\s+Obligations|bypass_check|native_compute)(?![A-Za-z0-9_])'
    r'|Unset\s+Guard\s+Checking|Unset\s+Positivity\s+Checking|Unset\s+Universe\s+Checking'
    r'|-type-in-type|-impredicative-set')


class TranslateError(Exception):
    """A translator met source outside its recognised subset (fail closed)."""


class Ctx:
    def __init__(self, prop, tier, seed):
        self.prop = prop
        self.tier = tier
        self.seed = seed
        self.rng = random.Random('%s/%s' % (prop, seed))
        self.t0 = time.time()
        self.broken = []          # [(obligation, detail)]
        self.obligations = []     # names
        self.discharged = []
        self.trusted = []
        self.assumptions = []
        self.cov = {'evaluations': 0, 'distinct_nontrivial': 0, 'rule': '',
                    'samples': [], 'traces_validated_against_impl': 0,
                    'disagreements_checked': 0, 'suites': {}}
        self._distinct = set()
        self.failures = []        # oracle failures: dict(signature, what, replay)
        self.disagreements = []   # dict(suite, case, model, impl)
        self.notes = []

    # -- bookkeeping -------------------------------------------------------
    def thorough(self):
        return self.tier == 'thorough'

    def n(self, quick, thorough):
        return thorough if self.tier == 'thorough' else quick

    def count(self, suite, case_key=None, nontrivial=True, evaluations=1):
        self.cov['evaluations'] += evaluations
        s = self.cov['suites'].setdefault(suite, {'evaluations': 0, 'distinct_nontrivial': 0})
        s['evaluations'] += evaluations
        if case_key is not None and nontrivial:
            h = hashlib.sha1(repr((suite, case_key)).encode()).digest()[:10]
            if h not in self._distinct:
                self._distinct.add(h)
                s['distinct_nontrivial'] += 1
                self.cov['distinct_nontrivial'] += 1

    def sample(self, obj, limit=8):
        if len(self.cov['samples']) < limit:
            self.cov['samples'].append(obj)

    def obligation(self, name, ok, detail=''):
        self.obligations.append(name)
        if ok:
            self.discharged.append(name)
        else:
            self.broken.append((name, detail[-4000:] if isinstance(detail, str) else detail))

    def disagree(self, suite, case, model, impl):
        self.disagreements.append({'suite': suite, 'case': case, 'model': model, 'impl': impl})

    def fail(self, signature, what, replay):
        """An implementation-side property-oracle failure (a concrete failing input)."""
        self.failures.append({'signature': signature, 'what': what, 'replay': replay})


# ---------------------------------------------------------------------------
# Gen/ regeneration

def write_if_changed(path, text):
    try:
        with open(path) as f:
            if f.read() == text:
                return False
    except OSError:
        pass
    tmp = path + '.tmp%d' % os.getpid()
    with open(tmp, 'w') as f:
        f.write(text)
    os.replace(tmp, path)
    return True


class BuildLock:
    def __enter__(self):
        os.makedirs(BUILD, exist_ok=True)
        self.f = open(os.path.join(BUILD, '.lock_' + hashlib.sha1(COQ.encode()).hexdigest()[:8]), 'w')
        fcntl.flock(self.f, fcntl.LOCK_EX)
        return self

    def __exit__(self, *a):
        fcntl.flock(self.f, fcntl.LOCK_UN)
        self.f.close()


def regenerate(ctx, names):
    """Run translators for the given Gen file names; record one obligation each."""
    sys.path.insert(0, os.path.join(VERIF, 'translate'))
    import importlib
    os.makedirs(os.path.join(COQ, 'Gen'), exist_ok=True)
    for name in names:
        ob = 'translate:Gen/%s.v' % name
        try:
            mod = importlib.import_module('tr_' + name.lower())
            text = mod.translate(REPO)
            with BuildLock():
                path = os.path.join(COQ, 'Gen', name + '.v')
                write_if_changed(path, text)
                if COQ != os.path.join(VERIF, 'coq'):
                    # scratch copy of the Coq tree: the compiled files it was seeded with were built against the
                    # generated files of /repo; when this one differs it must be newer than all of them, so that
                    # make rebuilds everything that depends on it
                    try:
                        same = open(os.path.join(VERIF, 'coq', 'Gen', name + '.v')).read() == text
                    except OSError:
                        same = False
                    if not same:
                        os.utime(path, None)
            ctx.obligation(ob, True)
            ctx.trusted.append('translator translate/tr_%s.py (Python ast, fail-closed)' % name.lower())
        except TranslateError as e:
            ctx.obligation(ob, False, 'TranslateError: %s' % e)
        except Exception as e:  # fail closed
            ctx.obligation(ob, False, '%s: %s' % (type(e).__name__, e))


def all_gen_names_cased():
    """Gen file names of all translators (each translate/tr_<x>.py declares NAME)."""
    import importlib
    d = os.path.join(VERIF, 'translate')
    sys.path.insert(0, d)
    out = []
    for f in sorted(os.listdir(d)):
        if f.startswith('tr_') and f.endswith('.py'):
            out.append(importlib.import_module(f[:-3]).NAME)
    return out


# ---------------------------------------------------------------------------
# Coq

def coq_sources():
    out = []
    for sub in ('Gen', 'Model', 'Proofs', 'Properties'):
        d = os.path.join(COQ, sub)
        if os.path.isdir(d):
            for f in sorted(os.listdir(d)):
                if f.endswith('.v'):
                    out.append('%s/%s' % (sub, f))
    return out


def grep_gate():
    """No Axiom/Admitted/... anywhere in the development. Returns list of hits."""
    hits = []
    for rel in coq_sources():
        p = os.path.join(COQ, rel)
        txt = open(p).read()
        # strip comments (non-nested approximation is fine: nested comments only hide more)
        stripped = re.sub(r'\(\*.*?\*\)', ' ', txt, flags=re.S)
        for i, line in enumerate(stripped.split('\n'), 1):
            if FORBIDDEN.search(line):
                hits.append('%s:%d: %s' % (rel, i, line.strip()[:120]))
    cp = os.path.join(COQ, '_CoqProject')
    if os.path.exists(cp) and FORBIDDEN.search(open(cp).read()):
        hits.append('_CoqProject: forbidden flag')
    return hits


def write_coqproject():
    lines = ['-R . Mistral', '-arg -w', '-arg -notation-overridden,-deprecated-hint-without-locality,-deprecated-instance-without-locality,-ambiguous-paths']
    lines += coq_sources()
    write_if_changed(os.path.join(COQ, '_CoqProject'), '\n'.join(lines) + '\n')


def run(cmd, cwd=None, timeout=1200, env=None):
    try:
        p = subprocess.run(cmd, cwd=cwd, stdout=subprocess.PIPE, stderr=subprocess.STDOUT,
                           timeout=timeout, env=env, text=True, errors='replace')
        return p.returncode, p.stdout
    except subprocess.TimeoutExpired as e:
        return 124, (e.stdout or '') + '\nTIMEOUT after %ss' % timeout


def make(targets, timeout=1500):
    """Full .vo build of the given targets (relative to coq/), serialised by a lock."""
    with BuildLock():
        write_coqproject()
        mk = os.path.join(COQ, 'Makefile')
        cp = os.path.join(COQ, '_CoqProject')
        if not os.path.exists(mk) or os.path.getmtime(mk) < os.path.getmtime(cp):
            rc, out = run(['coq_makefile', '-f', '_CoqProject', '-o', 'Makefile'], cwd=COQ, timeout=60)
            if rc != 0:
                return rc, out
        return run(['timeout', str(timeout), 'make', '-j%d' % NPROC] + targets, cwd=COQ, timeout=timeout + 30)


COQFLAGS = ['-R', COQ, 'Mistral', '-w', '-notation-overridden,-deprecated-hint-without-locality,-deprecated-instance-without-locality,-ambiguous-paths']


def coqc(path, timeout=600, cwd=None):
    return run(['timeout', str(timeout), 'coqc'] + COQFLAGS + [path], cwd=cwd, timeout=timeout + 10)


def parse_assumptions(out):
    """Split coqc output of a Properties file into {theorem: [axioms]} using the
    'Print Assumptions' blocks, in order of appearance."""
    blocks = []
    cur = None
    for line in out.split('\n'):
        if line.startswith('Closed under the global context'):
            blocks.append([])
            cur = None
        elif line.startswith('Axioms:'):
            cur = []
            blocks.append(cur)
        elif cur is not None:
            m = re.match(r'^([A-Za-z_][\w.\']*)\s*(:|$)', line)
            if m and not line.startswith(' '):
                cur.append(m.group(1))
            elif line.strip() == '' or not line.startswith(' '):
                if line.strip() and not line.startswith(' '):
                    cur = None
    return blocks


def build_properties(ctx, prop):
    """grep gate + make Properties/<prop>.vo + re-run coqc on it to collect
    Print Assumptions. Records one obligation per theorem of the file."""
    hits = grep_gate()
    ctx.obligation('gate:no-axiom-no-admitted', not hits, '\n'.join(hits))
    rel = 'Properties/%s.v' % prop
    src = os.path.join(COQ, rel)
    text = open(src).read()
    theorems = re.findall(r'^\s*(?:Theorem|Lemma|Corollary)\s+([A-Za-z_][\w\']*)', text, flags=re.M)
    printed = re.findall(r'^\s*Print\s+Assumptions\s+([A-Za-z_][\w\']*)', text, flags=re.M)
    rc, out = make([rel[:-2] + '.vo'])
    if rc != 0:
        # find which theorem (if any) the error is in
        m = re.search(r'File "\./?%s", line (\d+)' % re.escape(rel), out)
        bad = None
        if m:
            ln = int(m.group(1))
            upto = '\n'.join(text.split('\n')[:ln])
            prev = re.findall(r'^\s*(?:Theorem|Lemma|Corollary)\s+([A-Za-z_][\w\']*)', upto, flags=re.M)
            bad = prev[-1] if prev else None
        dep = re.search(r'File "\./?((?:Gen|Model|Proofs)/\w+\.v)", line (\d+)', out)
        for t in theorems:
            if dep or bad is None or t == bad:
                ctx.obligation('theorem:' + t, False, out[-3000:])
            else:
                # cannot know: a failure stops the file, so later theorems are unchecked
                idx_bad, idx_t = theorems.index(bad), theorems.index(t)
                ctx.obligation('theorem:' + t, idx_t < idx_bad, 'not reached: %s failed first' % bad)
        if not theorems:
            ctx.obligation('build:' + rel, False, out[-3000:])
        return False
    # compiled; collect assumptions by recompiling the (tiny) Properties file into a scratch copy
    with BuildLock():
        rc2, out2 = coqc(src, timeout=600)
    blocks = parse_assumptions(out2)
    if rc2 != 0 or len(blocks) != len(printed):
        ctx.obligation('assumptions:' + rel, False,
                       'rc=%s blocks=%d printed=%d\n%s' % (rc2, len(blocks), len(printed), out2[-2000:]))
        for t in theorems:
            ctx.obligation('theorem:' + t, rc2 == 0, out2[-1500:])
        return rc2 == 0
    ax_by = dict(zip(printed, blocks))
    for t in theorems:
        if t not in ax_by:
            ctx.obligation('theorem:' + t, False, 'no Print Assumptions for %s in %s' % (t, rel))
            continue
        bad = [a for a in ax_by[t] if a not in ALLOWED_AXIOMS and a.split('.')[-1] not in ALLOWED_AXIOMS]
        ctx.obligation('theorem:' + t, not bad, 'depends on axioms outside the trusted base: %s' % bad)
        for a in ax_by[t]:
            s = 'axiom %s (used by %s)' % (a, t)
            if s not in ctx.trusted:
                ctx.trusted.append(s)
    ctx.cov['theorems'] = theorems
    ctx.cov['axioms'] = {t: ax_by.get(t, []) for t in theorems}
    return True


# -- evaluating model definitions inside Coq (correspondence) ---------------

def coq_eval(name, imports, exprs, chunk=400, timeout=900):
    """Evaluate each Coq expression (which must reduce to a `string` built by the
    model's own printer, or to a bool/nat/Z numeral) with vm_compute.
    Returns list of result strings in order. Uses one coqc process per chunk,
    chunks run in parallel. Each expr is wrapped so the output is one line
    `@@i@@<value>@@` and is robust to Coq's line wrapping."""
    os.makedirs(BUILD, exist_ok=True)
    files = []
    for ci in range(0, len(exprs), chunk):
        part = exprs[ci:ci + chunk]
        # module names must be valid identifiers
        modname = 'cases_%s_%d_%d' % (re.sub(r'\W', '_', name), os.getpid(), ci // chunk)
        path = os.path.join(BUILD, modname + '.v')
        with open(path, 'w') as f:
            f.write('From Coq Require Import String ZArith List NArith Bool Ascii.\n')
            for imp in imports:
                f.write('Require Import Mistral.%s.\n' % imp)
            f.write('Import ListNotations.\nOpen Scope string_scope.\n')
            f.write('Set Printing Width 1000000.\nSet Printing Depth 1000000.\n')
            for i, e in enumerate(part):
                f.write('Definition case_%d := %s.\n' % (i, e))
                f.write('Eval vm_compute in (%d%%Z, case_%d).\n' % (ci + i, i))
        files.append((path, len(part), ci))
    results = [None] * len(exprs)
    procs = []
    errors = []

    def launch(item):
        path, n, ci = item
        return subprocess.Popen(['bash', '-c', 'ulimit -s unlimited 2>/dev/null; exec timeout %d coqc "$@"' % timeout, 'coqc'] + COQFLAGS + [path],
                                stdout=subprocess.PIPE, stderr=subprocess.STDOUT, text=True, errors='replace')
    pending = list(files)
    running = []
    while pending or running:
        while pending and len(running) < NPROC:
            it = pending.pop(0)
            running.append((it, launch(it)))
        it, p = running.pop(0)
        out, _ = p.communicate()
        if p.returncode != 0:
            errors.append(out[-3000:])
        for m in re.finditer(r'=\s*\((\d+)(?:%\w+)?,\s*(.*?)\)\s*\n\s*:\s', out, flags=re.S):
            results[int(m.group(1))] = re.sub(r'\s+', ' ', m.group(2)).strip()
        base = it[0][:-2]
        for ext in ('.v', '.vo', '.vok', '.vos', '.glob'):
            try:
                os.remove(base + ext)
            except OSError:
                pass
        try:
            os.remove(os.path.join(os.path.dirname(base), '.' + os.path.basename(base) + '.aux'))
        except OSError:
            pass
    if errors:
        raise CoqEvalError(errors[0])
    return results


class CoqEvalError(Exception):
    pass


def coq_str(s):
    """A Coq string literal."""
    return '"' + s.replace('"', '""') + '"'


def unquote(s):
    s = s.strip()
    if s.endswith('%string'):
        s = s[:-7]
    if len(s) >= 2 and s[0] == '"' and s[-1] == '"':
        return s[1:-1].replace('""', '"')
    return s


def coq_list(items):
    return '[' + '; '.join(items) + ']'


def coq_bool(b):
    return 'true' if b else 'false'


def coq_Z(n):
    return '(%d)%%Z' % n


def coq_N(n):
    return '%d%%N' % n


def coq_nat(n):
    return '%d%%nat' % n


def coq_option(x):
    return 'None' if x is None else '(Some %s)' % x


# ---------------------------------------------------------------------------
# known findings, evidence, verdict

def load_known():
    p = os.path.join(VERIF, 'known_findings.json')
    if not os.path.exists(p):
        return {'open': [], 'fixed': []}
    return json.load(open(p))


def write_replay(prop, tag, obj):
    os.makedirs(REPLAYS, exist_ok=True)
    h = hashlib.sha1(json.dumps(obj, sort_keys=True, default=str).encode()).hexdigest()[:10]
    path = os.path.join(REPLAYS, '%s-%s-%s.json' % (prop, tag, h))
    with open(path, 'w') as f:
        json.dump(obj, f, indent=1, sort_keys=True, default=str)
    return os.path.relpath(path, VERIF)


def finish(ctx, suite_mod):
    """Verdict logic of DESIGN.md 3.3. Returns exit code."""
    prop = ctx.prop
    known = [k for k in load_known().get('open', []) if k['property'] == prop]
    lines = []
    violations = 0
    known_hit = {}
    new_failures = []
    for f in ctx.failures:
        k = next((k for k in known if k['signature'] == f['signature']), None)
        if k is not None:
            known_hit.setdefault(k['signature'], (k, f))
        else:
            new_failures.append(f)
    for sig, (k, f) in known_hit.items():
        lines.append('KNOWN-FINDING: property=%s %s' % (prop, k['what']))
    seen_sig = set()
    for f in new_failures:
        if f['signature'] in seen_sig:
            continue
        seen_sig.add(f['signature'])
        path = write_replay(prop, 'fail', {'property': prop, 'kind': 'failing-input', 'signature': f['signature'],
                                           'what': f['what'], 'replay': f['replay'], 'seed': ctx.seed, 'tier': ctx.tier})
        lines.append('VIOLATION property=%s replay=%s' % (prop, path))
        violations += 1
    if (ctx.broken or ctx.disagreements) and not new_failures:
        # proof obligation or correspondence broken but the oracle saw no failing input so far:
        # widen the search (suite-specific), then report either way.
        found = []
        if hasattr(suite_mod, 'search'):
            before = len(ctx.failures)
            try:
                suite_mod.search(ctx)
            except Exception as e:  # the search must not hide the broken obligation
                ctx.notes.append('search crashed: %r' % (e,))
            for f in ctx.failures[before:]:
                if not any(k['signature'] == f['signature'] for k in known):
                    found.append(f)
        if found:
            f = found[0]
            path = write_replay(prop, 'fail', {'property': prop, 'kind': 'failing-input', 'signature': f['signature'],
                                               'what': f['what'], 'replay': f['replay'], 'seed': ctx.seed,
                                               'broken_obligations': ctx.broken,
                                               'disagreements': ctx.disagreements[:5]})
            lines.append('VIOLATION property=%s replay=%s' % (prop, path))
        else:
            path = write_replay(prop, 'broken', {'property': prop, 'kind': 'no-failing-input-found',
                                                 'broken_obligations': ctx.broken,
                                                 'disagreements': ctx.disagreements[:10],
                                                 'note': 'the named theorem / translator / correspondence suite no longer checks; '
                                                         'the search over the implementation found no input on which the property fails',
                                                 'seed': ctx.seed, 'tier': ctx.tier})
            lines.append('VIOLATION property=%s replay=%s no-failing-input-found' % (prop, path))
        violations += 1
    wall = time.time() - ctx.t0
    cov = dict(ctx.cov)
    cov['obligations'] = len(ctx.obligations)
    cov['discharged'] = len(ctx.discharged)
    cov['obligation_names'] = ctx.obligations
    cov['broken'] = [b[0] for b in ctx.broken]
    cov['checker_cmd'] = 'coq_makefile -f _CoqProject -o Makefile && make Properties/%s.vo (coqc 8.16.1, full .vo build) ; coqc Properties/%s.v for Print Assumptions' % (prop, prop)
    cov['trusted_base'] = sorted(set(ctx.trusted + [
        'Coq 8.16.1 kernel incl. vm_compute (no native_compute)',
        'harness/core.py verdict logic and view canonicalisation']))
    cov['disagreements_checked'] = ctx.cov['disagreements_checked']
    cov['known_findings_reproduced'] = sorted(known_hit)
    if ctx.notes:
        cov['notes'] = ctx.notes
    if cov['distinct_nontrivial'] < 2:
        # the schema's fallback is not needed for proof level, keep the measured number
        pass
    ev = {'property_id': prop, 'tier': ctx.tier, 'seed': ctx.seed, 'level': 'proof', 'coverage': cov,
          'assumptions': ctx.assumptions, 'wall_s': round(wall, 2), 'violations': violations}
    os.makedirs(EVID, exist_ok=True)
    tmp = os.path.join(EVID, '%s.json.tmp' % prop)
    with open(tmp, 'w') as f:
        json.dump(ev, f, indent=1, default=str)
    os.replace(tmp, os.path.join(EVID, '%s.json' % prop))
    for l in lines:
        print(l)
    print('%s tier=%s seed=%d obligations=%d/%d evaluations=%d distinct=%d disagreements=%d failures=%d wall=%.1fs -> %s' % (
        prop, ctx.tier, ctx.seed, len(ctx.discharged), len(ctx.obligations), cov['evaluations'],
        cov['distinct_nontrivial'], len(ctx.disagreements), len(ctx.failures), wall,
        'VIOLATION' if violations else 'ok'))
    if ctx.broken:
        for b in ctx.broken[:5]:
            print('  broken: %s\n    %s' % (b[0], str(b[1]).strip().replace('\n', '\n    ')[-1500:]))
    for d in ctx.disagreements[:3]:
        print('  disagreement: %s' % json.dumps(d, default=str)[:1500])
    return 1 if violations else 0
