"""setup: regenerate Gen/ from the repo, full .vo build of everything."""
import sys

from harness import core


def main():
    ctx = core.Ctx('setup', 'quick', 0)
    core.regenerate(ctx, core.all_gen_names_cased())
    for b in ctx.broken:
        print('translator failed (the checks depending on it will report it):', b[0], b[1])
    rc, out = core.make(['all'], timeout=3000)
    print(out[-3000:])
    if rc != 0:
        # a proof that does not build is reported by the property checks, not by setup
        print('setup: make exited %d (property checks will name the broken theorem)' % rc)
    sys.exit(0)


if __name__ == '__main__':
    main()
