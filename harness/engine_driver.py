"""Deterministic single-threaded driver for the REAL mistral engine (DESIGN.md section 4).

Nothing of the engine, handlers, controllers, policies, scheduler persistence or DB
layer is stubbed.  The four asynchrony mechanisms are replaced by explicit pending
items that the caller fires one at a time:

  rpc   engine messages (start_task, on_action_complete, on_action_update, start_workflow)
        sent through rpc.get_engine_client()
  exec  executor requests (run_action) sent through executors.get_executor(); firing one
        runs the REAL DefaultExecutor on it (the registered `verif.act` action takes its
        outcome from the case's outcome oracle), which sends the result message
  ptq   post-commit operation queues (post_tx_queue.run spawns a thread per decorated
        call: the thread's target becomes a pending item, fired as a whole)
  job   scheduler rows (legacy: delayed_calls_v2, default: scheduled_jobs_v2), run through
        the real capture -> prepare -> invoke -> delete code path, gated by a virtual clock

After every event `view()` abstracts the committed DB into a canonical structure with
canonical ids (no UUIDs, timestamps or message texts).
"""
import collections
import copy
import datetime
import json
import random
import threading
import traceback

try:  # same as mistral/tests/unit/__init__.py: threading backend, not eventlet
    import oslo_service.backend as _service_backend
    _service_backend.init_backend(_service_backend.BackendType.THREADING)
except Exception:  # already selected
    pass

from oslo_config import cfg

from mistral.db.v2 import api as db_api  # noqa: must be imported before other mistral modules
from mistral import context as auth_context
from mistral import exceptions as exc
from mistral.engine import default_engine
from mistral.engine import post_tx_queue
from mistral.executors import base as exe_base
from mistral.executors import default_executor
from mistral.lang import parser as spec_parser
from mistral.rpc import clients as rpc_clients
from mistral.scheduler import base as sched_base
from mistral.services import action_heartbeat_sender
from mistral.services import actions as action_service
from mistral.services import workflows as wf_service
from mistral.services import workbooks as wb_service
from mistral.workflow import states
from mistral_lib import actions as ml_actions
from mistral_lib import exceptions as ml_exc
from mistral_lib import utils as ml_utils

CONF = cfg.CONF
EPOCH = datetime.datetime(2030, 1, 1, 0, 0, 0)

_DRIVER = None


class VerifAction(ml_actions.Action):
    """Test action whose outcome comes from the driver's outcome oracle."""

    def __init__(self, tag='', item=None, value=None, sync=True):
        self.tag = tag
        self.item = item
        self.value = value
        self.sync = sync

    def is_sync(self):
        return self.sync

    def run(self, context):
        return _DRIVER.action_outcome(self.tag, self.item, self.value)

    def test(self, context):
        return None


class _FakeThread:
    """post_tx_queue's thread: starting it just records the target as a pending item."""

    def __init__(self, target=None, args=(), kwargs=None, **kw):
        self.target = target
        self.args = args
        self.kwargs = kwargs or {}
        self.daemon = True

    def start(self):
        _DRIVER.add_pending('ptq', {'target': self.target, 'args': self.args, 'kwargs': self.kwargs})

    def join(self, timeout=None):
        pass

    def is_alive(self):
        return False


class _FakeThreadingModule:
    Thread = _FakeThread
    Lock = threading.Lock
    RLock = threading.RLock
    Event = threading.Event
    local = threading.local
    current_thread = staticmethod(threading.current_thread)


class _FakeEngineClient:
    def start_workflow(self, wf_identifier, wf_namespace='', wf_ex_id=None, wf_input=None,
                       description='', async_=False, **params):
        _DRIVER.add_pending('rpc', {'method': 'start_workflow', 'kw': dict(
            wf_identifier=wf_identifier, wf_namespace=wf_namespace, wf_ex_id=wf_ex_id,
            wf_input=copy.deepcopy(wf_input or {}), description=description, **copy.deepcopy(params))})

    def start_task(self, task_ex_id, first_run, waiting, triggered_by, rerun, reset, **params):
        _DRIVER.add_pending('rpc', {'method': 'start_task', 'kw': dict(
            task_ex_id=task_ex_id, first_run=first_run, waiting=waiting,
            triggered_by=copy.deepcopy(triggered_by), rerun=rerun, reset=reset)})

    def on_action_complete(self, action_ex_id, result, wf_action=False, async_=False):
        _DRIVER.add_pending('rpc', {'method': 'on_action_complete', 'kw': dict(
            action_ex_id=action_ex_id, result=result, wf_action=wf_action)})

    def on_action_update(self, action_ex_id, state, wf_action=False, async_=False):
        _DRIVER.add_pending('rpc', {'method': 'on_action_update', 'kw': dict(
            action_ex_id=action_ex_id, state=state, wf_action=wf_action)})

    def process_action_heartbeats(self, action_ex_ids):
        _DRIVER.add_pending('rpc', {'method': 'process_action_heartbeats', 'kw': dict(action_ex_ids=list(action_ex_ids))})

    def report_running_actions(self, action_ex_ids):
        self.process_action_heartbeats(action_ex_ids)


class _FakeExecutor:
    def run_action(self, action, action_ex_id, safe_rerun, exec_ctx, redelivered=False,
                   target=None, async_=True, timeout=None):
        _DRIVER.add_pending('exec', {'action': action, 'action_ex_id': action_ex_id, 'safe_rerun': safe_rerun,
                                     'exec_ctx': exec_ctx, 'target': target, 'timeout': timeout})
        return None


class Outcome:
    """result class of firing one event"""
    OK = 'ok'
    DECLARED = 'declared'      # a Mistral-declared exception escaped the entry point
    INTERNAL = 'internal'      # any other exception escaped


class Driver:
    booted = False

    def __init__(self, scheduler_type='legacy', seed=0):
        global _DRIVER
        _DRIVER = self
        self.scheduler_type = scheduler_type
        self.seed = seed
        self._boot(scheduler_type)
        self.engine = default_engine.DefaultEngine()
        self.reset(seed)

    # ------------------------------------------------------------------ boot
    @classmethod
    def _boot(cls, scheduler_type):
        if cls.booted:
            if CONF.scheduler_type != scheduler_type:
                CONF.set_override('scheduler_type', scheduler_type)
                sched_base.destroy_system_scheduler()
                sched_base._SCHEDULER_IMPL = None
            return
        from mistral import config  # noqa
        try:
            config.parse_args([])
        except Exception:
            pass
        CONF.set_default('connection', 'sqlite://', group='database')
        CONF.set_default('max_overflow', -1, group='database')
        CONF.set_default('max_pool_size', 1000, group='database')
        CONF.set_override('scheduler_type', scheduler_type)
        CONF.set_override('only_builtin_actions', True, group='legacy_action_provider')
        CONF.set_override('load_action_generators', False, group='legacy_action_provider')
        CONF.set_override('auth_enable', False, group='pecan')
        db_api.setup_db()
        # interception points
        rpc_clients.get_engine_client = lambda: _FAKE_CLIENT
        import mistral.rpc.clients as rc
        rc._ENGINE_CLIENT = _FAKE_CLIENT
        exe_base.get_executor = lambda t=None: _FAKE_EXECUTOR
        post_tx_queue.threading = _FakeThreadingModule
        ml_utils.utc_now_sec = lambda: _DRIVER.now()
        from oslo_utils import timeutils
        timeutils.utcnow = lambda with_timezone=False: _DRIVER.now()
        ml_utils.generate_unicode_uuid = lambda: _DRIVER.gen_uuid()
        # column defaults captured the original uuid function at import time (workflow executions,
        # delayed calls, ...): make them use the seeded generator too, so that every ORDER BY id is
        # reproducible
        import sqlalchemy as sa
        from mistral.db.v2.sqlalchemy import models as db_models
        from mistral.db.sqlalchemy import model_base as mb
        for mapper in mb.MistralModelBase.registry.mappers if hasattr(mb.MistralModelBase, 'registry') else []:
            tbl = mapper.local_table
            if 'id' in tbl.c and tbl.c.id.default is not None and callable(getattr(tbl.c.id.default, 'arg', None)):
                tbl.c.id.default = sa.ColumnDefault(lambda: _DRIVER.gen_uuid())
                tbl.c.id.default._set_parent_with_dispatch(tbl.c.id)
        action_heartbeat_sender.add_action = lambda a: None
        action_heartbeat_sender.remove_action = lambda a: None
        _install_fast_schema_check()
        # post_tx_queue logs and swallows exceptions of non-transactional operations (a lost
        # start_task / run_action / result message): record them for the oracles

        class _RecLog:
            def __init__(self, inner):
                self._inner = inner

            def exception(self, msg, *a, **kw):
                import sys as _sys
                e = _sys.exc_info()[1]
                _DRIVER.swallowed.append({'where': str(msg)[:80], 'type': type(e).__name__, 'msg': str(e)[:200]})
                return self._inner.exception(msg, *a, **kw)

            def __getattr__(self, n):
                return getattr(self._inner, n)
        post_tx_queue.LOG = _RecLog(post_tx_queue.LOG)
        # log every individual compare-and-swap of a workflow / task state (C03 oracle granularity)
        orig_wf_cas = db_api.update_workflow_execution_state
        orig_task_cas = db_api.update_task_execution_state

        def wf_cas(id, cur_state, state):
            res = orig_wf_cas(id=id, cur_state=cur_state, state=state)
            if res is not None:
                _DRIVER.cas_log.append(('wf', id, cur_state, state))
            return res

        def task_cas(id, cur_state, state):
            res = orig_task_cas(id=id, cur_state=cur_state, state=state)
            if res is not None:
                _DRIVER.cas_log.append(('task', id, cur_state, state))
            return res
        db_api.update_workflow_execution_state = wf_cas
        db_api.update_task_execution_state = task_cas
        cls.booted = True

    def _ctx(self):
        from mistral.services import security
        return auth_context.MistralContext.from_dict({
            'user_name': 'test-user', 'user': '1-2-3-4', 'tenant': security.DEFAULT_PROJECT_ID,
            'project_id': security.DEFAULT_PROJECT_ID, 'project_name': 'test-project', 'is_admin': False})

    # ----------------------------------------------------------------- reset
    def reset(self, seed=0):
        self.seed = seed
        self.uuid_rng = random.Random('uuid/%s' % seed)
        self.uuid_order = {}
        self.clock = 0                      # virtual seconds since EPOCH
        self.pending = collections.OrderedDict()   # pid -> item
        self.next_pid = 0
        self.oracle = {}                    # (tag, item, attempt) -> outcome spec
        self.calls = collections.Counter()  # (tag, item) -> attempts so far
        self.entry_errors = []              # non-declared exceptions escaping entry points / jobs
        self.swallowed = []                 # exceptions swallowed by post_tx_queue (lost post-commit operations)
        self.event_log = []
        self.cas_log = []
        auth_context.set_ctx(self._ctx())
        with db_api.transaction():
            db_api.delete_event_triggers()
            db_api.delete_cron_triggers()
            db_api.delete_workflow_executions()
            db_api.delete_task_executions()
            db_api.delete_action_executions()
            db_api.delete_workbooks()
            db_api.delete_workflow_definitions()
            db_api.delete_action_definitions()
            db_api.delete_environments()
            db_api.delete_delayed_calls()
            db_api.delete_scheduled_jobs()
        spec_parser.clear_caches()
        sched_base.destroy_system_scheduler()
        self.sched = sched_base.get_system_scheduler()   # threads are never started
        provider = action_service.get_test_action_provider()
        provider.cleanup()
        provider.register_python_action('verif.act', VerifAction)
        action_service.get_system_action_provider()

    # ------------------------------------------------------------- utilities
    def now(self):
        return EPOCH + datetime.timedelta(seconds=self.clock)

    def gen_uuid(self):
        u = '%032x' % self.uuid_rng.getrandbits(128)
        self.uuid_order[u] = len(self.uuid_order)
        return u

    def add_pending(self, kind, payload):
        pid = self.next_pid
        self.next_pid += 1
        self.pending[pid] = {'kind': kind, 'payload': payload, 'pid': pid}
        return pid

    def action_outcome(self, tag, item, value):
        key = (tag, _hashable(item))
        n = self.calls[key]
        self.calls[key] += 1
        spec = self.oracle.get((tag, _hashable(item), n), self.oracle.get((tag, _hashable(item), None),
                               self.oracle.get((tag, None, None), ('ok', value))))
        kind = spec[0]
        if kind == 'ok':
            return ml_actions.Result(data=spec[1] if len(spec) > 1 else value)
        if kind == 'err':
            return ml_actions.Result(error=spec[1] if len(spec) > 1 else 'oracle error')
        if kind == 'cancel':
            return ml_actions.Result(error='cancelled by oracle', cancel=True)
        if kind == 'raise':
            raise RuntimeError('oracle raise')
        raise ValueError(spec)

    # --------------------------------------------------------- definitions
    def create_workflows(self, yaml_text, namespace=''):
        auth_context.set_ctx(self._ctx())
        return wf_service.create_workflows(yaml_text, namespace=namespace)

    def create_workbook(self, yaml_text, namespace=''):
        auth_context.set_ctx(self._ctx())
        return wb_service.create_workbook_v2(yaml_text, namespace=namespace)

    # ------------------------------------------------------------- entry points
    def _call(self, label, fn, *a, **kw):
        """Run one engine entry point; classify what escapes."""
        auth_context.set_ctx(self._ctx())
        try:
            res = fn(*a, **kw)
            return Outcome.OK, res
        except (exc.MistralException, exc.MistralError, ml_exc.MistralException) as e:
            return Outcome.DECLARED, e
        except Exception as e:  # noqa
            self.entry_errors.append({'event': label, 'type': type(e).__name__, 'msg': str(e)[:300],
                                      'tb': traceback.format_exc()[-1500:]})
            return Outcome.INTERNAL, e
        finally:
            auth_context.set_ctx(self._ctx())

    def start_workflow(self, name, wf_input=None, namespace='', wf_ex_id=None, **params):
        out, res = self._call('start_workflow', self.engine.start_workflow, name, namespace, wf_ex_id,
                              copy.deepcopy(wf_input or {}), '', **params)
        return out, (res.id if out == Outcome.OK else res)

    def operator(self, cmd, *a, **kw):
        """pause / resume / stop / rerun (operator commands go straight to the engine, as the API does)."""
        fn = {'pause': self.engine.pause_workflow, 'resume': self.engine.resume_workflow,
              'stop': self.engine.stop_workflow, 'rerun': self.engine.rerun_workflow,
              'action_update': self.engine.on_action_update,
              'action_complete': self.engine.on_action_complete}[cmd]
        return self._call(cmd, fn, *a, **kw)[0]

    # ------------------------------------------------------------ pending pool
    def jobs(self):
        """Scheduler rows currently in the store: [(row id, func, args, due seconds, processing)]"""
        out = []
        with db_api.transaction():
            if self.scheduler_type == 'legacy':
                for c in db_api.get_delayed_calls():
                    out.append({'id': c.id, 'func': c.target_method_name.split('.')[-1],
                                'args': copy.deepcopy(c.method_arguments), 'key': c.key,
                                'due': (c.execution_time - EPOCH).total_seconds(), 'captured': bool(c.processing)})
            else:
                for j in db_api.get_scheduled_jobs():
                    out.append({'id': j.id, 'func': j.func_name.split('.')[-1], 'args': copy.deepcopy(j.func_args),
                                'key': j.key, 'due': (j.execute_at - EPOCH).total_seconds(),
                                'captured': j.captured_at is not None})
        return out

    def enabled(self):
        """All events that may fire now: pending item ids and due, uncaptured job ids."""
        evs = [('item', pid) for pid in self.pending]
        for j in self.jobs():
            if not j['captured'] and j['due'] <= self.clock:
                evs.append(('job', j['id']))
        return evs

    def next_due(self):
        dues = [j['due'] for j in self.jobs() if not j['captured'] and j['due'] > self.clock]
        return min(dues) if dues else None

    def tick(self, to=None):
        nd = self.next_due() if to is None else to
        if nd is not None and nd > self.clock:
            self.clock = nd
            return True
        return False

    # ------------------------------------------------------------------ fire
    def fire(self, ev):
        kind, ident = ev
        if kind == 'job':
            return self._fire_job(ident)
        item = self.pending.pop(ident)
        return self._fire_item(item)

    def redeliver(self, item):
        """Deliver a copy of an already delivered message again (duplicate)."""
        return self._fire_item(copy.copy(item))

    def _fire_item(self, item):
        k, p = item['kind'], item['payload']
        if k == 'rpc':
            m = p['method']
            kw = dict(p['kw'])
            if m == 'start_task':
                return self._call(m, self.engine.start_task, **kw)[0]
            if m == 'on_action_complete':
                return self._call(m, self.engine.on_action_complete, kw['action_ex_id'], kw['result'], kw['wf_action'])[0]
            if m == 'on_action_update':
                return self._call(m, self.engine.on_action_update, kw['action_ex_id'], kw['state'], kw['wf_action'])[0]
            if m == 'start_workflow':
                ident = kw.pop('wf_identifier')
                ns = kw.pop('wf_namespace')
                wid = kw.pop('wf_ex_id')
                inp = kw.pop('wf_input')
                desc = kw.pop('description')
                return self._call(m, self.engine.start_workflow, ident, ns, wid, inp, desc, **kw)[0]
            if m == 'process_action_heartbeats':
                return self._call(m, self.engine.process_action_heartbeats, kw['action_ex_ids'])[0]
            raise ValueError(m)
        if k == 'exec':
            ex = default_executor.DefaultExecutor()
            return self._call('run_action', ex.run_action, p['action'], p['action_ex_id'], p['safe_rerun'],
                              p['exec_ctx'], item.get('redelivered', False), p['target'], True, p['timeout'])[0]
        if k == 'ptq':
            return self._call('post_tx_queue', p['target'], *p['args'], **p['kwargs'])[0]
        raise ValueError(k)

    def _fire_job(self, row_id):
        """Run one scheduler row through the real capture/prepare/invoke/delete path."""
        from mistral.services import legacy_scheduler
        from mistral.scheduler import default_scheduler

        def body():
            if self.scheduler_type == 'legacy':
                with db_api.transaction():
                    db_call, cnt = db_api.update_delayed_call(
                        id=row_id, values={'processing': True}, query_filter={'processing': False})
                    if cnt != 1:
                        return 'lost-capture'
                    prepared = legacy_scheduler.LegacyScheduler._prepare_calls([db_call])
                self._in_job = True
                try:
                    # _invoke_calls logs and swallows exceptions: record them for the oracle
                    self._invoke_legacy(prepared)
                finally:
                    self._in_job = False
                legacy_scheduler.LegacyScheduler.delete_calls([db_call])
            else:
                # mirrors DefaultScheduler._process_memory_job (the in-memory path) when this
                # instance still holds the job, else _process_store_jobs (the store poll path)
                sch = self.sched
                job = sch.in_memory_jobs.get(row_id)
                try:
                    if job is None:
                        with db_api.transaction():
                            job = db_api.get_scheduled_job(row_id)
                            if not sch._capture_scheduled_job(job):
                                return 'lost-capture'
                    elif not sch._capture_scheduled_job(job):
                        return 'lost-capture'
                    self._in_job = True
                    try:
                        self._invoke_default(sch, job)
                    finally:
                        self._in_job = False
                    sch._delete_scheduled_job(job)
                finally:
                    with sch._cond:
                        sch.in_memory_jobs.pop(row_id, None)
                        def _hid(h):
                            # a job object expired by an acquire_lock() in the transaction that scheduled
                            # it is detached after commit: any attribute access raises; such entries are
                            # kept (the real dispatcher fails on them and the store poll runs the job)
                            try:
                                return h[2].id
                            except Exception:
                                return None
                        sch._heap = [h for h in sch._heap if _hid(h) != row_id]
            return 'ran'
        return self._call('job', body)[0]

    def _invoke_legacy(self, prepared):
        ctx_serializer = auth_context.RpcContextSerializer()
        for (target_auth_context, target_method, method_args) in prepared:
            try:
                ctx_serializer.deserialize_context(target_auth_context)
                target_method(**method_args)
            except (exc.MistralException, ml_exc.MistralException):
                pass
            except Exception as e:  # the real scheduler logs and swallows; the oracle wants to know
                self.entry_errors.append({'event': 'job:%s' % getattr(target_method, '__name__', '?'),
                                          'type': type(e).__name__, 'msg': str(e)[:300],
                                          'tb': traceback.format_exc()[-1500:]})
            finally:
                auth_context.set_ctx(None)

    def _invoke_default(self, sch, job):
        # mirrors DefaultScheduler._invoke_job but records swallowed non-declared exceptions
        from oslo_utils import importutils
        ctx_serializer = auth_context.RpcContextSerializer()
        try:
            ctx_serializer.deserialize_context(job.auth_ctx)
            if job.target_factory_func_name:
                factory = importutils.import_class(job.target_factory_func_name)
                func = getattr(factory(), job.func_name)
            else:
                func = importutils.import_class(job.func_name)
            func(**copy.deepcopy(job.func_args or {}))
        except (exc.MistralException, ml_exc.MistralException):
            pass
        except Exception as e:
            self.entry_errors.append({'event': 'job:%s' % job.func_name, 'type': type(e).__name__,
                                      'msg': str(e)[:300], 'tb': traceback.format_exc()[-1500:]})
        finally:
            auth_context.set_ctx(None)

    # ------------------------------------------------------------------ view
    def view(self):
        """Canonical abstraction of the committed DB + pending pool."""
        auth_context.set_ctx(self._ctx())
        v = {'wf': {}, 'tasks': {}, 'actions': {}, 'pending': []}
        with db_api.transaction():
            wfs = sorted(db_api.get_workflow_executions(), key=lambda w: (w.created_at, w.id))
            # canonical workflow ids
            wf_cid = {}
            task_cid = {}
            tasks_by_wf = collections.defaultdict(list)
            all_tasks = db_api.get_task_executions()
            for t in all_tasks:
                tasks_by_wf[t.workflow_execution_id].append(t)
            self._ids = {'wf': wf_cid, 'task': task_cid, 'act': {}}

            def name_tasks(wf):
                counters = collections.Counter()
                for t in sorted(tasks_by_wf[wf.id], key=lambda t: (t.created_at, t.name, _order_key(t))):
                    k = counters[t.name]
                    counters[t.name] += 1
                    task_cid[t.id] = '%s/%s#%d' % (wf_cid[wf.id], t.name, k)
            roots = [w for w in wfs if not w.task_execution_id]
            for i, w in enumerate(roots):
                wf_cid[w.id] = 'R%d' % i if len(roots) > 1 else 'R'
            todo = list(roots)
            while todo:
                w = todo.pop(0)
                name_tasks(w)
                for sub in wfs:
                    if sub.task_execution_id and sub.task_execution_id in task_cid and sub.id not in wf_cid:
                        idx = (sub.runtime_context or {}).get('index', 0)
                        wf_cid[sub.id] = '%s.sub%d' % (task_cid[sub.task_execution_id], idx)
                        # several attempts for the same index (retry/rerun): disambiguate by order
                        n = sum(1 for o in wf_cid.values() if o.startswith(wf_cid[sub.id]))
                        if n > 1:
                            wf_cid[sub.id] += '~%d' % (n - 1)
                        todo.append(sub)
            for w in wfs:
                cid = wf_cid.get(w.id, 'orphan:%s' % w.name)
                v['wf'][cid] = {
                    'name': w.workflow_name, 'state': w.state, 'accepted': bool(w.accepted),
                    'output': _strip(w.output), 'has_parent': bool(w.task_execution_id),
                    'root': wf_cid.get(w.root_execution_id) if w.root_execution_id else None,
                    'namespace': w.workflow_namespace,
                    'backlog': len((w.runtime_context or {}).get('backlog_commands') or []),
                    'state_info_set': bool(w.state_info),
                }
            for t in all_tasks:
                cid = task_cid.get(t.id, 'orphan:%s' % t.name)
                rc = t.runtime_context or {}
                v['tasks'][cid] = {
                    'state': t.state, 'processed': bool(t.processed),
                    'has_next_tasks': bool(t.has_next_tasks),
                    'next_tasks': sorted([list(x) for x in (t.next_tasks or [])]),
                    'error_handled': bool(t.error_handled),
                    'published': _strip(t.published),
                    'triggered_by': sorted((task_cid.get(x.get('task_id'), '?'), x.get('event')) for x in (rc.get('triggered_by') or [])),
                    'unique_key': bool(t.unique_key),
                    'type': t.type,
                }
                acts = sorted(t.executions, key=lambda a: (a.created_at, _order_key(a)))
                for i, a in enumerate(acts):
                    acid = '%s!%d' % (cid, i)
                    self._ids['act'][a.id] = acid
                    v['actions'][acid] = {'state': a.state, 'accepted': bool(a.accepted),
                                          'index': (a.runtime_context or {}).get('index', 0),
                                          'wf': hasattr(a, 'task_executions')}
        pend = []
        for it in self.pending.values():
            pend.append(self.describe(it))
        for j in self.jobs():
            pend.append('job:%s(%s)%s@%d' % (j['func'], self._cid_args(j['args']), '*' if j['captured'] else '', j['due']))
        v['pending'] = sorted(pend)
        return v

    def _cid_args(self, args):
        ids = getattr(self, '_ids', {'wf': {}, 'task': {}, 'act': {}})
        out = []
        for k in sorted(args or {}):
            val = args[k]
            if isinstance(val, str):
                val = ids['task'].get(val) or ids['wf'].get(val) or ids['act'].get(val) or val
            if k in ('wf_ex_id', 'task_ex_id', 'action_ex_id', 'state', 'wf_action'):
                out.append(str(val))
        return ','.join(out)

    def describe(self, it):
        ids = getattr(self, '_ids', {'wf': {}, 'task': {}, 'act': {}})
        k, p = it['kind'], it['payload']
        if k == 'rpc':
            kw = p['kw']
            if p['method'] == 'start_task':
                return 'rpc:start_task(%s,first=%s,rerun=%s)' % (ids['task'].get(kw['task_ex_id'], '?'), kw['first_run'], kw['rerun'])
            if p['method'] == 'on_action_complete':
                r = kw['result']
                cls = 'sub' if r is None else ('ok' if r.is_success() else ('cancel' if r.is_cancel() else 'err'))
                tgt = ids['wf'].get(kw['action_ex_id']) if kw['wf_action'] else ids['act'].get(kw['action_ex_id'])
                return 'rpc:on_action_complete(%s,%s)' % (tgt or '?', cls)
            if p['method'] == 'on_action_update':
                tgt = ids['wf'].get(kw['action_ex_id']) if kw['wf_action'] else ids['act'].get(kw['action_ex_id'])
                return 'rpc:on_action_update(%s,%s)' % (tgt or '?', kw['state'])
            if p['method'] == 'start_workflow':
                return 'rpc:start_workflow(%s)' % ids['task'].get(kw.get('task_execution_id'), '?')
            return 'rpc:%s' % p['method']
        if k == 'exec':
            return 'exec:run_action(%s)' % ids['act'].get(p['action_ex_id'], '?')
        return 'ptq'

    # ---------------------------------------------------------- running
    def run_schedule(self, rng, max_events=2000, on_event=None, tick=True):
        """Seeded random walk over enabled events until quiescence (ignoring the
        self-rescheduling integrity-check job).  Returns number of events fired."""
        n = 0
        while n < max_events:
            evs = [e for e in self.enabled() if not self._is_integrity_job(e)]
            if not evs:
                if tick and self._tick_non_integrity():
                    continue
                break
            ev = evs[rng.randrange(len(evs))]
            out = self.fire(ev)
            n += 1
            if on_event:
                on_event(ev, out)
        return n

    def _job_by_id(self, jid):
        for j in self.jobs():
            if j['id'] == jid:
                return j
        return None

    def _is_integrity_job(self, ev):
        if ev[0] != 'job':
            return False
        j = self._job_by_id(ev[1])
        return j is not None and j['func'] == '_check_and_fix_integrity'

    def _tick_non_integrity(self):
        dues = [j['due'] for j in self.jobs() if not j['captured'] and j['due'] > self.clock
                and j['func'] != '_check_and_fix_integrity']
        if dues:
            self.clock = min(dues)
            return True
        return False

    def quiescent(self):
        return not [e for e in self.enabled() if not self._is_integrity_job(e)] and not [
            j for j in self.jobs() if j['func'] != '_check_and_fix_integrity']


def _install_fast_schema_check():
    """jsonschema.validate() re-validates the *schema* against its metaschema on every call
    (most of the cost of registering a workflow).  Mistral's schemas are constants: check each
    distinct schema once.  Instance validation is untouched."""
    import jsonschema
    from jsonschema import validators as jv
    from jsonschema.exceptions import best_match
    checked = set()

    def validate(instance, schema, cls=None, *args, **kwargs):
        if cls is None:
            cls = jv.validator_for(schema)
        key = json.dumps(schema, sort_keys=True, default=str)
        if key not in checked:
            cls.check_schema(schema)
            checked.add(key)
        validator = cls(schema, *args, **kwargs)
        error = best_match(validator.iter_errors(instance))
        if error is not None:
            raise error
    jsonschema.validate = validate


_FAKE_CLIENT = _FakeEngineClient()
_FAKE_EXECUTOR = _FakeExecutor()


def _hashable(x):
    try:
        hash(x)
        return x
    except TypeError:
        return json.dumps(x, sort_keys=True)


def _order_key(row):
    # rows created in the same virtual second: fall back to the seeded uuid order being
    # irrelevant - use the insertion order kept by sqlite rowid when available
    rid = getattr(row, 'id', '')
    return (_DRIVER.uuid_order.get(rid, 1 << 60), rid)


def _strip(d):
    """Data keys only: drop internal `__...` keys, recursively canonicalise."""
    if isinstance(d, dict):
        return {k: _strip(v) for k, v in sorted(d.items()) if not (isinstance(k, str) and k.startswith('__'))}
    if isinstance(d, (list, tuple)):
        return [_strip(x) for x in d]
    return d
