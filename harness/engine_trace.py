"""Trace correspondence between the REAL engine (harness/engine_driver.py) and
coq/Model/Engine.v for the control-flow core class, plus the implementation-side
property oracles of C01/C03/C04/C06/C10/C11/C12 evaluated on the real traces.

A *program* is an abstract term printed both as workflow YAML (for mistral) and as a
Gallina `spec` (for the model).  A *trace* is the list of events the seeded walk chose
on the real engine; the same list (as `ev` terms) is replayed by the model inside coqc
and the canonical views after every event are compared token by token.
"""
import collections
import json
import os
import copy
import random

from harness import core

GUARDS = ('T', 'F', 'R')
CMD_TARGETS = ('fail', 'succeed', 'pause', 'noop')


# ------------------------------------------------------------------ programs
class Program:
    def __init__(self, tasks):
        # tasks: list of dict(join=None|'all'|'one'|int, succ=[(target, guard)], err=[...], compl=[...], outs=[...])
        self.tasks = tasks

    def tn(self, i):
        # The dispatcher orders join commands by their unique key, i.e. by the task NAME as a string, the model by
        # the task index: names are zero-padded once there are more than ten tasks so that both orders agree
        # ('t10' < 't2' as strings).
        return ('t%02d' if len(self.tasks) > 10 else 't%d') % i

    def names(self):
        return [self.tn(i) for i in range(len(self.tasks))]

    # -- YAML for mistral
    def yaml(self, guard_style='yaql'):
        def g(guard):
            if guard_style == 'jinja':
                return {'T': '{{ _.one == 1 }}', 'F': '{{ _.one == 2 }}', 'R': '{{ _.one.nosuch.deeper }}'}[guard]
            return {'T': '<% $.one = 1 %>', 'F': '<% $.one = 2 %>', 'R': '<% $.one.nosuch() %>'}[guard]
        lines = ["version: '2.0'", 'wf:', '  type: direct', '  input:', '    - one: 1', '  tasks:']
        for i, t in enumerate(self.tasks):
            lines.append('    %s:' % self.tn(i))
            lines.append('      action: verif.act tag="%s"' % self.tn(i))
            if t.get('join') is not None:
                lines.append('      join: %s' % t['join'])
            for key, field in (('on-success', 'succ'), ('on-error', 'err'), ('on-complete', 'compl')):
                cl = t.get(field) or []
                if not cl:
                    continue
                lines.append('      %s:' % key)
                for tgt, guard in cl:
                    name = tgt if isinstance(tgt, str) else self.tn(tgt)
                    if guard == 'N':      # no condition at all
                        lines.append('        - %s' % name)
                    else:
                        lines.append("        - %s: '%s'" % (name, g(guard)))
        return '\n'.join(lines) + '\n'

    # -- Gallina
    def coq(self):
        def tgt(t):
            if isinstance(t, str):
                return {'fail': 'TFail', 'succeed': 'TSucceed', 'pause': 'TPause', 'noop': 'TNoop'}[t]
            return '(TTask %d)' % t

        def cl(l):
            return '[' + '; '.join('(%s, %s)' % (tgt(t), {'T': 'GTrue', 'N': 'GTrue', 'F': 'GFalse', 'R': 'GRaise'}[g]) for t, g in (l or [])) + ']'
        rows = []
        for t in self.tasks:
            j = t.get('join')
            jk = 'JNone' if j is None else ('JAll' if j == 'all' else ('JOne' if j == 'one' else '(JNum %d)' % j))
            outs = '[' + '; '.join({'ok': 'OOk', 'err': 'OErr', 'cancel': 'OCancel'}[o] for o in t.get('outs', [])) + ']'
            rows.append('(mkTspec %s %s %s %s [] %s)' % (jk, cl(t.get('succ')), cl(t.get('err')), cl(t.get('compl')), outs))
        return '[' + '; '.join(rows) + ']'

    def oracle(self):
        o = {}
        for i, t in enumerate(self.tasks):
            for k, out in enumerate(t.get('outs', [])):
                o[(self.tn(i), None, k)] = {'ok': ('ok', i), 'err': ('err', 'boom'), 'cancel': ('cancel',)}[out]
        return o

    def to_json(self):
        return {'tasks': self.tasks}

    def inbound(self, n):
        return [i for i, t in enumerate(self.tasks)
                if any(tg == n for f in ('succ', 'err', 'compl') for tg, _ in (t.get(f) or []))]

    def joins_on_cycle(self):
        """True if some join task can reach itself (joins inside cycles: TODOs in the code, outside den_class)."""
        n = len(self.tasks)
        adj = [[tg for f in ('succ', 'err', 'compl') for tg, _ in (t.get(f) or []) if isinstance(tg, int)] for t in self.tasks]
        for j in range(n):
            if self.tasks[j].get('join') is None:
                continue
            seen, todo = set(), list(adj[j])
            while todo:
                u = todo.pop()
                if u == j:
                    return True
                if u not in seen:
                    seen.add(u)
                    todo.extend(adj[u])
        return False

    def multiplicity(self, n, _memo=None):
        """Acyclic programs: the number of routes from the start tasks to task n = the most task
        executions it can get in one run (a join, like a start task, gets one)."""
        memo = {} if _memo is None else _memo
        if n in memo:
            return memo[n]
        edges = [i for i, t in enumerate(self.tasks) for f in ('succ', 'err', 'compl') for tg, _ in (t.get(f) or []) if tg == n]
        if not edges or self.tasks[n].get('join') is not None:
            memo[n] = 1
        else:
            memo[n] = sum(self.multiplicity(m, memo) for m in edges)
        return memo[n]

    def has_cycle(self):
        n = len(self.tasks)
        adj = [[tg for f in ('succ', 'err', 'compl') for tg, _ in (t.get(f) or []) if isinstance(tg, int)] for t in self.tasks]
        color = [0] * n

        def dfs(u):
            color[u] = 1
            for v in adj[u]:
                if color[v] == 1 or (color[v] == 0 and dfs(v)):
                    return True
            color[u] = 2
            return False
        return any(color[i] == 0 and dfs(i) for i in range(n))


def gen_program(rng, max_tasks=6, allow_cycles=False, allow_cmds=True, allow_raise=True, join_kinds=('all', 'one', 2), cmd_rate=0.12,
                cmd_targets=None):
    n = rng.randint(1, max_tasks)
    tasks = [dict(join=None, succ=[], err=[], compl=[], outs=[]) for _ in range(n)]
    for i in range(n):
        t = tasks[i]
        r = rng.random()
        t['outs'] = [rng.choice(['ok', 'ok', 'ok', 'err', 'cancel'] if r < 0.9 else ['err'])]
        if rng.random() < 0.3:
            t['outs'].append(rng.choice(['ok', 'err']))
        for field, p in (('succ', 0.75), ('err', 0.35), ('compl', 0.25)):
            if rng.random() < p:
                k = rng.choice([1, 1, 2, 3])
                for _ in range(k):
                    if allow_cmds and rng.random() < cmd_rate:
                        tgt = rng.choice(cmd_targets or CMD_TARGETS)
                    else:
                        lo = 1 if allow_cycles and rng.random() < 0.15 else i + 1
                        if lo >= n:
                            continue
                        tgt = rng.randrange(lo, n)
                    g = rng.choice(['N', 'N', 'T', 'F'] + (['R'] if allow_raise and rng.random() < 0.25 else []))
                    if any(x[0] == tgt for x in t[field]):
                        continue
                    t[field].append((tgt, g))
    prog = Program(tasks)
    # joins: tasks with >= 2 inbound often become joins
    for i in range(n):
        inb = prog.inbound(i)
        if len(inb) >= 2 and rng.random() < 0.8:
            jk = rng.choice(join_kinds)
            if isinstance(jk, int) and jk > len(inb):
                jk = 'all'
            tasks[i]['join'] = jk
        elif len(inb) == 1 and rng.random() < 0.1:
            tasks[i]['join'] = 'all'
    return prog


def gen_deep_chain_program(rng):
    """A join far below the task that decides it: a chain of 6-9 tasks leads to a join that also has a short second
    inbound branch; one link of the chain breaks (the task fails without an error route, or its guard is false) at a
    random depth, or none does.  The join's logical state has to be found through up to nine levels of tasks that
    have no execution yet (direct_workflow._possible_route and its bounded task-execution cache)."""
    k = rng.randint(6, 9)
    tasks = [dict(join=None, succ=[], err=[], compl=[], outs=['ok']) for _ in range(k)]
    for i in range(k - 1):
        tasks[i]['succ'].append((i + 1, 'N'))
    side = len(tasks)
    tasks.append(dict(join=None, succ=[], err=[], compl=[], outs=[rng.choice(['ok', 'ok', 'err'])]))
    j = len(tasks)
    tasks.append(dict(join=rng.choice(['all', 'all', 'one']), succ=[], err=[], compl=[], outs=['ok']))
    tasks[k - 1]['succ'].append((j, 'N'))
    tasks[side][rng.choice(['succ', 'compl'])].append((j, 'N'))
    r = rng.random()
    if r < 0.45:
        tasks[rng.randrange(k)]['outs'] = ['err']                       # the chain breaks: a task fails
    elif r < 0.75:
        b = rng.randrange(k - 1)
        tasks[b]['succ'] = [(b + 1, 'F')]                               # ... or a transition is not taken
    if rng.random() < 0.3:
        tail = len(tasks)
        tasks.append(dict(join=None, succ=[], err=[], compl=[], outs=['ok']))
        tasks[j][rng.choice(['succ', 'err', 'compl'])].append((tail, 'N'))
    return Program(tasks)


def gen_backlog_program(rng):
    """Programs that leave commands in the BACKLOG while other work is still in flight: a task whose clause is
    [pause, <tasks ...>] (the workflow pauses itself, the remaining commands are saved), next to one or two parallel
    branches that are still running, optionally followed by joins.  With an operator stop issued while PAUSED and
    results delivered afterwards these are the runs in which a stopped workflow could still get tasks from its backlog."""
    tasks = []

    def t(**kw):
        d = dict(join=None, succ=[], err=[], compl=[], outs=[rng.choice(['ok', 'ok', 'ok', 'err'])])
        d.update(kw)
        tasks.append(d)
        return len(tasks) - 1
    nb = rng.randint(1, 3)                          # parallel start tasks besides the pausing one
    p = t(outs=[rng.choice(['ok', 'ok', 'err'])])
    others = [t() for _ in range(nb)]
    later = [t() for _ in range(rng.randint(1, 3))]
    field = 'succ' if tasks[p]['outs'][0] == 'ok' else rng.choice(['err', 'compl'])
    tasks[p][field] = [('pause', 'N')] + [(x, rng.choice(['N', 'N', 'T'])) for x in later]
    if rng.random() < 0.3:
        tasks[p][field].insert(rng.randrange(1, len(tasks[p][field]) + 1), ('pause', 'N'))   # a second pause (F19 shape)
    for o in others:
        if rng.random() < 0.7:
            tasks[o][rng.choice(['succ', 'compl'])].append((rng.choice(later), 'N'))
    prog = Program(tasks)
    for i in later:
        if len(prog.inbound(i)) >= 2 and rng.random() < 0.6:
            tasks[i]['join'] = rng.choice(['all', 'one'])
    return prog


def gen_join_tree_program(rng, join_kinds=('all',), allow_raise=False):
    """Nested fork / join shapes: 2-4 leaf tasks feed an inner join (directly, on-success / on-error /
    on-complete, with conditions that may not fire), the inner join and further leaves feed an outer join,
    optionally a third level; outcomes of the leaves mixed.  These are the shapes where a join has to notice
    that an inbound join can no longer start (find_indirectly_affected_task_executions walks through tasks
    and joins that have no execution yet)."""
    tasks = []

    def leaf():
        tasks.append(dict(join=None, succ=[], err=[], compl=[], outs=[rng.choice(['ok', 'ok', 'err'])]))
        return len(tasks) - 1

    def route(src, dst):
        t = tasks[src]
        field = rng.choice(['succ', 'succ', 'err', 'compl'])
        g = rng.choice(['N', 'N', 'T', 'F'] + (['R'] if allow_raise and rng.random() < 0.1 else []))
        if not any(x[0] == dst for x in t[field]):
            t[field].append((dst, g))

    def build(depth):
        """returns the index of a join fed by leaves (and, if depth > 0, by an inner join)"""
        feeders = [leaf() for _ in range(rng.randint(1, 3))]
        if depth > 0:
            feeders.append(build(depth - 1))
            if rng.random() < 0.3:
                mid = leaf()                      # a plain task between the inner join and this join
                route(feeders[-1], mid)
                feeders[-1] = mid
        jk = rng.choice(join_kinds)
        if isinstance(jk, int) and jk > len(feeders):
            jk = 'all'
        tasks.append(dict(join=jk, succ=[], err=[], compl=[], outs=[rng.choice(['ok', 'ok', 'err'])]))
        j = len(tasks) - 1
        for f in feeders:
            route(f, j)
        return j

    top = build(rng.choice([1, 1, 2]))
    if rng.random() < 0.5:
        end = leaf()
        route(top, end)
    # indices must be forward for the YAML order to be irrelevant; targets may be any index: fine
    return Program(tasks)


# --------------------------------------------------------------- real views
def _rank(order, ids):
    return {i: k for k, i in enumerate(sorted(ids, key=lambda x: order.get(x, 1 << 60)))}


def real_view(d, prog):
    """Tokens of the canonical view, same format as Model/EngineView.view."""
    from mistral.db.v2 import api as db_api
    names = prog.names()
    with db_api.transaction():
        wfs = db_api.get_workflow_executions()
        if not wfs:
            wf_tok, backlog = '-', 0
            tasks, acts = [], []
            d._wf_final = None
        else:
            wf = wfs[0]
            wf_tok = wf.state
            d._wf_final = (wf.state, wf.state_info, json.dumps(wf.output, sort_keys=True, default=str))
            backlog = len((wf.runtime_context or {}).get('backlog_commands') or [])
            tasks = list(db_api.get_task_executions())
            acts = list(db_api.get_action_executions())
        trank = _rank(d.uuid_order, [t.id for t in tasks])
        arank = _rank(d.uuid_order, [a.id for a in acts])
        ttoks = [None] * len(tasks)
        for t in tasks:
            nt = '/'.join('%d:%s' % (names.index(x[0]), x[1]) for x in (t.next_tasks or []))
            ttoks[trank[t.id]] = '%d,%s,%d,%d,%d,%d,[%s]' % (
                names.index(t.name), t.state, bool(t.processed), bool(t.has_next_tasks), bool(t.error_handled),
                bool(t.unique_key), nt)
        atoks = [None] * len(acts)
        for a in acts:
            atoks[arank[a.id]] = '%d,%s,%d' % (trank[a.task_execution_id], a.state, bool(a.accepted))
    d._trank, d._arank = trank, arank
    ptoks = []
    for it in d.pending.values():
        ptoks.append(item_token(d, it))
    for j in d.jobs():
        if j['func'] == '_refresh_task_state':
            ptoks.append('RF(%d)' % trank.get(j['args'].get('task_ex_id'), -1))
        elif j['func'] == '_check_and_fix_integrity':
            pass
        else:
            ptoks.append('JOB:%s' % j['func'])
    return [wf_tok, str(backlog), ';'.join(ttoks), ';'.join(atoks), ';'.join(sorted(ptoks))]


def item_token(d, it):
    k, p = it['kind'], it['payload']
    if k == 'rpc':
        kw = p['kw']
        if p['method'] == 'start_task':
            return 'ST(%d,%d,%d,%d)' % (d._trank.get(kw['task_ex_id'], -1), bool(kw['first_run']), bool(kw['rerun']), bool(kw['reset']))
        if p['method'] == 'on_action_complete':
            r = kw['result']
            cls = 'ok' if r.is_success() else ('cancel' if r.is_cancel() else 'err')
            return 'RS(%d,%s)' % (d._arank.get(kw['action_ex_id'], -1), cls)
        return 'RPC:%s' % p['method']
    if k == 'exec':
        return 'EX(%d)' % d._arank.get(p['action_ex_id'], -1)
    return 'PQ'


def model_tokens(s):
    """Split one model view string into the same token list (pending sorted)."""
    parts = s.split('|')
    wf, backlog, tasks, acts, pend, outc = parts
    return [wf, backlog, tasks, acts, ';'.join(sorted(x for x in pend.split(';') if x))], outc


def item_coq(tok):
    import re
    m = re.match(r'ST\((\d+),(\d),(\d),(\d)\)', tok)
    if m:
        return '(IStartTask %s %s %s %s)' % (m.group(1), *[core.coq_bool(x == '1') for x in m.groups()[1:]])
    m = re.match(r'EX\((\d+)\)', tok)
    if m:
        return '(IExec %s)' % m.group(1)
    m = re.match(r'RS\((\d+),(\w+)\)', tok)
    if m:
        return '(IResult %s %s)' % (m.group(1), {'ok': 'OOk', 'err': 'OErr', 'cancel': 'OCancel'}[m.group(2)])
    m = re.match(r'RF\((\d+)\)', tok)
    if m:
        return '(IRefresh %s)' % m.group(1)
    raise ValueError(tok)


# ----------------------------------------------------------------- one trace
class Trace:
    def __init__(self, prog, seed, style='yaql', sched='legacy'):
        self.prog = prog
        self.seed = seed
        self.style = style
        self.sched = sched
        self.events = []       # model-side ev terms (strings)
        self.labels = []       # human-readable
        self.views = []        # real token lists after each event
        self.outcomes = []
        self.entry_errors = []
        self.facts = {}        # oracle facts collected along the way
        self.unsupported = None
        self.uids = []

    def to_json(self):
        return {'program': self.prog.to_json(), 'yaml': self.prog.yaml(self.style), 'seed': self.seed,
                'scheduler': self.sched, 'events': self.labels, 'coq_spec': self.prog.coq(), 'coq_events': self.events, 'uids': self.uids}


def run_real_trace(d, prog, seed, inject=None, max_events=400, style='yaql'):
    """Seeded random walk on the real engine.  `inject` = dict of probabilities for operator
    / fault events: pause, resume, stop, rerun, skip, dup."""
    inject = inject or {}
    rng = random.Random('trace/%s' % seed)
    tr = Trace(prog, seed, style, d.scheduler_type)
    d.reset(seed)
    try:
        d.create_workflows(prog.yaml(style))
    except Exception as e:  # definition rejected by validation: not a run
        tr.unsupported = 'rejected:%s' % type(e).__name__
        tr.failures = []
        tr.quiescent = True
        return tr
    d.oracle = prog.oracle()
    delivered = []     # delivered rpc items (for duplicates)
    obs = Observer(d, prog, tr)

    def record(label, ev, out):
        tr.events.append(ev)
        tr.labels.append(label)
        tr.outcomes.append(out)
        v = real_view(d, prog)
        tr.views.append(v)
        obs.after_event(label, out, v)

    out, _ = d.start_workflow('wf', {})
    real_view(d, prog)
    record('start', 'EStart', out)
    n = 0
    while n < max_events:
        n += 1
        evs = [e for e in d.enabled() if not d._is_integrity_job(e)]
        # operator / fault injection
        r = rng.random()
        acc = 0.0
        chosen = None
        for name in ('pause', 'resume', 'stop', 'rerun', 'skip', 'dup', 'evict'):
            acc += inject.get(name, 0.0)
            if r < acc:
                chosen = name
                break
        if chosen is None and inject.get('stop_when_paused') and _wf_state(d) == 'PAUSED' and rng.random() < inject['stop_when_paused']:
            chosen = 'stop'          # a stop landing on a PAUSED workflow (its backlog may hold commands)
        if chosen == 'evict':
            from mistral.lang import parser as spec_parser
            spec_parser.clear_caches()
            record('evict', 'EEvict', 'ok')
            continue
        if chosen == 'pause':
            record('pause', 'EPause', d.operator('pause', _wf_id(d)))
            continue
        if chosen == 'resume':
            record('resume', 'EResume', d.operator('resume', _wf_id(d)))
            continue
        if chosen == 'stop':
            stt = rng.choice(['SUCCESS', 'ERROR', 'CANCELLED'])
            record('stop:%s' % stt, '(EStop %s)' % stt, d.operator('stop', _wf_id(d), stt, 'stopped by operator'))
            continue
        if chosen in ('rerun', 'skip'):
            cands = _error_tasks(d)
            if cands:
                tid, rank = cands[rng.randrange(len(cands))]
                if chosen == 'rerun':
                    reset = rng.random() < 0.5
                    record('rerun:%d:%s' % (rank, reset), '(ERerun %d %s)' % (rank, core.coq_bool(reset)),
                           d.operator('rerun', tid, reset=reset))
                else:
                    record('skip:%d' % rank, '(ESkipTask %d)' % rank, d.operator('rerun', tid, skip=True))
                continue
        if chosen == 'dup' and delivered:
            it = delivered[rng.randrange(len(delivered))]
            tok = item_token(d, it)
            if tok.startswith('ST(') or tok.startswith('RS('):
                out = d.redeliver(it)
                record('dup:' + tok, '(EDup %s)' % item_coq(tok), out)
                continue
        if not evs:
            if inject.get('resume', 0) == 0 and _wf_state(d) == 'PAUSED' and inject.get('auto_resume', True):
                record('resume', 'EResume', d.operator('resume', _wf_id(d)))
                continue
            break
        ev = evs[rng.randrange(len(evs))]
        if ev[0] == 'job':
            j = d._job_by_id(ev[1])
            if j['func'] != '_refresh_task_state':
                tr.unsupported = 'job ' + j['func']
                break
            tok = 'RF(%d)' % d._trank.get(j['args'].get('task_ex_id'), -1)
            out = d.fire(ev)
            record(tok, '(EFire %s)' % item_coq(tok), out)
        else:
            it = d.pending[ev[1]]
            tok = item_token(d, it)
            if tok == 'PQ':
                idx = [p for p, x in d.pending.items() if x['kind'] == 'ptq'].index(ev[1])
                out = d.fire(ev)
                record('PQ%d' % idx, '(EFirePtq %d)' % idx, out)
            elif tok.startswith(('ST(', 'EX(', 'RS(')):
                if it['kind'] == 'rpc':
                    delivered.append(it)
                out = d.fire(ev)
                record(tok, '(EFire %s)' % item_coq(tok), out)
            else:
                tr.unsupported = tok
                break
    tr.entry_errors = list(d.entry_errors)
    tr.uids = task_uids(d)
    tr.quiescent = not [e for e in d.enabled() if not d._is_integrity_job(e)]
    obs.at_end()
    tr.failures = obs.failures
    return tr


def task_uids(d):
    """For the tasks in creation order: the rank of their (random) id in the DB's ORDER BY id."""
    ids = sorted(d._trank, key=lambda i: d._trank[i])
    by_id = {i: k for k, i in enumerate(sorted(ids))}
    return [by_id[i] for i in ids]


def _wf_id(d):
    from mistral.db.v2 import api as db_api
    with db_api.transaction():
        return db_api.get_workflow_executions()[0].id


def _wf_state(d):
    from mistral.db.v2 import api as db_api
    with db_api.transaction():
        return db_api.get_workflow_executions()[0].state


def _error_tasks(d):
    from mistral.db.v2 import api as db_api
    with db_api.transaction():
        ts = [t for t in db_api.get_task_executions() if t.state == 'ERROR']
        return sorted([(t.id, d._trank.get(t.id, -1)) for t in ts], key=lambda x: x[1])


# ------------------------------------------------------------------ oracles
class Observer:
    """Implementation-side property oracles, stated on the real rows only (no model)."""

    DOC_MOVES = {('IDLE', 'RUNNING'), ('RUNNING', 'PAUSED'), ('RUNNING', 'SUCCESS'), ('RUNNING', 'ERROR'),
                 ('RUNNING', 'CANCELLED'), ('PAUSED', 'RUNNING'), ('PAUSED', 'ERROR'), ('PAUSED', 'CANCELLED'),
                 ('ERROR', 'RUNNING'), ('CANCELLED', 'RUNNING')}

    def __init__(self, d, prog, tr):
        self.d, self.prog, self.tr = d, prog, tr
        self.prev = None
        self.prev_label = None
        self.failures = []      # (property, signature, what)
        self.task_success_seen = {}
        self.paused_since = None
        self.cas_seen = 0
        self.errs_seen = 0
        self.sw_seen = 0
        self.flagged_nojoin = set()
        self.flagged_twice = set()
        self.prev_final = None

    def fail(self, prop, sig, what):
        self.failures.append({'property': prop, 'signature': sig, 'what': what, 'at_event': len(self.tr.labels) - 1})

    def after_event(self, label, out, v):
        wf, backlog, tasks, acts, pend = v
        tlist = tasks.split(';') if tasks else []
        alist = acts.split(';') if acts else []
        is_rerun = label.startswith('rerun') or label.startswith('skip')
        # C03 at the granularity of individual compare-and-swaps of the workflow state
        new_cas = self.d.cas_log[self.cas_seen:]
        self.cas_seen = len(self.d.cas_log)
        for kind, _id, cur, new in new_cas:
            if kind == 'wf' and cur == new and cur in ('SUCCESS', 'ERROR', 'CANCELLED'):
                # C03/C11: a finished workflow is never completed once again (state info, output,
                # completion notifications and the result sent to the parent would be produced twice)
                self.fail('C03', 'finished-wf-completed-again:%s:%s' % (cur, label.split('(')[0].split(':')[0]),
                          'workflow already %s was set to %s again on %s' % (cur, new, label))
            if kind != 'wf' or cur == new:
                continue
            if (cur, new) not in self.DOC_MOVES:
                self.fail('C03', 'wf-move:%s->%s' % (cur, new), 'workflow moved %s -> %s on %s' % (cur, new, label))
            if cur in ('ERROR', 'CANCELLED') and not is_rerun:
                self.fail('C03', 'wf-left-%s-without-rerun' % cur, 'workflow left %s on %s' % (cur, label))
            if cur == 'SUCCESS':
                self.fail('C03', 'wf-left-SUCCESS', 'workflow left SUCCESS on %s' % label)
        if self.prev is not None:
            pwf, _, ptasks, pacts, _ = self.prev
            ptl = ptasks.split(';') if ptasks else []
            pal = pacts.split(';') if pacts else []
            # C03: a task that reached SUCCESS never changes state again
            for i, (a, b) in enumerate(zip(ptl, tlist)):
                sa, sb = a.split(',')[1], b.split(',')[1]
                if sa == 'SUCCESS' and sb != 'SUCCESS':
                    if a.split(',')[5] == '1' and sb == 'WAITING' and self.prog.joins_on_cycle():
                        continue   # a join inside a cycle is re-armed for the next iteration (same row reused)
                    self.fail('C03', 'task-left-SUCCESS:%s' % label.split(':')[0].split('(')[0],
                              'task #%d left SUCCESS -> %s on %s' % (i, sb, label))
            # C03: an accepted action result is final
            for i, (a, b) in enumerate(zip(pal, alist)):
                fa, fb = a.split(','), b.split(',')
                if fa[1] in ('SUCCESS', 'ERROR', 'CANCELLED') and fb[1] != fa[1]:
                    self.fail('C03', 'action-state-changed-after-completion', 'action #%d %s -> %s on %s' % (i, fa[1], fb[1], label))
            # C10 / C11: no task creation while PAUSED / after completion (committed state before the event)
            if len(tlist) > len(ptl):
                if pwf == 'PAUSED' and label != 'resume':
                    self.fail('C10', 'task-created-while-paused:%s' % label.split('(')[0].split(':')[0],
                              'task created while PAUSED on %s' % label)
                if pwf in ('SUCCESS', 'ERROR', 'CANCELLED') and not is_rerun:
                    self.fail('C11', 'task-created-after-stop:%s' % label.split('(')[0].split(':')[0],
                              'task created in %s workflow on %s' % (pwf, label))
            # C03/C11: state info and output of a finished workflow are not altered either
            fin, pfin = getattr(self.d, '_wf_final', None), self.prev_final
            if (pfin is not None and fin is not None and pfin[0] in ('SUCCESS', 'ERROR', 'CANCELLED') and fin[0] == pfin[0]
                    and fin != pfin and not is_rerun):
                self.fail('C03', 'finished-wf-output-changed:%s' % label.split('(')[0].split(':')[0],
                          'state info / output of the %s workflow changed on %s: %s -> %s' % (pfin[0], label, pfin[1:], fin[1:]))
            # C03/C11: finished workflow not altered by late results / timers / duplicates
            if pwf in ('SUCCESS', 'ERROR', 'CANCELLED') and wf != pwf and not is_rerun and not label.startswith('stop'):
                self.fail('C11', 'finished-wf-changed:%s' % label.split('(')[0], 'workflow %s -> %s on %s' % (pwf, wf, label))
        # C01/C10: in an acyclic program a task gets at most one task execution per route leading to it
        # (one in all for a join or a start task); reruns and skips reuse the row
        if not self.prog.has_cycle() and not any(l.startswith(('rerun:', 'skip:')) for l in self.tr.labels):
            # (a rerun task routes again when it completes again: its successors legitimately run once more)
            names = [t.split(',')[0] for t in tlist]
            for n in set(names):
                if names.count(n) > self.prog.multiplicity(int(n)) and n not in self.flagged_twice:
                    self.flagged_twice.add(n)
                    paused = any(l in ('pause', 'resume') for l in self.tr.labels)
                    self.fail('C10' if paused else 'C01', 'second-task-execution:%s' % label.split('(')[0].split(':')[0],
                              'task t%s of an acyclic workflow got %d task executions on %s, its routes allow %d' % (
                                  n, names.count(n), label, self.prog.multiplicity(int(n))))
        # C04: a task whose spec is a join always carries the join's unique key, and gets its
        # first action only when enough inbound tasks have completed and routed to it
        for i, t in enumerate(tlist):
            f = t.split(',')
            jk = self.prog.tasks[int(f[0])].get('join')
            if jk is not None and f[5] != '1' and i not in self.flagged_nojoin:
                self.flagged_nojoin.add(i)
                self.fail('C04', 'join-task-created-as-ordinary-task', 'task #%d (t%s, join: %s) has no unique key (created on %s)' % (i, f[0], jk, label))
        if self.prev is not None and len(alist) > len((self.prev[3].split(';') if self.prev[3] else [])):
            for a in alist[len((self.prev[3].split(';') if self.prev[3] else [])):]:
                ti = int(a.split(',')[0])
                name = int(tlist[ti].split(',')[0])
                jk = self.prog.tasks[name].get('join')
                if jk is None or label.startswith('rerun') or ('ST(' in label and label.split(',')[2] == '1'):
                    continue   # an explicit rerun of the join task itself re-executes it (C12), prerequisites are not re-checked
                inb = self.prog.inbound(name)
                routed = set()
                for t in tlist:
                    f = t.split(',', 6)
                    if int(f[0]) in inb and f[1] in ('SUCCESS', 'ERROR', 'CANCELLED', 'SKIPPED') and ('%d:' % name) in f[6]:
                        routed.add(int(f[0]))
                need = len(inb) if jk == 'all' else (1 if jk == 'one' else int(jk))
                if inb and len(routed) < need:
                    self.fail('C04', 'join-started-before-prerequisites:%s' % ('all' if jk == 'all' else 'partial'),
                              'join t%d (join: %s) got an action on %s with only %d of %d required inbound tasks completed and routed' % (
                                  name, jk, label, len(routed), need))
        # C01: no non-declared exception, also inside scheduler jobs (where it is logged and swallowed)
        new_errs = self.d.entry_errors[self.errs_seen:]
        self.errs_seen = len(self.d.entry_errors)
        for e in new_errs:
            if e['event'].startswith('job') and not label.startswith('dup'):
                self.fail('C01', 'internal-error-in-job:%s' % e['type'], '%s inside scheduler job on %s: %s' % (e['type'], label, e['msg'][:120]))
        # C06: a redelivered message leaves the run as the single delivery did: no new task or action
        # execution, no state change (pending refresh scheduling aside)
        if label.startswith('dup:') and self.prev is not None:
            if (wf, tasks, acts) != (self.prev[0], self.prev[2], self.prev[3]):
                kind = label[4:6]
                if kind == 'ST' and label[4:].startswith('ST(') and label[4:].rstrip(')').split(',')[2:3] == ['1']:
                    kind = 'ST-rerun'      # the start request of an operator rerun (first=0, rerun=1) delivered again
                self.fail('C06', 'duplicate-changed-state:%s' % kind,
                          'redelivered %s changed the run: %s -> %s' % (label[4:], (self.prev[0], self.prev[2], self.prev[3]), (wf, tasks, acts)))
        # C01: a post-commit operation that raised was logged and swallowed = a lost message
        new_sw = self.d.swallowed[self.sw_seen:]
        self.sw_seen = len(self.d.swallowed)
        for e in new_sw:
            self.fail('C01', 'lost-post-commit-operation:%s' % e['type'], 'post_tx_queue swallowed %s on %s: %s' % (e['type'], label, e['msg'][:120]))
        # C01: declared errors only
        if out == 'internal' and not label.startswith('dup') and not self._dup_shadow(label):
            self.fail('C01', 'internal-error:%s' % label.split('(')[0].split(':')[0], 'non-declared exception on %s: %s' % (
                label, self.d.entry_errors[-1]['type'] if self.d.entry_errors else '?'))
        # C11: stop holds the requested state
        if label.startswith('stop:') and out == 'ok':
            want = label.split(':')[1]
            pw = self.prev[0] if self.prev else '-'
            if pw in ('RUNNING', 'PAUSED') and wf != want:
                self.fail('C11', 'stop-%s-on-%s-ignored' % (want, pw), 'stop(%s) on a %s workflow left it %s' % (want, pw, wf))
        self.prev = v
        self.prev_label = label
        self.prev_final = getattr(self.d, '_wf_final', None)

    def _dup_shadow(self, label):
        """A genuine message delivered AFTER its duplicate is itself the second delivery."""
        tok = label
        return any(l == 'dup:' + tok for l in self.tr.labels[:-1])

    def at_end(self):
        if not self.tr.quiescent or self.tr.unsupported:
            return
        wf, backlog, tasks, acts, pend = self.tr.views[-1]
        tlist = tasks.split(';') if tasks else []
        # C01: never left RUNNING (or tasks waiting) with nothing pending
        joins_on_cycle = self.prog.joins_on_cycle()
        if wf == 'RUNNING' and not joins_on_cycle:
            self.fail('C01', 'stuck-running', 'quiescent but workflow RUNNING; tasks=%s' % tasks)
        if wf in ('SUCCESS', 'ERROR', 'CANCELLED') or wf == 'RUNNING':
            pass
        # C04: a join starts at most once per run: count action executions per join task execution
        counts = collections.Counter(a.split(',')[0] for a in (acts.split(';') if acts else []))
        reruns = collections.Counter()
        for l in self.tr.labels:
            if l.startswith('rerun:'):
                reruns[l.split(':')[1]] += 1
        any_rerun = any(l.startswith(('rerun:', 'skip:')) for l in self.tr.labels)
        for i, t in enumerate(tlist):
            if any_rerun or joins_on_cycle:
                break   # re-triggering a join after a rerun of an upstream task / joins inside cycles: outside the oracle
            f = t.split(',')
            if f[5] == '1':   # has unique key = join
                jk = self.prog.tasks[int(f[0])].get('join')
                if counts[str(i)] > 1 + reruns[str(i)]:
                    self.fail('C04', 'join-started-twice:%s' % ('all' if jk == 'all' else 'partial'),
                              'join task #%d (join: %s) got %d action executions' % (i, jk, counts[str(i)]))
        self.tr.facts['final'] = wf


# ------------------------------------------------------------ model replay
def model_traces(traces, name='engtrace'):
    """Replay traces in the model (vm_compute in coqc); returns list of lists of (tokens, outc)."""
    exprs = ['trace_str %s [%s] [%s]' % (t.prog.coq(), '; '.join(map(str, t.uids)), '; '.join(t.events)) for t in traces]
    res = core.coq_eval(name, ['Gen.States', 'Model.Engine', 'Model.EngineView'], exprs, chunk=40)
    out = []
    for r in res:
        s = core.unquote(r)
        out.append([model_tokens(x) for x in s.split('#')] if s else [])
    return out


def compare(ctx, suite, traces, models):
    n_dis = 0
    for t, m in zip(traces, models):
        ctx.cov['traces_validated_against_impl'] += 1
        ctx.cov['disagreements_checked'] += len(t.views)
        if len(m) != len(t.views):
            ctx.disagree(suite, t.to_json(), 'model produced %d views' % len(m), '%d events' % len(t.views))
            n_dis += 1
            continue
        for k, ((mv, mo), rv, ro) in enumerate(zip(m, t.views, t.outcomes)):
            if mv != rv or mo != ro:
                j = t.to_json()
                j['events'] = j['events'][:k + 1]
                j['coq_events'] = j['coq_events'][:k + 1]
                ctx.disagree(suite, j, {'view': mv, 'outcome': mo, 'at': k}, {'view': rv, 'outcome': ro})
                n_dis += 1
                break
    return n_dis


# ------------------------------------------------------------ parallel real runs
_WORKER = {}


def _worker_run(job):
    import logging
    logging.disable(logging.CRITICAL)
    from harness import engine_driver as ed
    sched = job.get('sched', 'legacy')
    d = _WORKER.get('d')
    if d is None or d.scheduler_type != sched:
        d = ed.Driver(sched, 0)
        _WORKER['d'] = d
    prog = Program(job['tasks'])
    tr = run_real_trace(d, prog, job['seed'], inject=job.get('inject'), max_events=job.get('max_events', 400),
                        style=job.get('style', 'yaql'))
    tr.job = job
    return tr


def run_jobs(jobs, nproc=None):
    """Run real traces in worker processes (each with its own in-memory sqlite)."""
    import multiprocessing as mp
    nproc = nproc or min(core.NPROC, max(1, len(jobs) // 4))
    if nproc <= 1:
        return [_worker_run(j) for j in jobs]
    ctxm = mp.get_context('spawn')
    with ctxm.Pool(nproc) as pool:
        return pool.map(_worker_run, jobs, chunksize=max(1, len(jobs) // (nproc * 4)))


# ------------------------------------------------------------------ replay
def replay_labels(d, prog, seed, labels, style='yaql', lenient=False):
    """Re-run a recorded list of event labels on the real engine (for --replay and debugging)."""
    tr = Trace(prog, seed, style, d.scheduler_type)
    d.reset(seed)
    d.create_workflows(prog.yaml(style))
    d.oracle = prog.oracle()
    obs = Observer(d, prog, tr)
    delivered = {}

    def record(label, out):
        tr.labels.append(label)
        tr.outcomes.append(out)
        v = real_view(d, prog)
        tr.views.append(v)
        obs.after_event(label, out, v)
    tr.events = []
    for label in labels:
        try:
            ev = _label_to_coq(label)
        except Exception:
            ev = None
        if label == 'start':
            out, _ = d.start_workflow('wf', {})
            real_view(d, prog)
        elif label == 'evict':
            from mistral.lang import parser as spec_parser
            spec_parser.clear_caches()
            out = 'ok'
        elif label == 'pause':
            out = d.operator('pause', _wf_id(d))
        elif label == 'resume':
            out = d.operator('resume', _wf_id(d))
        elif label.startswith('stop:'):
            out = d.operator('stop', _wf_id(d), label.split(':')[1], 'stopped by operator')
        elif label.startswith('rerun:') or label.startswith('skip:'):
            parts = label.split(':')
            rank = int(parts[1])
            tids = [k for k, v in d._trank.items() if v == rank]
            if not tids:
                break
            tid = tids[0]
            out = d.operator('rerun', tid, reset=(parts[2] == 'True')) if parts[0] == 'rerun' else d.operator('rerun', tid, skip=True)
        elif label.startswith('dup:'):
            if label[4:] not in delivered:
                break
            out = d.redeliver(delivered[label[4:]])
        elif label.startswith('PQ'):
            pqs = [p for p, x in d.pending.items() if x['kind'] == 'ptq']
            if int(label[2:]) >= len(pqs):
                if lenient:
                    break
                raise KeyError(label)
            out = d.fire(('item', pqs[int(label[2:])]))
        elif label.startswith('RF('):
            jids = [j['id'] for j in d.jobs() if j['func'] == '_refresh_task_state' and not j['captured']
                    and 'RF(%d)' % d._trank.get(j['args'].get('task_ex_id'), -1) == label]
            if not jids:
                if lenient:
                    break
                raise KeyError(label)
            out = d.fire(('job', jids[0]))
        else:
            pids = [p for p, x in d.pending.items() if item_token(d, x) == label]
            if not pids:
                if lenient:
                    break
                raise KeyError(label)
            pid = pids[0]
            delivered[label] = d.pending[pid]
            out = d.fire(('item', pid))
        tr.events.append(ev)
        record(label, out)
    tr.entry_errors = list(d.entry_errors)
    tr.uids = task_uids(d)
    tr.quiescent = not [e for e in d.enabled() if not d._is_integrity_job(e)]
    obs.at_end()
    tr.failures = obs.failures
    return tr


def _label_to_coq(label):
    if label == 'start':
        return 'EStart'
    if label == 'evict':
        return 'EEvict'
    if label == 'pause':
        return 'EPause'
    if label == 'resume':
        return 'EResume'
    if label.startswith('stop:'):
        return '(EStop %s)' % label.split(':')[1]
    if label.startswith('rerun:'):
        p = label.split(':')
        return '(ERerun %s %s)' % (p[1], core.coq_bool(p[2] == 'True'))
    if label.startswith('skip:'):
        return '(ESkipTask %s)' % label.split(':')[1]
    if label.startswith('dup:'):
        return '(EDup %s)' % item_coq(label[4:])
    if label.startswith('PQ'):
        return '(EFirePtq %s)' % label[2:]
    return '(EFire %s)' % item_coq(label)


# ------------------------------------------------------------------ suites
PROFILES = {
    # plain runs: only internal events
    'plain': {},
    'operator': {'pause': 0.04, 'resume': 0.04, 'stop': 0.012, 'rerun': 0.03, 'skip': 0.02, 'dup': 0.04},
    'pause': {'pause': 0.07, 'resume': 0.06},
    'stop': {'stop': 0.04, 'pause': 0.02, 'resume': 0.02, 'stop_when_paused': 0.25},
    'rerun': {'rerun': 0.07, 'skip': 0.04, 'pause': 0.01, 'resume': 0.02},
    'dup': {'dup': 0.12},
    'evict': {'evict': 0.3},
}


def final_summary(tr):
    """Schedule-independent summary of a finished run: workflow state and the multiset of
    (task name, state, next tasks) (C02 oracle)."""
    if not tr.views:
        return None
    wf, backlog, tasks, acts, pend = tr.views[-1]
    rows = []
    for t in (tasks.split(';') if tasks else []):
        f = t.split(',', 6)
        rows.append((f[0], f[1], f[6]))
    return (wf, tuple(sorted(rows)))


def den_class(prog):
    """The order-insensitive fragment of the property text: acyclic, no engine command that can race
    another branch (fail / succeed / pause), joins only `all` (a partial join's outcome legitimately
    depends on which branch arrives first when downstream reads nothing... kept out to be safe)."""
    if prog.has_cycle():
        return False
    for t in prog.tasks:
        if t.get('join') not in (None, 'all'):
            return False
        for f in ('succ', 'err', 'compl'):
            for tg, g in (t.get(f) or []):
                if tg in ('fail', 'succeed', 'pause'):
                    return False
                if g == 'R':
                    return False   # a failing expression force-fails the workflow at once: it races the other branches
    return True


def schedule_independence(ctx, n_programs, n_schedules, suite='schedule_independence'):
    """C02 oracle on the real engine: the same program under different delivery orders (and with the
    definition caches dropped at random points) ends with the same summary."""
    rng = random.Random('%s/%s' % (suite, ctx.seed))
    jobs = []
    progs = []
    while len(progs) < n_programs:
        if len(progs) % 3 == 1:
            p = gen_join_tree_program(rng, join_kinds=('all',))        # nested joins, conditional routes
        else:
            p = gen_program(rng, max_tasks=6, allow_cycles=False, allow_cmds=False, allow_raise=False, join_kinds=('all',))
        if den_class(p):
            progs.append(p)
    for pi, p in enumerate(progs):
        for k in range(n_schedules):
            jobs.append({'tasks': p.tasks, 'seed': ctx.seed * 7919 + pi * 101 + k, 'pi': pi,
                         'inject': PROFILES['evict'] if k % 2 else {}, 'max_events': 300,
                         'sched': 'default' if k % 3 == 2 else 'legacy'})
    traces = run_jobs(jobs)
    by = collections.defaultdict(list)
    for t in traces:
        if getattr(t, 'quiescent', False) and not t.unsupported:
            by[t.job['pi']].append(t)
    n_groups = 0
    for pi, ts in by.items():
        sums = collections.Counter(final_summary(t) for t in ts)
        ctx.count(suite, (json_key(progs[pi].tasks),), nontrivial=len(progs[pi].tasks) >= 3, evaluations=len(ts))
        n_groups += 1
        if len(sums) > 1:
            a, b = list(sums)[:2]
            ta = next(t for t in ts if final_summary(t) == a)
            tb = next(t for t in ts if final_summary(t) == b)
            ctx.fail('schedule-dependent-result', 'two delivery orders of the same program end differently: %s vs %s' % (a[0], b[0]),
                     dict(ta.to_json(), events=ta.labels, other_events=tb.labels, final_a=a, final_b=b, kind='engine-trace'))
    st = ctx.cov['suites'].setdefault(suite, {})
    st['programs'] = n_groups
    st['schedules_per_program'] = n_schedules
    models = model_traces([t for t in traces if not t.unsupported], name=suite)
    compare(ctx, suite, [t for t in traces if not t.unsupported], models)
    return traces

CORPUS_DIR = os.path.join(core.VERIF, 'corpus', 'engine')


def load_corpus():
    import glob
    import json
    out = []
    for f in sorted(glob.glob(os.path.join(CORPUS_DIR, '*.json'))):
        c = json.load(open(f))
        c['file'] = os.path.basename(f)
        out.append(c)
    return out


def _tuplify(tasks):
    return [dict(t, succ=[tuple(x) for x in t.get('succ') or []], err=[tuple(x) for x in t.get('err') or []],
                 compl=[tuple(x) for x in t.get('compl') or []]) for t in tasks]


def _corpus_worker(c):
    import logging
    logging.disable(logging.CRITICAL)
    from harness import engine_driver as ed
    sched = c.get('scheduler', 'legacy')
    d = _WORKER.get('d')
    if d is None or d.scheduler_type != sched:
        d = ed.Driver(sched, 0)
        _WORKER['d'] = d
    prog = Program(_tuplify(c['program']['tasks']))
    tr = replay_labels(d, prog, c.get('seed', 0), c['labels'], style=c.get('style', 'yaql'), lenient=True)
    tr.corpus = c['file']
    return tr


def run_corpus(props=None):
    import multiprocessing as mp
    cs = [c for c in load_corpus() if props is None or set(c.get('properties', [])) & set(props)]
    if not cs:
        return []
    with mp.get_context('spawn').Pool(min(8, len(cs))) as pool:
        return pool.map(_corpus_worker, cs)


def trace_suite(ctx, props, profiles, n_quick, n_thorough, suite='engine_trace', max_tasks=6, seed_base=0):
    """Generate programs, run them on the real engine under the given injection profiles,
    replay in the model, compare views, and report the implementation-side oracle failures
    that concern `props`."""
    n = ctx.n(n_quick, n_thorough)
    rng = random.Random('%s/%s/%d' % (suite, ctx.seed, seed_base))
    jobs = []
    for i in range(n):
        prof = profiles[i % len(profiles)]
        cyc = rng.random() < 0.2
        # every fifth program is command heavy (several fail / succeed / pause / noop entries per clause list;
        # with a pause-injecting profile mostly `pause`): backlog and resume paths (defects F16, F19, F20)
        heavy = i % 5 == 2
        if i % 7 == 3:
            prog = gen_join_tree_program(rng, join_kinds=('all', 'all', 'one', 2), allow_raise=True)   # nested joins
        elif i % 7 == 6:
            prog = gen_deep_chain_program(rng)                                                        # a join far below
        elif i % 7 == 5 and ('stop' in PROFILES[prof] or 'pause' in PROFILES[prof]):
            prog = gen_backlog_program(rng)                                                           # commands in the backlog
        else:
            prog = gen_program(rng, max_tasks=max_tasks, allow_cycles=cyc, cmd_rate=0.45 if heavy else 0.12,
                               cmd_targets=(['pause', 'pause', 'pause', 'noop', 'fail', 'succeed'] if heavy and 'pause' in PROFILES[prof] else None))
        jobs.append({'tasks': prog.tasks, 'seed': ctx.seed * 100003 + i, 'inject': PROFILES[prof], 'profile': prof,
                     'sched': 'default' if i % 4 == 3 else 'legacy', 'style': 'jinja' if i % 5 == 4 else 'yaql',
                     'max_events': 160})
    corpus = run_corpus(props)
    traces = corpus + run_jobs(jobs)
    usable = [t for t in traces if not (t.unsupported or '').startswith('rejected')]
    models = model_traces(usable, name=suite)
    compare(ctx, suite, usable, models)
    dist = collections.Counter()
    nontrivial = 0
    for t in usable:
        for l in t.labels:
            dist[l.split(':')[0].split('(')[0].rstrip('0123456789')] += 1
        key = (json_key(t.prog.tasks), tuple(t.labels))
        ctx.count(suite, key, nontrivial=len(t.labels) >= 6, evaluations=1)
        for f in t.failures:
            if f['property'] in props:
                ctx.fail(f['signature'], f['what'], dict(t.to_json(), events=t.labels[:f['at_event'] + 1], kind='engine-trace',
                                                         corpus=getattr(t, 'corpus', None)))
    st = ctx.cov['suites'].setdefault(suite, {})
    st['events_by_kind'] = dict(dist)
    st['traces'] = len(usable)
    st['rejected_definitions'] = len(traces) - len(usable)
    st['events'] = sum(len(t.labels) for t in usable)
    st['programs_with_cycles'] = sum(1 for t in usable if t.prog.has_cycle())
    st['programs_with_joins'] = sum(1 for t in usable if any(x.get('join') is not None for x in t.prog.tasks))
    st['quiescent_final'] = dict(collections.Counter(t.views[-1][0] for t in usable if t.views and getattr(t, 'quiescent', False)))
    if usable:
        t = usable[-1]
        ctx.sample({'suite': suite, 'yaml': t.prog.yaml(t.style), 'events': t.labels[:40], 'final_view': t.views[-1] if t.views else None})
    ctx.trusted.append('harness/engine_driver.py interception of rpc / executor / post_tx_queue threads / scheduler / clock / uuid source')
    ctx.assumptions.append('one event = one transaction (tx_lock serialises transactions in one process); multi-process '
                           'READ COMMITTED interleavings are modelled only by the atomic-step abstraction')
    return usable


def json_key(x):
    import json
    return json.dumps(x, sort_keys=True, default=str)


def replay_case(obj):
    """./check Cnn --replay: re-run a recorded engine trace on the real engine and print what happens."""
    if (obj.get('replay', obj) or {}).get('kind') == 'engine-explore':
        from harness import engine_explore
        return engine_explore.replay(obj)
    import logging
    logging.disable(logging.CRITICAL)
    from harness import engine_driver as ed
    r = obj.get('replay', obj)
    d = ed.Driver(r.get('scheduler', 'legacy'), 0)
    prog = Program(_tuplify(r['program']['tasks']))
    style = 'jinja' if '{{' in r.get('yaml', '') else 'yaql'
    tr = replay_labels(d, prog, r.get('seed', 0), r['events'], style=style, lenient=True)
    print(prog.yaml(style))
    for l, o, v in zip(tr.labels, tr.outcomes, tr.views):
        print('%-28s %-9s %s' % (l, o, v))
    for f in tr.failures:
        print('ORACLE %s %s: %s' % (f['property'], f['signature'], f['what']))
    want = obj.get('signature')
    return 1 if any(f['signature'] == want for f in tr.failures) or (want is None and tr.failures) else 0
