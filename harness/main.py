"""./check driver: see DESIGN.md 3.3."""
import argparse
import importlib
import json
import os
import sys
import traceback

import logging
logging.disable(logging.CRITICAL)

from harness import core  # noqa: E402


def main():
    ap = argparse.ArgumentParser()
    ap.add_argument('prop')
    ap.add_argument('--tier', default=os.environ.get('VERIF_TIER', 'quick'), choices=['quick', 'thorough'])
    ap.add_argument('--replay')
    ap.add_argument('--no-build', action='store_true', help='skip the Coq build (debugging only)')
    a = ap.parse_args()
    seed = int(os.environ.get('VERIF_SEED', '0') or 0)
    suite = importlib.import_module('harness.suites.' + a.prop)
    if a.replay:
        obj = json.load(open(a.replay))
        sys.exit(suite.replay(obj))
    ctx = core.Ctx(a.prop, a.tier, seed)
    core.regenerate(ctx, getattr(suite, 'GEN', []))
    if not a.no_build:
        try:
            core.build_properties(ctx, a.prop)
        except Exception:
            ctx.obligation('build:Properties/%s.v' % a.prop, False, traceback.format_exc())
    try:
        suite.run(ctx)
    except core.CoqEvalError as e:
        ctx.obligation('correspondence:model-evaluates', False, str(e))
    except Exception:
        # a crash of the harness itself on current source: the correspondence no longer checks
        ctx.obligation('correspondence:harness-runs', False, traceback.format_exc())
    sys.exit(core.finish(ctx, suite))


if __name__ == '__main__':
    main()
