"""Extract from the data-flow sources the syntactic facts Model/Ctx.v and Model/Publish.v rely on
into Gen/CtxFacts.v (fail closed):

  * the argument order of every `ContextView(...)` call the model mirrors (7 call sites),
  * the version comparison of context_versioning._merge_ctx and how versions are merged,
  * that get_in_context_with_versions deep-copies the stored in_context and increments versions,
  * which version keys a published leaf / a published dictionary bumps, how PublishSpec.merge assigns its parts,
  * that evaluate_recursively starts with a deep copy of its input,
  * that evaluate_upstream_context takes its base with `.pop()` (last row),
  * that evaluate_task_outbound_context (replace strategy) overlays `published` on the copied context.

Properties/C05.v states (theorem C05_source_facts) that these are exactly the forms modelled, so an
edit of any of them breaks a named proof obligation in addition to the correspondence suites.
"""
import ast
import os

from harness.core import TranslateError

NAME = 'CtxFacts'

DF = 'mistral/workflow/data_flow.py'
CV = 'mistral/workflow/context_versioning.py'
DW = 'mistral/workflow/direct_workflow.py'
ET = 'mistral/engine/tasks.py'
EX = 'mistral/expressions/__init__.py'
PB = 'mistral/lang/v2/publish.py'


def _parse(repo, rel):
    try:
        return ast.parse(open(os.path.join(repo, rel)).read())
    except (OSError, SyntaxError) as e:
        raise TranslateError('%s: %s' % (rel, e))


def _func(tree, name, cls=None):
    scope = tree.body
    if cls is not None:
        cs = [n for n in tree.body if isinstance(n, ast.ClassDef) and n.name == cls]
        if len(cs) != 1:
            raise TranslateError('class %s: found %d' % (cls, len(cs)))
        scope = cs[0].body
    fs = [n for n in scope if isinstance(n, ast.FunctionDef) and n.name == name]
    if len(fs) != 1:
        raise TranslateError('function %s%s: found %d' % ((cls + '.') if cls else '', name, len(fs)))
    return fs[0]


def _view_args(fn, where):
    calls = [n for n in ast.walk(fn) if isinstance(n, ast.Call) and (
        (isinstance(n.func, ast.Name) and n.func.id == 'ContextView') or
        (isinstance(n.func, ast.Attribute) and n.func.attr == 'ContextView'))]
    if len(calls) != 1:
        raise TranslateError('%s: expected exactly one ContextView(...) call, found %d' % (where, len(calls)))
    c = calls[0]
    if c.keywords or any(isinstance(a, ast.Starred) for a in c.args):
        raise TranslateError('%s: ContextView call with keywords/star args' % where)
    return [ast.unparse(a).replace('data_flow.', '') for a in c.args]


def _timeout_view(fn):
    """RegularTask._get_timeout evaluates the timeout expression either against a context view of its own or (since repo
    commit 457c3c0e) through Task.evaluate, i.e. against the standard task view (view_expression_context)."""
    calls = [n for n in ast.walk(fn) if isinstance(n, ast.Call) and (
        (isinstance(n.func, ast.Name) and n.func.id == 'ContextView') or
        (isinstance(n.func, ast.Attribute) and n.func.attr == 'ContextView'))]
    if calls:
        return _view_args(fn, '_get_timeout')
    evs = [n for n in ast.walk(fn) if isinstance(n, ast.Call) and ast.unparse(n.func) == 'self.evaluate']
    if len(evs) != 1 or evs[0].keywords or len(evs[0].args) != 1:
        raise TranslateError('_get_timeout: neither one ContextView(...) nor one self.evaluate(<timeout>) call')
    return ['self.evaluate(%s)' % ast.unparse(evs[0].args[0])]


def _one(nodes, where):
    nodes = list(nodes)
    if len(nodes) != 1:
        raise TranslateError('%s: expected exactly one match, found %d' % (where, len(nodes)))
    return nodes[0]


def _coq_list(xs):
    return '[%s]' % '; '.join('"%s"' % x.replace('"', '""') for x in xs)


def translate(repo):
    df, cv, dw, et, ex, pb = (_parse(repo, r) for r in (DF, CV, DW, ET, EX, PB))
    views = [
        ('view_publish_variables', _view_args(_func(df, 'publish_variables'), 'publish_variables')),
        ('view_workflow_output', _view_args(_func(df, 'evaluate_workflow_output'), 'evaluate_workflow_output')),
        ('view_workflow_vars', _view_args(_func(df, 'add_workflow_variables_to_context'), 'add_workflow_variables_to_context')),
        ('view_find_next_tasks', _view_args(_func(dw, '_find_next_tasks', 'DirectWorkflowController'), '_find_next_tasks')),
        ('view_expression_context', _view_args(_func(et, 'get_expression_context', 'Task'), 'get_expression_context')),
        ('view_get_target', _view_args(_func(et, '_get_target', 'RegularTask'), '_get_target')),
        ('view_get_timeout', _timeout_view(_func(et, '_get_timeout', 'RegularTask'))),
    ]
    # ContextView lookup: first dictionary in the given order
    cvw = [n for n in df.body if isinstance(n, ast.ClassDef) and n.name == 'ContextView']
    if len(cvw) != 1:
        raise TranslateError('class ContextView not found')
    getitem = _func(df, '__getitem__', 'ContextView')
    loops = [n for n in ast.walk(getitem) if isinstance(n, ast.For)]
    view_iter = ast.unparse(_one(loops, 'ContextView.__getitem__ for-loop').iter)
    init = _func(df, '__init__', 'ContextView')
    assigns = [ast.unparse(n.value) for n in ast.walk(init) if isinstance(n, ast.Assign)
               and ast.unparse(n.targets[0]) == 'self.dicts']
    if len(assigns) != 2:
        raise TranslateError('ContextView.__init__: expected two assignments of self.dicts, found %d' % len(assigns))

    # _merge_ctx: the single comparison between the two versions, and what it guards
    mc = _func(cv, '_merge_ctx')
    ifs = [n for n in ast.walk(mc) if isinstance(n, ast.If) and isinstance(n.test, ast.Compare)
           and 'ver' in ast.unparse(n.test)]
    cmp_if = _one(ifs, '_merge_ctx version comparison')
    merge_compare = ast.unparse(cmp_if.test)
    merge_then = '; '.join(ast.unparse(s) for s in cmp_if.body)
    if cmp_if.orelse:
        raise TranslateError('_merge_ctx: version comparison has an else branch')
    # _merge_versions
    mv = _func(cv, '_merge_versions')
    mv_assigns = [ast.unparse(n) for n in ast.walk(mv) if isinstance(n, ast.Assign)]
    # get_in_context_with_versions
    gi = _func(cv, 'get_in_context_with_versions')
    gi_assigns = [ast.unparse(n) for n in ast.walk(gi) if isinstance(n, (ast.Assign, ast.AugAssign))]
    copy_stmt = [a for a in gi_assigns if 'copy' in a]
    bump_stmt = [a for a in gi_assigns if a.startswith('in_context[VERSIONS_KEY][')]
    # leaf test of _get_published_keys_recursively
    pk = _func(cv, '_get_published_keys_recursively')
    pk_if = _one([n for n in pk.body[0].body if isinstance(n, ast.If)] if isinstance(pk.body[0], ast.For) else [],
                 '_get_published_keys_recursively leaf test')
    leaf_test = ast.unparse(pk_if.test)
    prefix_stmt = ast.unparse(pk.body[0].body[0]) if isinstance(pk.body[0], ast.For) else ''
    # what is appended to updated_keys for a leaf / for a dict-valued entry (in order), and the recursion
    def appended(stmts):
        out = []
        for st in stmts:
            for n in ast.walk(st):
                if isinstance(n, ast.Call) and isinstance(n.func, ast.Attribute) and n.func.attr == 'append' \
                        and ast.unparse(n.func.value) == 'updated_keys':
                    a = n.args[0]
                    out.append('md5(new_prefix)' if 'md5' in ast.unparse(a) and 'new_prefix' in ast.unparse(a) else ast.unparse(a))
                if isinstance(n, ast.Call) and isinstance(n.func, ast.Name) and n.func.id == '_get_published_keys_recursively':
                    out.append('recurse(%s)' % ', '.join(ast.unparse(x) for x in n.args[1:]))
        return out
    leaf_appends = appended(pk_if.body)
    dict_appends = appended(pk_if.orelse)
    # PublishSpec.merge: the assignments of the three parts
    pm = _func(pb, 'merge', 'PublishSpec')
    pm_assigns = [ast.unparse(n) for n in ast.walk(pm) if isinstance(n, ast.Assign)]
    pm_calls = [ast.unparse(n) for n in ast.walk(pm) if isinstance(n, ast.Expr) and isinstance(n.value, ast.Call)]
    # evaluate_recursively
    er = _func(ex, 'evaluate_recursively')
    er_first = ast.unparse(er.body[0])
    # evaluate_upstream_context
    eu = _func(df, 'evaluate_upstream_context')
    pops = [ast.unparse(n) for n in ast.walk(eu) if isinstance(n, ast.Call) and isinstance(n.func, ast.Attribute)
            and n.func.attr == 'pop']
    merges = [ast.unparse(n) for n in ast.walk(eu) if isinstance(n, ast.Call)
              and ast.unparse(n.func).endswith('merge_context_by_version')]
    # evaluate_task_outbound_context: the replace-strategy return
    eo = _func(df, 'evaluate_task_outbound_context')
    rets = [ast.unparse(n.value) for n in ast.walk(eo) if isinstance(n, ast.Return) and 'update_dict' in ast.unparse(n.value)]

    out = ['(* GENERATED from %s by translate/tr_ctxfacts.py on every run. Do not edit. *)' % ', '.join((DF, CV, DW, ET, EX, PB)),
           'From Coq Require Import List String.', 'Import ListNotations.', 'Open Scope string_scope.', '']
    for name, args in views:
        out.append('Definition %s : list string := %s.' % (name, _coq_list(args)))
    out += [
        'Definition view_getitem_iterates : string := %s.' % _coq_list([view_iter])[1:-1],
        'Definition view_dicts_assignments : list string := %s.' % _coq_list(assigns),
        'Definition merge_compare : string := %s.' % _coq_list([merge_compare])[1:-1],
        'Definition merge_compare_then : string := %s.' % _coq_list([merge_then])[1:-1],
        'Definition merge_versions_assignments : list string := %s.' % _coq_list(mv_assigns),
        'Definition in_context_copy : list string := %s.' % _coq_list(copy_stmt),
        'Definition in_context_bump : list string := %s.' % _coq_list(bump_stmt),
        'Definition published_leaf_test : string := %s.' % _coq_list([leaf_test])[1:-1],
        'Definition published_prefix : string := %s.' % _coq_list([prefix_stmt])[1:-1],
        'Definition published_leaf_appends : list string := %s.' % _coq_list(leaf_appends),
        'Definition published_dict_appends : list string := %s.' % _coq_list(dict_appends),
        'Definition publish_merge_assignments : list string := %s.' % _coq_list(pm_assigns),
        'Definition publish_merge_discarded_calls : list string := %s.' % _coq_list(pm_calls),
        'Definition evaluate_recursively_first : string := %s.' % _coq_list([er_first])[1:-1],
        'Definition upstream_pops : list string := %s.' % _coq_list(pops),
        'Definition upstream_merges : list string := %s.' % _coq_list(merges),
        'Definition outbound_replace_return : list string := %s.' % _coq_list(rets),
        '']
    return '\n'.join(out)
