"""Extract the REST authorisation table of mistral into Gen/ApiTable.v (fail closed).

Sources (all read from the repository under check, Python `ast`; the rule registry
is additionally read through the repository's own `mistral.policies.list_rules()`
and both readings must agree):

  mistral/api/controllers/**   every class with an exposed method (`pecan.expose`,
                               `wsme_pecan.wsexpose` decorators), located in the
                               controller tree starting at RootController (class
                               attributes holding controller instances, and
                               sub-controllers returned by `_lookup`)
  mistral/policies/*.py        the rule registry: name, check string, documented operations
  mistral/exceptions.py        http_code of the exception classes raised by guards
  mistral/api/access_control.py  enforce() must be, statement by statement, the plain delegation
                               target = caller's ids, creds = to_policy_values + is_admin,
                               return Enforcer.authorize(...); anything else (an early return or a
                               branch on the caller before the enforcer call) aborts the translation
  mistral/api/controllers/v2/action_execution.py   SUPPORTED_TRANSITION_STATES

Per exposed method the ordered list of abstract effects of its top-level statements
up to and including the first one that may touch data:

  Log                      LOG.<level>(...)
  Pure                     assignments / calls that compute on the request only
  PreGuard name code       a decorator between the exception wrapper and the expose
                           decorator that may refuse (auth_enable_check)
  Guard code               `if <request-only test>: raise exc.X(...)`  (also a `for` of such)
  Enforce rule             `acl.enforce('<rule>', <ctx>)`
  CondEnforce rule cond    `if <all_projects | all_projects or project_id | scope == 'public'>:
                                acl.enforce('<rule>', <ctx>)`
  CtxClear                 `context.set_ctx(None)`
  Data kind what           anything else: a call that is not known to be request-only
                           (db_api.*, rpc.*, helpers, retry wrappers, services, ...)

Request-only ("pure") calls are recognised conservatively: builtins, methods of
parameters / locals, pecan request accessors, json/uuidutils, `states.is_*`,
`resources.<R>.validate_scope`, `<model>.check_allowed_none_values`,
`filter_utils.create_filters_from_request_params`, `rest_utils.create_db_retry_object`,
`context.ctx(...)`, and `self._x(...)` helpers whose own body is pure.  Any other call
is a data access.  An `acl.enforce` in any other syntactic position aborts the
translation.  (The dynamic `trace` suite of C16 checks this static reading against
the SQL statements and RPC calls the real request makes.)
"""
import ast
import os

from harness.core import TranslateError

NAME = 'ApiTable'
CTRL_DIR = 'mistral/api/controllers'
ROOT_FILE = 'mistral/api/controllers/root.py'
ROOT_CLASS = 'RootController'

VERBS = {'get': 'GET', 'get_one': 'GET', 'get_all': 'GET', 'post': 'POST', 'put': 'PUT',
         'delete': 'DELETE', 'index': 'GET', '_lookup': 'ROUTE'}

PURE_BUILTINS = {'set', 'len', 'zip', 'str', 'int', 'bool', 'list', 'dict', 'tuple', 'isinstance',
                 'sorted', 'any', 'all', 'cut', 'getattr', 'hasattr'}
PURE_ROOTS = {'pecan', 'wsme_pecan', 'request', 'json', 'uuidutils', 'strutils', 'states', 'cfg', 'CONF', 'os', 'wtypes'}
PURE_DOTTED = {
    'filter_utils.create_filters_from_request_params',
    'rest_utils.create_db_retry_object',
    'context.ctx', 'auth_ctx.ctx',
}
PURE_SUFFIX = ('.validate_scope', '.check_allowed_none_values')
CTX_EXPRS = {'context.ctx()', 'auth_ctx.ctx()'}


def dotted(node):
    """a.b.c for Name/Attribute chains, a.b() for calls in the chain, else None"""
    if isinstance(node, ast.Name):
        return node.id
    if isinstance(node, ast.Attribute):
        b = dotted(node.value)
        return None if b is None else b + '.' + node.attr
    if isinstance(node, ast.Call):
        b = dotted(node.func)
        return None if b is None else b + '()'
    if isinstance(node, ast.Subscript):
        return dotted(node.value)
    return None


def root_name(node):
    while isinstance(node, (ast.Attribute, ast.Call, ast.Subscript)):
        node = node.func if isinstance(node, ast.Call) else node.value
    return node.id if isinstance(node, ast.Name) else None


def is_enforce_call(node):
    return isinstance(node, ast.Call) and dotted(node.func) in ('acl.enforce', 'access_control.enforce')


def contains_enforce(node):
    return any(is_enforce_call(n) for n in ast.walk(node))


class ModuleInfo:
    def __init__(self, repo, rel):
        self.rel = rel
        self.tree = ast.parse(open(os.path.join(repo, rel)).read(), rel)
        self.imports = {}   # local name -> module rel path (only controller modules)
        self.classes = {}
        self.consts = {}
        self.funcs = {}
        for node in self.tree.body:
            if isinstance(node, ast.ImportFrom) and node.module:
                for a in node.names:
                    mod = node.module + '.' + a.name
                    self.imports[a.asname or a.name] = mod
            elif isinstance(node, ast.Import):
                for a in node.names:
                    self.imports[a.asname or a.name.split('.')[0]] = a.name
            elif isinstance(node, ast.ClassDef):
                self.classes[node.name] = node
            elif isinstance(node, ast.FunctionDef):
                self.funcs[node.name] = node
            elif isinstance(node, ast.Assign) and len(node.targets) == 1 and isinstance(node.targets[0], ast.Name):
                self.consts[node.targets[0].id] = node.value


def load_modules(repo):
    mods = {}
    base = os.path.join(repo, CTRL_DIR)
    for d, _, files in sorted(os.walk(base)):
        for f in sorted(files):
            if f.endswith('.py'):
                rel = os.path.relpath(os.path.join(d, f), repo)
                mods[rel] = ModuleInfo(repo, rel)
    return mods


def mod_rel(dotted_mod):
    return dotted_mod.replace('.', '/') + '.py'


def expose_kind(dec):
    """'wsme' / 'pecan' for an expose decorator, else None"""
    f = dec.func if isinstance(dec, ast.Call) else dec
    d = dotted(f)
    if d in ('wsme_pecan.wsexpose', 'wsexpose'):
        return 'wsme'
    if d in ('pecan.expose', 'expose'):
        return 'pecan'
    return None


def exposed_methods(cls):
    out = []
    for node in cls.body:
        if isinstance(node, (ast.FunctionDef, ast.AsyncFunctionDef)):
            kinds = [expose_kind(d) for d in node.decorator_list]
            if any(kinds):
                out.append(node)
    return out


# ---------------------------------------------------------------------------
# controller tree

def resolve_ctor(mods, mi, call):
    """A class-attribute value `x.Cls(...)` / `Cls(...)` -> (module rel, class name) if it is a
    class of the controllers package, else None."""
    if not isinstance(call, ast.Call):
        return None
    f = call.func
    if isinstance(f, ast.Name):
        if f.id in mi.classes:
            return (mi.rel, f.id)
        return None
    if isinstance(f, ast.Attribute) and isinstance(f.value, ast.Name):
        modname = mi.imports.get(f.value.id)
        if modname:
            rel = mod_rel(modname)
            if rel in mods and f.attr in mods[rel].classes:
                return (rel, f.attr)
    return None


def is_rest_controller(cls):
    return any(dotted(b) in ('rest.RestController', 'RestController') for b in cls.bases)


def walk_tree(mods):
    """(rel, cls) -> list of mount paths (lists of segments)"""
    mounts = {}
    seen = set()

    def visit(rel, cname, path):
        key = (rel, cname, tuple(path))
        if key in seen:
            return
        seen.add(key)
        if len(path) > 12:
            raise TranslateError('controller tree too deep at %s' % '/'.join(path))
        mounts.setdefault((rel, cname), []).append(list(path))
        mi = mods[rel]
        cls = mi.classes[cname]
        rest = is_rest_controller(cls)
        if '_custom_actions' in [t.id for n in cls.body if isinstance(n, ast.Assign)
                                 for t in n.targets if isinstance(t, ast.Name)]:
            raise TranslateError('%s uses _custom_actions: outside the subset' % cname)
        for node in cls.body:
            if isinstance(node, ast.Assign) and len(node.targets) == 1 and isinstance(node.targets[0], ast.Name):
                tgt = resolve_ctor(mods, mi, node.value)
                if tgt:
                    attr = node.targets[0].id
                    # a sub-controller of a RestController is reachable below an item ("/<id>/attr")
                    # and directly ("/attr"); the item form is recorded
                    sub = path + (['{}', attr] if rest else [attr])
                    visit(tgt[0], tgt[1], sub)
            if isinstance(node, ast.FunctionDef) and node.name == '_lookup':
                found = False
                for st in ast.walk(node):
                    if isinstance(st, ast.If) and isinstance(st.test, ast.Compare) and len(st.test.ops) == 1 \
                            and isinstance(st.test.ops[0], ast.Eq) and isinstance(st.test.comparators[0], ast.Constant) \
                            and isinstance(st.test.comparators[0].value, str):
                        seg = st.test.comparators[0].value
                        for r in ast.walk(st):
                            if isinstance(r, ast.Return) and isinstance(r.value, ast.Tuple) and r.value.elts:
                                tgt = resolve_ctor(mods, mi, r.value.elts[0])
                                if tgt:
                                    visit(tgt[0], tgt[1], path + ['{}', seg])
                                    found = True
                rets = [r for r in ast.walk(node) if isinstance(r, ast.Return)]
                if not found or len(rets) != 2:
                    raise TranslateError('%s._lookup has an unrecognised shape' % cname)

    visit(ROOT_FILE, ROOT_CLASS, [])
    return mounts


# ---------------------------------------------------------------------------
# effects

class MethodCtx:
    def __init__(self, mi, cls, fn, exc_codes):
        self.mi = mi
        self.cls = cls
        self.fn = fn
        self.exc_codes = exc_codes
        a = fn.args
        self.params = [x.arg for x in a.posonlyargs + a.args + a.kwonlyargs]
        if a.vararg:
            self.params.append(a.vararg.arg)
        if a.kwarg:
            self.params.append(a.kwarg.arg)
        self.locals = set(self.params)     # names bound to request-only values
        self.scope_locals = set()          # locals holding the requested scope
        self.dict_locals = set()           # locals holding <param>.to_dict()
        self.takes_scope = 'scope' in self.params
        if 'scope' in self.params:
            self.scope_locals.add('scope')

    # -- purity ---------------------------------------------------------------
    def pure_call(self, call):
        f = call.func
        d = dotted(f)
        if isinstance(f, ast.Name):
            return f.id in PURE_BUILTINS
        if d is None:
            return False
        if d in PURE_DOTTED:
            return True
        if d.endswith(PURE_SUFFIX) and root_name(f) in ('resources', 'db_models'):
            return True
        rn = root_name(f)
        if rn == 'LOG':
            return True
        if rn == 'self' and isinstance(f, ast.Attribute) and isinstance(f.value, ast.Name):
            helper = next((n for n in self.cls.body if isinstance(n, ast.FunctionDef) and n.name == f.attr), None)
            return helper is not None and self.pure_helper(helper)
        if rn in PURE_ROOTS:
            return True
        if rn in self.locals and rn != 'self':
            return True
        if rn in ('exc', 'exceptions') and isinstance(f, ast.Attribute):
            return True
        return False

    def pure_helper(self, fn):
        for n in ast.walk(fn):
            if isinstance(n, ast.Call):
                f = n.func
                if isinstance(f, ast.Name) and f.id in PURE_BUILTINS:
                    continue
                if root_name(f) in ('exc', 'exceptions'):
                    continue
                return False
        return True

    def allowed_names(self):
        consts = {k for k, v in self.mi.consts.items()
                  if isinstance(v, (ast.Constant, ast.List, ast.Set, ast.Tuple, ast.Dict))
                  or (isinstance(v, ast.Call) and isinstance(v.func, ast.Name) and v.func.id in ('set', 'frozenset', 'tuple'))
                  if not any(isinstance(n, ast.Call) and not (isinstance(n.func, ast.Name) and n.func.id in ('set', 'frozenset', 'tuple'))
                             for n in ast.walk(v))
                  and not any(isinstance(n, ast.Name) and isinstance(n.ctx, ast.Load) and n.id not in ('set', 'frozenset', 'tuple')
                              for n in ast.walk(v))}
        return self.locals | PURE_BUILTINS | PURE_ROOTS | consts | {'self', 'exc', 'exceptions', 'LOG', 'Unset'}

    def pure_expr(self, node):
        """No call outside the request-only set, and no reference to any name that is not a
        parameter / request-only local / builtin / request accessor / literal module constant
        (so a data-layer function passed as an argument, e.g. r.call(db_api.get_x, ...), is impure)."""
        ok_roots = set()
        for n in ast.walk(node):
            if isinstance(n, ast.Call):
                if not self.pure_call(n):
                    return False
                f = n.func
                while isinstance(f, (ast.Attribute, ast.Call, ast.Subscript)):
                    f = f.func if isinstance(f, ast.Call) else f.value
                if isinstance(f, ast.Name):
                    ok_roots.add(id(f))
            if isinstance(n, (ast.Await, ast.Yield, ast.YieldFrom, ast.Lambda, ast.NamedExpr)):
                return False
        allowed = self.allowed_names()
        comp_targets = {t.id for n in ast.walk(node) if isinstance(n, ast.comprehension)
                        for t in ast.walk(n.target) if isinstance(t, ast.Name)}
        for n in ast.walk(node):
            if isinstance(n, ast.Name) and isinstance(n.ctx, ast.Load) and id(n) not in ok_roots:
                if n.id not in allowed and n.id not in comp_targets:
                    return False
        return True

    def first_impure(self, node):
        for n in ast.walk(node):
            if isinstance(n, ast.Call) and not self.pure_call(n):
                return n
        for n in ast.walk(node):
            if isinstance(n, ast.Call) and not self.pure_expr(n):
                return n
        return None

    # -- scope tracking ---------------------------------------------------------
    def is_scope_read(self, node):
        """expression reading the requested scope"""
        if isinstance(node, ast.Name):
            return node.id in self.scope_locals
        if isinstance(node, ast.Attribute) and node.attr == 'scope' and isinstance(node.value, ast.Name) \
                and node.value.id in self.params and node.value.id != 'self':
            return True
        if isinstance(node, ast.Call) and isinstance(node.func, ast.Attribute) and node.func.attr == 'get' \
                and node.args and isinstance(node.args[0], ast.Constant) and node.args[0].value == 'scope':
            base = dotted(node.func.value)
            if base in ('pecan.request.GET', 'request.GET'):
                return True
            if isinstance(node.func.value, ast.Name) and node.func.value.id in self.dict_locals:
                return True
        return False

    def note_scope_use(self, node):
        for n in ast.walk(node):
            if self.is_scope_read(n) and not isinstance(n, ast.Name):
                self.takes_scope = True

    def classify_cond(self, test):
        if isinstance(test, ast.Name) and test.id == 'all_projects' and 'all_projects' in self.params:
            return 'CAllProjects'
        if isinstance(test, ast.BoolOp) and isinstance(test.op, ast.Or) and len(test.values) == 2 \
                and all(isinstance(v, ast.Name) and v.id in self.params for v in test.values) \
                and sorted(v.id for v in test.values) == ['all_projects', 'project_id']:
            return 'CAllProjectsOrProjectId'
        if isinstance(test, ast.Compare) and len(test.ops) == 1 and isinstance(test.ops[0], ast.Eq) \
                and isinstance(test.comparators[0], ast.Constant) and test.comparators[0].value == 'public' \
                and self.is_scope_read(test.left):
            return 'CScopePublic'
        raise TranslateError('%s.%s: acl.enforce under an unrecognised condition: %s'
                             % (self.cls.name, self.fn.name, ast.unparse(test)))

    def enforce_rule(self, call):
        if len(call.args) < 2 or not isinstance(call.args[0], ast.Constant) or not isinstance(call.args[0].value, str):
            raise TranslateError('%s.%s: acl.enforce with a non-literal rule' % (self.cls.name, self.fn.name))
        if ast.unparse(call.args[1]) not in CTX_EXPRS:
            raise TranslateError('%s.%s: acl.enforce on an unexpected context %s'
                                 % (self.cls.name, self.fn.name, ast.unparse(call.args[1])))
        if len(call.args) > 2 or call.keywords:
            raise TranslateError('%s.%s: acl.enforce with target/do_raise/exc arguments: outside the subset'
                                 % (self.cls.name, self.fn.name))
        return call.args[0].value

    def raise_code(self, st):
        """http code of `raise exc.X(...)`"""
        if not isinstance(st, ast.Raise) or st.exc is None:
            return None
        e = st.exc
        f = e.func if isinstance(e, ast.Call) else e
        if isinstance(f, ast.Attribute) and root_name(f) in ('exc', 'exceptions') and f.attr in self.exc_codes:
            return self.exc_codes[f.attr]
        return None

    def guard_code(self, st):
        """`if <pure>: [pure statements;] raise X` (possibly inside a `for` over a pure iterable)
        -> http code, else None"""
        if isinstance(st, ast.If) and not st.orelse and st.body and self.pure_expr(st.test):
            c = self.raise_code(st.body[-1])
            if c is not None:
                saved = set(self.locals)
                ok = True
                for s0 in st.body[:-1]:
                    if not self.pure_stmt(s0):
                        ok = False
                        break
                    self.bind(s0)
                if ok and self.pure_expr(st.body[-1]):
                    return c
                self.locals = saved
        if isinstance(st, ast.For) and not st.orelse and len(st.body) == 1 and self.pure_expr(st.iter):
            if isinstance(st.target, ast.Name):
                self.locals.add(st.target.id)
            return self.guard_code(st.body[0])
        return None

    def pure_stmt(self, st):
        if isinstance(st, (ast.Assign, ast.AugAssign, ast.AnnAssign)):
            return st.value is None or self.pure_expr(st.value)
        if isinstance(st, ast.Expr):
            return self.pure_expr(st.value)
        if isinstance(st, ast.If):
            return self.pure_expr(st.test) and all(self.pure_stmt(s) for s in st.body + st.orelse)
        if isinstance(st, ast.Pass):
            return True
        return False

    def bind(self, st):
        """record locals bound by a pure statement"""
        if isinstance(st, ast.Assign):
            for t in st.targets:
                for n in ast.walk(t):
                    if isinstance(n, ast.Name):
                        self.locals.add(n.id)
                        if self.is_scope_read(st.value) or (
                                isinstance(st.value, ast.BoolOp) and any(self.is_scope_read(v) for v in st.value.values)):
                            self.scope_locals.add(n.id)
                        if isinstance(st.value, ast.Call) and isinstance(st.value.func, ast.Attribute) \
                                and st.value.func.attr == 'to_dict' and isinstance(st.value.func.value, ast.Name) \
                                and st.value.func.value.id in self.params:
                            self.dict_locals.add(n.id)
        elif isinstance(st, ast.If):
            for s in st.body + st.orelse:
                self.bind(s)

    def data_effect(self, st):
        src = ast.unparse(st)
        call = self.first_impure(st)
        what = dotted(call.func) if call is not None else None
        if what is None:
            allowed = self.allowed_names()
            what = next((n.id for n in ast.walk(st) if isinstance(n, ast.Name) and isinstance(n.ctx, ast.Load)
                         and n.id not in allowed), type(st).__name__)
        if 'db_api.' in src:
            kind = 'Db'
        elif 'rpc.' in src:
            kind = 'Rpc'
        else:
            kind = 'Call'
        return ('Data', kind, what[:60])

    def effects(self):
        body = list(self.fn.body)
        if body and isinstance(body[0], ast.Expr) and isinstance(body[0].value, ast.Constant) \
                and isinstance(body[0].value.value, str):
            body = body[1:]
        out = []
        late = []
        stopped = False
        for st in body:
            if stopped:
                for n in ast.walk(st):
                    if is_enforce_call(n):
                        late.append(self.enforce_rule(n))
                continue
            self.note_scope_use(st)
            if isinstance(st, ast.Expr) and is_enforce_call(st.value):
                out.append(('Enforce', self.enforce_rule(st.value)))
                continue
            if isinstance(st, ast.If) and contains_enforce(st):
                if st.orelse or len(st.body) != 1 or not (isinstance(st.body[0], ast.Expr) and is_enforce_call(st.body[0].value)) \
                        or contains_enforce(st.test):
                    raise TranslateError('%s.%s: acl.enforce inside a compound statement of unrecognised shape'
                                         % (self.cls.name, self.fn.name))
                out.append(('CondEnforce', self.enforce_rule(st.body[0].value), self.classify_cond(st.test)))
                continue
            if contains_enforce(st):
                # nested function definitions, with/try/for blocks, return expressions, ...
                raise TranslateError('%s.%s: acl.enforce in an unrecognised position (%s)'
                                     % (self.cls.name, self.fn.name, type(st).__name__))
            if isinstance(st, ast.Expr) and isinstance(st.value, ast.Call) and root_name(st.value.func) == 'LOG' \
                    and self.pure_expr(ast.Tuple(elts=st.value.args + [k.value for k in st.value.keywords], ctx=ast.Load())):
                out.append(('Log',))
                continue
            if isinstance(st, ast.Expr) and isinstance(st.value, ast.Call) \
                    and dotted(st.value.func) in ('context.set_ctx', 'auth_ctx.set_ctx'):
                out.append(('CtxClear',))
                continue
            if isinstance(st, (ast.FunctionDef,)):
                # a nested helper: defining it has no effect; calling it is an impure call
                # (its name is not added to the pure locals)
                out.append(('Pure',))
                continue
            c = self.guard_code(st)
            if c is not None:
                out.append(('Guard', c))
                continue
            if self.pure_stmt(st):
                self.bind(st)
                out.append(('Pure',))
                continue
            out.append(self.data_effect(st))
            stopped = True
        return out, late


def exception_codes(repo):
    tree = ast.parse(open(os.path.join(repo, 'mistral/exceptions.py')).read())
    codes = {}
    bases = {}
    for node in tree.body:
        if isinstance(node, ast.ClassDef):
            bases[node.name] = [dotted(b) for b in node.bases]
            for st in node.body:
                if isinstance(st, ast.Assign) and len(st.targets) == 1 and isinstance(st.targets[0], ast.Name) \
                        and st.targets[0].id == 'http_code' and isinstance(st.value, ast.Constant):
                    codes[node.name] = st.value.value

    def code_of(name, depth=0):
        if name in codes:
            return codes[name]
        for b in bases.get(name, []):
            if b in bases and depth < 10:
                c = code_of(b, depth + 1)
                if c is not None:
                    return c
        return None
    return {n: code_of(n) for n in bases if code_of(n) is not None}


# ---------------------------------------------------------------------------
# rule registry

def registry_ast(repo):
    """name -> (check kind, [(verb, path)]) from mistral/policies/*.py"""
    pdir = os.path.join(repo, 'mistral/policies')
    base_tree = ast.parse(open(os.path.join(pdir, 'base.py')).read())
    base_consts = {}
    for node in base_tree.body:
        if isinstance(node, ast.Assign) and isinstance(node.value, ast.Constant) and isinstance(node.value.value, str):
            base_consts[node.targets[0].id] = node.value.value
    rules = {}
    order = []

    def add(name, check, ops):
        if name in rules:
            raise TranslateError('rule %s registered twice' % name)
        rules[name] = (check, ops)
        order.append(name)

    init = ast.parse(open(os.path.join(pdir, '__init__.py')).read())
    listed = []
    for n in ast.walk(init):
        if isinstance(n, ast.Call) and isinstance(n.func, ast.Attribute) and n.func.attr == 'list_rules' \
                and isinstance(n.func.value, ast.Name):
            listed.append(n.func.value.id)
    files = sorted(f[:-3] for f in os.listdir(pdir) if f.endswith('.py') and f != '__init__.py')
    if sorted(listed) != files:
        raise TranslateError('policies/__init__.py chains %s but the package has %s' % (sorted(listed), files))
    for modname in listed:
        tree = ast.parse(open(os.path.join(pdir, modname + '.py')).read())
        consts = {}
        for node in tree.body:
            if isinstance(node, ast.Assign) and len(node.targets) == 1 and isinstance(node.targets[0], ast.Name) \
                    and isinstance(node.value, ast.Constant) and isinstance(node.value.value, str):
                consts[node.targets[0].id] = node.value.value

        def sval(e):
            if isinstance(e, ast.Constant) and isinstance(e.value, str):
                return e.value
            if isinstance(e, ast.Name) and e.id in consts:
                return consts[e.id]
            if isinstance(e, ast.Attribute) and isinstance(e.value, ast.Name) and e.value.id == 'base' and e.attr in base_consts:
                return base_consts[e.attr]
            if isinstance(e, ast.BinOp) and isinstance(e.op, ast.Mod):
                return sval(e.left) % sval(e.right)
            if isinstance(e, ast.BinOp) and isinstance(e.op, ast.Add):
                return sval(e.left) + sval(e.right)
            raise TranslateError('policies/%s.py: unsupported string expression %s' % (modname, ast.unparse(e)))
        rl = next((n.value for n in tree.body if isinstance(n, ast.Assign) and isinstance(n.targets[0], ast.Name)
                   and n.targets[0].id == 'rules'), None)
        if not isinstance(rl, ast.List):
            raise TranslateError('policies/%s.py: no literal `rules` list' % modname)
        for c in rl.elts:
            if not isinstance(c, ast.Call) or dotted(c.func) not in ('policy.DocumentedRuleDefault', 'policy.RuleDefault'):
                raise TranslateError('policies/%s.py: unsupported rule constructor' % modname)
            kw = {k.arg: k.value for k in c.keywords}
            args = list(c.args)
            name = sval(kw['name'] if 'name' in kw else args[0])
            check = sval(kw['check_str'] if 'check_str' in kw else args[1])
            ops = []
            if 'operations' in kw:
                if not isinstance(kw['operations'], ast.List):
                    raise TranslateError('policies/%s.py: operations of %s not a literal list' % (modname, name))
                for o in kw['operations'].elts:
                    if not isinstance(o, ast.Dict):
                        raise TranslateError('policies/%s.py: operation of %s not a dict literal' % (modname, name))
                    d = {sval(k): sval(v) for k, v in zip(o.keys, o.values)}
                    ops.append((d['method'], d['path']))
            add(name, check, ops)
    return order, rules


def registry_imported(repo):
    import importlib
    import mistral
    if not os.path.realpath(os.path.dirname(os.path.dirname(mistral.__file__))) == os.path.realpath(repo):
        raise TranslateError('mistral is imported from %s, not from the repository under check %s'
                             % (mistral.__file__, repo))
    pol = importlib.import_module('mistral.policies')
    out = {}
    for r in pol.list_rules():
        out[r.name] = (r.check_str, [(o['method'], o['path']) for o in (getattr(r, 'operations', None) or [])])
    return out


def check_kind(check, base_names):
    if check == 'rule:admin_only':
        return 'AdminOnly'
    if check == 'rule:admin_or_owner':
        return 'AdminOrOwner'
    return None


# ---------------------------------------------------------------------------

def coq_str(s):
    if any(ord(c) > 126 or ord(c) < 32 for c in s):
        raise TranslateError('non printable-ASCII text in table: %r' % s)
    return '"' + s.replace('"', '""') + '"'


def coq_path(p):
    return '[' + '; '.join(coq_str(s) for s in p) + ']'


def path_segments(path):
    segs = [s for s in path.split('/') if s]
    return ['{}' if s.startswith('{') and s.endswith('}') else s for s in segs]


def coq_effect(e):
    if e[0] in ('Log', 'Pure', 'CtxClear'):
        return e[0]
    if e[0] == 'Guard':
        return 'Guard %d' % e[1]
    if e[0] == 'PreGuard':
        return 'PreGuard %s %d' % (coq_str(e[1]), e[2])
    if e[0] == 'Enforce':
        return 'Enforce %s' % coq_str(e[1])
    if e[0] == 'CondEnforce':
        return 'CondEnforce %s %s' % (coq_str(e[1]), e[2])
    if e[0] == 'Data':
        return 'Data %s %s' % (e[1], coq_str(e[2]))
    raise TranslateError('unknown effect %r' % (e,))


# ---------------------------------------------------------------------------
# the shape of access_control.enforce and the rule expressions

ENFORCE_BODY = [
    "target_obj = {'project_id': context.project_id, 'user_id': context.user_id}",
    "target_obj.update(target or {})",
    "policy_context = context.to_policy_values()",
    "policy_context['is_admin'] = context.is_admin",
    "_ensure_enforcer_initialization()",
    "return _ENFORCER.authorize(action, target_obj, policy_context, do_raise=do_raise, exc=exc)",
]
ENFORCE_SIG = "action, context, target=None, do_raise=True, exc=exc.NotAllowedException"
ENSURE_BODY = [
    "global _ENFORCER",
    "if not _ENFORCER:\n    _ENFORCER = policy.Enforcer(cfg.CONF)\n    _ENFORCER.register_defaults(policies.list_rules())\n    _ENFORCER.load_rules()",
]


def enforce_shape(repo):
    """access_control.enforce must do nothing but build the target from the caller's own ids, take the
    credentials from the context (+ is_admin) and return Enforcer.authorize(...): statement by
    statement.  Any other statement - an early return / a branch on the caller before the enforcer
    call in particular - aborts the translation (the model has no such case)."""
    rel = 'mistral/api/access_control.py'
    tree = ast.parse(open(os.path.join(repo, rel)).read())
    fns = {n.name: n for n in tree.body if isinstance(n, ast.FunctionDef)}

    def body_of(fn):
        b = list(fn.body)
        if b and isinstance(b[0], ast.Expr) and isinstance(b[0].value, ast.Constant) and isinstance(b[0].value.value, str):
            b = b[1:]
        return [ast.unparse(st) for st in b]
    if 'enforce' not in fns or '_ensure_enforcer_initialization' not in fns:
        raise TranslateError('%s: enforce / _ensure_enforcer_initialization not found' % rel)
    fn = fns['enforce']
    if fn.decorator_list or ast.unparse(fn.args) != ENFORCE_SIG:
        raise TranslateError('%s: enforce has signature (%s), expected (%s)' % (rel, ast.unparse(fn.args), ENFORCE_SIG))
    got = body_of(fn)
    if got != ENFORCE_BODY:
        diff = next((i for i, (a, b) in enumerate(zip(got, ENFORCE_BODY)) if a != b), min(len(got), len(ENFORCE_BODY)))
        raise TranslateError('%s: enforce() is not a plain delegation to Enforcer.authorize: statement %d is `%s` '
                             '(expected `%s`)' % (rel, diff + 1, got[diff] if diff < len(got) else '<missing>',
                                                  ENFORCE_BODY[diff] if diff < len(ENFORCE_BODY) else '<nothing>'))
    if body_of(fns['_ensure_enforcer_initialization']) != ENSURE_BODY or fns['_ensure_enforcer_initialization'].decorator_list:
        raise TranslateError('%s: _ensure_enforcer_initialization has an unrecognised body' % rel)
    # nothing at module level may rebind enforce / _ENFORCER afterwards
    for node in tree.body:
        if isinstance(node, (ast.Assign, ast.AugAssign, ast.AnnAssign)):
            tg = [t.id for t in ast.walk(node) if isinstance(t, ast.Name) and isinstance(t.ctx, ast.Store)]
            if 'enforce' in tg or ('_ENFORCER' in tg and ast.unparse(node) != '_ENFORCER = None'):
                raise TranslateError('%s: module-level rebinding %s' % (rel, ast.unparse(node)))
    return 'target = caller ids; creds = to_policy_values + is_admin; Enforcer.authorize'


def tokenize_check(text):
    out = []
    for w in text.replace('(', ' ( ').replace(')', ' ) ').split():
        out.append(w)
    return out


def parse_check(text):
    """oslo.policy check string (subset) -> Coq `check` term. Grammar: or < and < not < atom."""
    # %(name)s contains parentheses: protect them
    prot = text.replace('%(project_id)s', '%PROJECT%').replace('%(user_id)s', '%USER%')
    if '%(' in prot:
        raise TranslateError('check string %r formats an unsupported target key' % text)
    toks = tokenize_check(prot)
    pos = [0]

    def peek():
        return toks[pos[0]] if pos[0] < len(toks) else None

    def take():
        t = peek()
        pos[0] += 1
        return t

    def atom():
        t = take()
        if t is None:
            raise TranslateError('check string %r ends unexpectedly' % text)
        if t == '(':
            e = expr()
            if take() != ')':
                raise TranslateError('check string %r: missing )' % text)
            return e
        if t == '@':
            return 'CTrue'
        if t == '!':
            return 'CFalse'
        if t.lower() in ('and', 'or', 'not', ')'):
            raise TranslateError('check string %r: unexpected %s' % (text, t))
        if ':' not in t:
            raise TranslateError('check string %r: unsupported atom %s' % (text, t))
        kind, match = t.split(':', 1)
        if kind == 'role':
            return '(CRole %s)' % coq_str(match)
        if kind == 'rule':
            return '(CRule %s)' % coq_str(match)
        keys = {'is_admin': 'KIsAdmin', 'project_id': 'KProject', 'user_id': 'KUser'}
        if kind in keys:
            m = {'%PROJECT%': 'MTargetProject', '%USER%': 'MTargetUser'}.get(match)
            if m is None:
                if '%' in match:
                    raise TranslateError('check string %r: unsupported match %s' % (text, match))
                m = '(MLit %s)' % coq_str(match)
            return '(CCred %s %s)' % (keys[kind], m)
        raise TranslateError('check string %r: unsupported check kind %s' % (text, kind))

    def notx():
        if peek() is not None and peek().lower() == 'not':
            take()
            return '(CNot %s)' % notx()
        return atom()

    def andx():
        e = notx()
        while peek() is not None and peek().lower() == 'and':
            take()
            e = '(CAnd %s %s)' % (e, notx())
        return e

    def expr():
        e = andx()
        while peek() is not None and peek().lower() == 'or':
            take()
            e = '(COr %s %s)' % (e, andx())
        return e
    if not toks:
        return 'CTrue'   # oslo.policy: an empty rule always passes
    e = expr()
    if pos[0] != len(toks):
        raise TranslateError('check string %r: trailing %s' % (text, toks[pos[0]:]))
    return e



def extract(repo, lenient=False):
    """The table as Python data (also used by harness/suites/C16.py; `lenient` only there, for the
    oracle-only search after the strict translation failed)."""
    mods = load_modules(repo)
    if ROOT_FILE not in mods or ROOT_CLASS not in mods[ROOT_FILE].classes:
        raise TranslateError('no %s in %s' % (ROOT_CLASS, ROOT_FILE))
    mounts = walk_tree(mods)
    exc_codes = exception_codes(repo)
    methods = []
    for rel in sorted(mods):
        mi = mods[rel]
        for cname, cls in mi.classes.items():
            ems = exposed_methods(cls)
            if not ems:
                continue
            if (rel, cname) not in mounts:
                raise TranslateError('class %s (%s) has exposed methods but is not reachable from the controller tree'
                                     % (cname, rel))
            for fn in ems:
                if fn.name not in VERBS:
                    raise TranslateError('%s.%s: exposed method with a non-REST name' % (cname, fn.name))
                decs = fn.decorator_list
                kinds = [expose_kind(d) for d in decs]
                if sum(1 for k in kinds if k) != 1 or kinds[-1] is None:
                    raise TranslateError('%s.%s: the expose decorator must be the innermost one' % (cname, fn.name))
                wrap = 'NoWrap'
                pre = []
                for d in decs[:-1]:
                    dn = dotted(d.func if isinstance(d, ast.Call) else d)
                    if dn == 'rest_utils.wrap_wsme_controller_exception':
                        wrap = 'WrapWsme'
                    elif dn == 'rest_utils.wrap_pecan_controller_exception':
                        wrap = 'WrapPecan'
                    elif dn == 'auth_enable_check' and 'auth_enable_check' in mi.funcs:
                        fdef = mi.funcs['auth_enable_check']
                        raises = [n for n in ast.walk(fdef) if isinstance(n, ast.Raise)]
                        impure = [n for n in ast.walk(fdef) if isinstance(n, ast.Call)
                                  and dotted(n.func) not in ('functools.wraps', 'func', 'exc.WorkflowException')]
                        if len(raises) != 1 or impure:
                            raise TranslateError('auth_enable_check has an unrecognised shape')
                        pre.append(('PreGuard', 'auth_enable_check', exc_codes.get('WorkflowException', 0)))
                    else:
                        raise TranslateError('%s.%s: unknown decorator %s' % (cname, fn.name, dn))
                mc = MethodCtx(mi, cls, fn, exc_codes)
                try:
                    effs, late = mc.effects()
                except TranslateError:
                    if not lenient:
                        raise
                    # oracle-only use (harness/suites/C16.py search): keep the row, claim nothing about it
                    effs, late = [('Data', 'Call', 'unrecognised')], []
                methods.append({
                    'cls': cname, 'name': fn.name, 'file': rel, 'verb': VERBS[fn.name],
                    'mounts': mounts[(rel, cname)], 'wrap': wrap, 'expose': [k for k in kinds if k][0],
                    'effects': pre + effs, 'late': late,
                    'all_projects': 'all_projects' in mc.params,
                    'takes_scope': mc.takes_scope, 'params': [p for p in mc.params if p != 'self'],
                    'lineno': fn.lineno,
                })
    order, rules = registry_ast(repo)
    imported = registry_imported(repo)
    if {k: (v[0], sorted(v[1])) for k, v in rules.items()} != {k: (v[0], sorted(v[1])) for k, v in imported.items()}:
        diff = sorted(set(rules) ^ set(imported)) or [k for k in rules if (rules[k][0], sorted(rules[k][1])) != (imported[k][0], sorted(imported[k][1]))]
        raise TranslateError('static reading of mistral/policies differs from list_rules(): %s' % diff[:5])
    base_names = [n for n in order if not rules[n][1] and not rules[n][0].startswith('rule:')]
    rrows = []
    for n in order:
        check, ops = rules[n]
        if n in base_names:
            kind = 'BaseRule'
        else:
            kind = check_kind(check, base_names) or 'OtherCheck'
        rrows.append({'name': n, 'kind': kind, 'check': check, 'ops': ops})
    # SUPPORTED_TRANSITION_STATES of the action execution controller
    ae = mods.get('mistral/api/controllers/v2/action_execution.py')
    sup = ae.consts.get('SUPPORTED_TRANSITION_STATES') if ae else None
    if not isinstance(sup, ast.List) or not all(isinstance(e, ast.Attribute) and dotted(e.value) == 'states' for e in sup.elts):
        raise TranslateError('SUPPORTED_TRANSITION_STATES is not a literal list of states.X')
    supported = [e.attr for e in sup.elts]
    return {'methods': methods, 'rules': rrows, 'supported': supported, 'exc_codes': exc_codes,
            'force_conv': force_conversion(mods)}


def force_conversion(mods):
    """How ExecutionsController.delete turns its `force` query parameter into a boolean."""
    mi = mods.get('mistral/api/controllers/v2/execution.py')
    cls = mi.classes.get('ExecutionsController') if mi else None
    fn = next((n for n in (cls.body if cls else []) if isinstance(n, ast.FunctionDef) and n.name == 'delete'), None)
    if fn is None:
        raise TranslateError('no ExecutionsController.delete')
    params = [a.arg for a in fn.args.args]
    if params[:3] != ['self', 'id', 'force']:
        raise TranslateError('ExecutionsController.delete: unexpected signature %s' % params)
    dec = next((d for d in fn.decorator_list if expose_kind(d) == 'wsme'), None)
    if dec is None or not isinstance(dec, ast.Call) or len(dec.args) < 3:
        raise TranslateError('ExecutionsController.delete: unexpected wsexpose signature')
    ftype = ast.unparse(dec.args[2])
    parses = [n for n in ast.walk(fn) if isinstance(n, ast.Assign) and len(n.targets) == 1
              and isinstance(n.targets[0], ast.Name) and n.targets[0].id == 'force']
    if ftype == 'bool' and not parses:
        return 'ConvPyBool'
    if ftype in ('wtypes.text', 'str') and len(parses) == 1 and isinstance(parses[0].value, ast.Call) \
            and dotted(parses[0].value.func) == 'strutils.bool_from_string' \
            and [ast.unparse(a) for a in parses[0].value.args] == ['force'] and not parses[0].value.keywords \
            and fn.body.index(parses[0]) < min([i for i, st in enumerate(fn.body)
                                                if any(isinstance(n, ast.Name) and n.id == 'force' and isinstance(n.ctx, ast.Load)
                                                       for n in ast.walk(st)) and st is not parses[0]] or [10 ** 6]):
        return 'ConvStrutils'
    raise TranslateError('ExecutionsController.delete: unrecognised conversion of the force parameter (%s)' % ftype)


def translate(repo):
    t = extract(repo)
    t['enforce_shape'] = enforce_shape(repo)   # fail closed: the model has no case outside this shape
    out = ['(* GENERATED from mistral/api/controllers/**, mistral/policies/*.py, mistral/exceptions.py by',
           '   translate/tr_apitable.py on every run. Do not edit. *)',
           'From Coq Require Import List String.',
           'Require Import Mistral.Gen.States Mistral.Model.Rest.',
           'Import ListNotations.', 'Open Scope string_scope.', '']
    out.append('Definition rules : list rule := [')
    rows = []
    for r in t['rules']:
        ops = '; '.join('mkOp %s %s' % (v, coq_path(path_segments(p))) for v, p in r['ops'])
        for v, _ in r['ops']:
            if v not in ('GET', 'POST', 'PUT', 'DELETE'):
                raise TranslateError('rule %s documents verb %s' % (r['name'], v))
        rows.append('  mkRule %s %s [%s]' % (coq_str(r['name']), r['kind'], ops))
    out.append(';\n'.join(rows))
    out.append('].\n')
    out.append('Definition methods : list method := [')
    rows = []
    for m in t['methods']:
        rows.append('  (* %s:%d *)\n  mkMethod %s %s %s [%s] %s\n    [%s]\n    [%s] %s %s' % (
            m['file'], m['lineno'], coq_str(m['cls']), coq_str(m['name']), m['verb'],
            '; '.join(coq_path(p) for p in m['mounts']), m['wrap'],
            '; '.join(coq_effect(e) for e in m['effects']),
            '; '.join(coq_str(r) for r in m['late']),
            'true' if m['all_projects'] else 'false', 'true' if m['takes_scope'] else 'false'))
    out.append(';\n'.join(rows))
    out.append('].\n')
    out.append('Definition action_supported_states : list state := [%s].' % '; '.join(
        'RUNNING_DELAYED' if s == 'RUNNING_DELAYED' else s for s in t['supported']))
    out.append('Definition exec_delete_force_conv : force_conv := %s.' % t['force_conv'])
    out.append('')
    out.append('(* mistral/api/access_control.py:enforce = %s *)' % t['enforce_shape'])
    out.append('(* registered default rule expressions (mistral/policies/*.py check_str) *)')
    out.append('Definition default_policy : policy := [')
    out.append(';\n'.join('  (%s, %s)' % (coq_str(r['name']), parse_check(r['check'])) for r in t['rules']))
    out.append('].')
    out.append('')
    return '\n'.join(out)
