"""Extract into Gen/ItemsLock.v the structural facts Model/Items.v relies on when it
treats one Handle event (WithItemsTask.on_action_complete) as atomic (fail closed):

  mistral/engine/tasks.py  WithItemsTask.on_action_complete
    handle_under_named_lock     its only effectful statement is `with db_api.named_lock(<key>):`
    handle_lock_key_per_task    <key> is 'with-items-%s' % self.task_ex.id
    handle_refreshes_first      the first statement inside the lock is db_api.refresh(self.task_ex)
    handle_effects_inside_lock  every call of a self.<method> in the function is inside that block
  mistral/engine/task_handler.py
    completion_decoupled_by_job schedule_on_action_complete: direct _on_action_complete only under
                                `if not ...spec.get('with-items')`, otherwise a SchedulerJob running
                                _SCHEDULED_ON_ACTION_COMPLETE_PATH with key 'th_on_a_c-<task id>'
    job_runs_in_transaction     _scheduled_on_action_complete's body is `with db_api.transaction():`
                                and _on_action_complete is called inside it

A fact that does not hold is emitted as `false` (the theorem C07_handle_atomic then fails to
compile); source that cannot be recognised at all raises TranslateError.
"""
import ast
import os

from harness.core import TranslateError

NAME = 'ItemsLock'
TASKS = 'mistral/engine/tasks.py'
HANDLER = 'mistral/engine/task_handler.py'


def _func(body, name, what):
    hits = [n for n in body if isinstance(n, ast.FunctionDef) and n.name == name]
    if len(hits) != 1:
        raise TranslateError('expected exactly one %s, found %d' % (what, len(hits)))
    return hits[0]


def _strip(body):
    """Drop docstring and `assert` statements."""
    out = []
    for st in body:
        if isinstance(st, ast.Expr) and isinstance(st.value, ast.Constant) and isinstance(st.value.value, str):
            continue
        if isinstance(st, ast.Assert):
            continue
        out.append(st)
    return out


def _is_call(node, dotted):
    """node is a Call of the dotted name, e.g. 'db_api.named_lock'."""
    if not isinstance(node, ast.Call):
        return False
    try:
        return ast.unparse(node.func) == dotted
    except Exception:
        return False


def _self_calls(node):
    return [n for n in ast.walk(node) if isinstance(n, ast.Call) and isinstance(n.func, ast.Attribute)
            and isinstance(n.func.value, ast.Name) and n.func.value.id == 'self']


def translate(repo):
    tasks = ast.parse(open(os.path.join(repo, TASKS)).read())
    classes = [n for n in tasks.body if isinstance(n, ast.ClassDef) and n.name == 'WithItemsTask']
    if len(classes) != 1:
        raise TranslateError('expected exactly one class WithItemsTask in %s' % TASKS)
    oac = _func(classes[0].body, 'on_action_complete', 'WithItemsTask.on_action_complete')
    body = _strip(oac.body)
    under_lock = key_ok = refresh_first = inside = False
    if len(body) == 1 and isinstance(body[0], ast.With) and len(body[0].items) == 1 \
            and _is_call(body[0].items[0].context_expr, 'db_api.named_lock'):
        under_lock = True
        w = body[0]
        args = w.items[0].context_expr.args
        key_ok = len(args) == 1 and ast.unparse(args[0]).replace('"', "'") == "'with-items-%s' % self.task_ex.id"
        wb = _strip(w.body)
        refresh_first = bool(wb) and isinstance(wb[0], ast.Expr) and _is_call(wb[0].value, 'db_api.refresh') \
            and len(wb[0].value.args) == 1 and ast.unparse(wb[0].value.args[0]) == 'self.task_ex'
        all_calls = _self_calls(oac)
        in_lock = set()
        for st in w.body:
            in_lock.update(id(c) for c in _self_calls(st))
        inside = bool(all_calls) and all(id(c) in in_lock for c in all_calls)

    handler = ast.parse(open(os.path.join(repo, HANDLER)).read())
    soac = _func(handler.body, 'schedule_on_action_complete', 'task_handler.schedule_on_action_complete')
    sbody = _strip(soac.body)
    decoupled = False
    direct = [n for n in ast.walk(soac) if _is_call(n, '_on_action_complete')]
    if sbody and isinstance(sbody[0], ast.If) and not sbody[0].orelse \
            and ast.unparse(sbody[0].test).replace('"', "'") == "not action_ex.task_execution.spec.get('with-items')":
        guarded = [n for st in sbody[0].body for n in ast.walk(st) if _is_call(n, '_on_action_complete')]
        returns = bool(sbody[0].body) and isinstance(sbody[0].body[-1], ast.Return)
        jobs = [n for n in ast.walk(soac) if _is_call(n, 'sched_base.SchedulerJob')]
        sched = [n for st in sbody[1:] for n in ast.walk(st) if _is_call(n, 'sched.schedule')]
        job_ok = False
        if len(jobs) == 1:
            kw = {k.arg: ast.unparse(k.value).replace('"', "'") for k in jobs[0].keywords}
            job_ok = kw.get('func_name') == '_SCHEDULED_ON_ACTION_COMPLETE_PATH' \
                and kw.get('key') == "'th_on_a_c-%s' % action_ex.task_execution_id"
        decoupled = len(direct) == len(guarded) == 1 and returns and job_ok and len(sched) == 1
    path_ok = False
    for n in handler.body:
        if isinstance(n, ast.Assign) and len(n.targets) == 1 and isinstance(n.targets[0], ast.Name) \
                and n.targets[0].id == '_SCHEDULED_ON_ACTION_COMPLETE_PATH':
            try:
                path_ok = ast.literal_eval(n.value) == 'mistral.engine.task_handler._scheduled_on_action_complete'
            except Exception:
                path_ok = False
    decoupled = decoupled and path_ok

    job = _func(handler.body, '_scheduled_on_action_complete', 'task_handler._scheduled_on_action_complete')
    jbody = _strip(job.body)
    in_tx = False
    if len(jbody) == 1 and isinstance(jbody[0], ast.With) and len(jbody[0].items) == 1 \
            and _is_call(jbody[0].items[0].context_expr, 'db_api.transaction'):
        calls_all = [n for n in ast.walk(job) if _is_call(n, '_on_action_complete')]
        calls_in = [n for st in jbody[0].body for n in ast.walk(st) if _is_call(n, '_on_action_complete')]
        in_tx = len(calls_all) == len(calls_in) == 1

    def b(x):
        return 'true' if x else 'false'
    out = ['(* GENERATED from %s and %s by translate/tr_itemslock.py on every run. Do not edit. *)' % (TASKS, HANDLER),
           'Definition handle_under_named_lock : bool := %s.' % b(under_lock),
           'Definition handle_lock_key_per_task : bool := %s.' % b(key_ok),
           'Definition handle_refreshes_first : bool := %s.' % b(refresh_first),
           'Definition handle_effects_inside_lock : bool := %s.' % b(inside),
           'Definition completion_decoupled_by_job : bool := %s.' % b(decoupled),
           'Definition job_runs_in_transaction : bool := %s.' % b(in_tx),
           '']
    return '\n'.join(out)
