"""Translate the early-return guards of the workflow completion methods of
mistral/engine/workflows.py (class Workflow) into Gen/WfGuards.v (fail closed).

_fail_workflow and _cancel_workflow must start with `if <guard>: return` where <guard> is built from
`states.<predicate>(self.wf_ex.state)`, `states.is_valid_transition(self.wf_ex.state, states.<CONST>)`,
`self.wf_ex.state == states.<CONST>`, not / and / or.  The guard becomes a Coq function of the workflow
state over Gen/States.v; what follows the guard must reach `self.set_state(states.<TARGET>, ...)` with the
expected target.  _succeed_workflow may start with such a guard too; it must call
self.set_state(states.SUCCESS, ...) and return when that yields False, before writing the output.
"""
import ast
import os

from harness.core import TranslateError

NAME = 'WfGuards'
SRC = 'mistral/engine/workflows.py'
PREDICATES = {'is_completed', 'is_paused', 'is_idle', 'is_running', 'is_waiting', 'is_cancelled', 'is_skipped',
              'is_paused_or_completed', 'is_paused_or_idle', 'is_valid', 'is_invalid', 'is_cancelled_or_skipped'}
CONSTS = {'IDLE', 'WAITING', 'RUNNING', 'RUNNING_DELAYED', 'PAUSED', 'SUCCESS', 'CANCELLED', 'ERROR', 'SKIPPED'}


def _is_state_attr(node):
    return (isinstance(node, ast.Attribute) and node.attr == 'state' and isinstance(node.value, ast.Attribute)
            and node.value.attr == 'wf_ex' and isinstance(node.value.value, ast.Name) and node.value.value.id == 'self')


def _const(node):
    if (isinstance(node, ast.Attribute) and isinstance(node.value, ast.Name) and node.value.id == 'states'
            and node.attr in CONSTS):
        return node.attr
    raise TranslateError('expected states.<CONST>, got %s' % ast.dump(node))


def _guard(node):
    if isinstance(node, ast.UnaryOp) and isinstance(node.op, ast.Not):
        return '(negb %s)' % _guard(node.operand)
    if isinstance(node, ast.BoolOp):
        op = 'andb' if isinstance(node.op, ast.And) else 'orb'
        out = _guard(node.values[0])
        for v in node.values[1:]:
            out = '(%s %s %s)' % (op, out, _guard(v))
        return out
    if isinstance(node, ast.Compare) and len(node.ops) == 1 and _is_state_attr(node.left):
        c = _const(node.comparators[0])
        if isinstance(node.ops[0], ast.Eq):
            return '(state_eqb x %s)' % c
        if isinstance(node.ops[0], ast.NotEq):
            return '(negb (state_eqb x %s))' % c
    if (isinstance(node, ast.Call) and isinstance(node.func, ast.Attribute) and isinstance(node.func.value, ast.Name)
            and node.func.value.id == 'states' and not node.keywords):
        f = node.func.attr
        if f in PREDICATES and len(node.args) == 1 and _is_state_attr(node.args[0]):
            return '(%s x)' % f
        if f == 'is_valid_transition' and len(node.args) == 2 and _is_state_attr(node.args[0]):
            return '(match is_valid_transition x %s with Some b => b | None => false end)' % _const(node.args[1])
    raise TranslateError('guard outside the recognised subset: %s' % ast.dump(node))


def _set_state_target(stmts):
    """first `self.set_state(states.X, ...)` call in the statements, with how its result is used"""
    for st in stmts:
        for node in ast.walk(st):
            if (isinstance(node, ast.Call) and isinstance(node.func, ast.Attribute) and node.func.attr == 'set_state'
                    and isinstance(node.func.value, ast.Name) and node.func.value.id == 'self' and node.args):
                return _const(node.args[0]), st
    raise TranslateError('no self.set_state(states.X, ...) call found')


def _returns_if_not_set(st):
    return (isinstance(st, ast.If) and isinstance(st.test, ast.UnaryOp) and isinstance(st.test.op, ast.Not)
            and len(st.body) == 1 and isinstance(st.body[0], ast.Return) and st.body[0].value is None and not st.orelse)


def translate(repo):
    tree = ast.parse(open(os.path.join(repo, SRC)).read())
    cls = [n for n in tree.body if isinstance(n, ast.ClassDef) and n.name == 'Workflow']
    if len(cls) != 1:
        raise TranslateError('class Workflow not found')
    meths = {n.name: n for n in cls[0].body if isinstance(n, ast.FunctionDef)}
    out = ['(* GENERATED from %s by translate/tr_wfguards.py on every run. Do not edit. *)' % SRC,
           'From Coq Require Import Bool.', 'Require Import Mistral.Gen.States.', '']
    for meth, target, dname in (('_fail_workflow', 'ERROR', 'fail'), ('_cancel_workflow', 'CANCELLED', 'cancel')):
        f = meths.get(meth)
        if f is None:
            raise TranslateError('%s not found' % meth)
        body = [s for s in f.body if not (isinstance(s, ast.Expr) and isinstance(s.value, ast.Constant))]
        first = body[0]
        if not (isinstance(first, ast.If) and len(first.body) == 1 and isinstance(first.body[0], ast.Return)
                and first.body[0].value is None and not first.orelse):
            raise TranslateError('%s does not start with `if <guard>: return`' % meth)
        g = _guard(first.test)
        tgt, st = _set_state_target(body[1:])
        if tgt != target:
            raise TranslateError('%s sets state %s, expected %s' % (meth, tgt, target))
        if not _returns_if_not_set(st):
            raise TranslateError('%s does not return when set_state yields False' % meth)
        # nothing may be written to self.wf_ex before the set_state call
        for s in body[1:body.index(st)]:
            for node in ast.walk(s):
                if isinstance(node, (ast.Assign, ast.AugAssign)):
                    for t in (node.targets if isinstance(node, ast.Assign) else [node.target]):
                        if isinstance(t, ast.Attribute) and isinstance(t.value, ast.Attribute) and t.value.attr == 'wf_ex':
                            raise TranslateError('%s writes self.wf_ex.%s before set_state' % (meth, t.attr))
        out.append('(* %s: `if <guard>: return`, then self.set_state(states.%s, ...) *)' % (meth, target))
        out.append('Definition %s_guard (x : state) : bool := %s.' % (dname, g))
        out.append('Definition %s_target : state := %s.' % (dname, target))
        out.append('')
    f = meths.get('_succeed_workflow')
    if f is None:
        raise TranslateError('_succeed_workflow not found')
    body = [s for s in f.body if not (isinstance(s, ast.Expr) and isinstance(s.value, ast.Constant))]
    first = body[0]
    if (isinstance(first, ast.If) and len(first.body) == 1 and isinstance(first.body[0], ast.Return)
            and first.body[0].value is None and not first.orelse):
        g = _guard(first.test)
        rest = body[1:]
    else:
        g = 'false'          # no guard: straight to set_state
        rest = body
    tgt, st = _set_state_target(rest)
    if tgt != 'SUCCESS' or not _returns_if_not_set(st):
        raise TranslateError('_succeed_workflow: expected `if not self.set_state(states.SUCCESS, ...): return`')
    for s in rest[:rest.index(st)]:
        for node in ast.walk(s):
            if isinstance(node, ast.Assign):
                for t in node.targets:
                    if isinstance(t, ast.Attribute) and isinstance(t.value, ast.Attribute) and t.value.attr == 'wf_ex':
                        raise TranslateError('_succeed_workflow writes self.wf_ex.%s before set_state' % t.attr)
    out.append('(* _succeed_workflow: optional `if <guard>: return`; the output is written only after')
    out.append('   self.set_state(states.SUCCESS) succeeded *)')
    out.append('Definition succeed_guard (x : state) : bool := %s.' % g)
    out.append('Definition succeed_target : state := SUCCESS.')
    return '\n'.join(out) + '\n'
