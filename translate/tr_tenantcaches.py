"""Inventory of the process-wide in-memory stores of mistral and the composition of their keys
(Python ast, fail closed) -> Gen/TenantCaches.v.

Discovery (every file under mistral/ except tests, migrations, hacking):
  * module-level and class-level names bound to a mapping / cache constructor
    ({} dict() defaultdict OrderedDict cachetools.*Cache ...),
  * `self.x = <mapping constructor>` in an `__init__`,
  * functions decorated with a cache decorator (cachetools.cached, lru_cache, cached(...)),
  * any other call of a cachetools cache constructor.
Every discovered store must be classified in REGISTRY below; an unknown store aborts the translation
(a new in-memory store has to be looked at before the check can pass).

Classes:
  tenant   holds content owned by a project and is looked up on behalf of a caller: the key expression of
           every access is resolved (local assignments, attribute chains) to its components
           id / name / project / version / other and summarised as
               KeyId            some component is a row id (unique across projects)
               KeyNameProject   a name together with the owning project
               KeyNameOnly      a name (unique only inside one project)
               KeyOther s       anything else
  multi    a multimap whose entries carry their owner; the consumer must filter the entries by
           owner-or-public (the filter is looked for in the consumer function)
  system   no tenant-owned content (plugin classes, spec classes, locks, rpc objects ...), with the reason.
  scoped   tenant content, but the store lives inside one object / one transaction that belongs to one
           resource or one caller (not shared between projects), with the reason.
"""
import ast
import os

from harness.core import TranslateError

NAME = 'TenantCaches'
ROOT = 'mistral'
SKIP_DIRS = ('/tests', '/db/sqlalchemy/migration', '/hacking')

MAP_CTORS = ('dict', 'defaultdict', 'OrderedDict', 'collections.OrderedDict', 'collections.defaultdict',
             'cachetools.LRUCache', 'cachetools.TTLCache', 'cachetools.LFUCache', 'cachetools.Cache', 'LRUCache', 'TTLCache',
             'weakref.WeakValueDictionary', 'WeakValueDictionary')
CACHE_CTORS = tuple(c for c in MAP_CTORS if 'Cache' in c)

# store id -> (class, detail)
REGISTRY = {
    'mistral/actions/dynamic_action.py:DynamicActionProvider._code_sources':
        ('tenant', 'python modules exec\'ed from code sources, looked up when a dynamic action is resolved'),
    'mistral/lang/parser.py:_WF_EX_CACHE':
        ('tenant', 'workflow specs by workflow execution (get_workflow_spec_by_execution_id, cache_workflow_spec_by_execution_id)'),
    'mistral/lang/parser.py:_WF_DEF_CACHE':
        ('tenant', 'workflow specs by workflow definition (get_workflow_spec_by_definition_id)'),
    'mistral/scheduler/default_scheduler.py:DefaultScheduler.in_memory_jobs':
        ('tenant', 'scheduled jobs (with the serialized security context of their project) waiting in this process'),
    'mistral/event_engine/default_event_engine.py:DefaultEventEngine.event_triggers_map':
        ('multi', '_loop'),
    'mistral/event_engine/default_event_engine.py:DefaultEventEngine.exchange_topic_events_map':
        ('system', 'set of event names per (exchange, topic): drives listeners only, never returned to a caller'),
    'mistral/event_engine/default_event_engine.py:DefaultEventEngine.exchange_topic_listener_map':
        ('system', 'oslo.messaging listeners per (exchange, topic)'),
    'mistral/actions/legacy.py:LegacyActionProvider._action_descs':
        ('system', 'action classes from the entry points mistral.actions / mistral.generators (installed code)'),
    'mistral/actions/test.py:TestActionProvider._action_descs':
        ('system', 'test provider, empty in production'),
    'mistral/expressions/__init__.py:patterns': ('system', 'expression syntax patterns'),
    'mistral/services/periodic.py:_periodic_tasks': ('system', 'periodic task threads per server'),
    'mistral/executors/base.py:_EXECUTORS': ('system', 'executor singletons by type'),
    'mistral/notifiers/base.py:_NOTIFIERS': ('system', 'notifier singletons by type'),
    'mistral/notifiers/base.py:_NOTIFICATION_PUBLISHERS': ('system', 'publisher singletons by type'),
    'mistral/db/sqlalchemy/sqlite_lock.py:_locks': ('system', 'sqlite lock objects by lock name (no content)'),
    'mistral/lang/base.py:_POLYMORPHIC_CACHE': ('system', 'spec classes by (class, polymorphic value)'),
    'mistral/lang/base.py:BaseSpec._definitions': ('system', 'json schema definitions'),
    'mistral/engine/base.py:TaskPolicy._schema': ('system', 'json schema of a policy class'),
    'mistral/lang/base.py:BaseSpecList.items':
        ('scoped', 'members of one parsed definition (the spec object belongs to one workflow / workbook)'),
    'mistral/lang/v2/workflows.py:DirectWorkflowSpec.inbound_tasks_cache':
        ('scoped', 'task specs of one workflow spec object by task name'),
    'mistral/lang/v2/workflows.py:DirectWorkflowSpec.outbound_tasks_cache':
        ('scoped', 'task specs of one workflow spec object by task name'),
    'mistral/auth/keycloak.py:get_public_key()':
        ('system', 'realm public keys of the identity provider'),
    'mistral/lang/parser.py:get_workflow_spec_by_execution_id()': ('alias', 'mistral/lang/parser.py:_WF_EX_CACHE'),
    'mistral/lang/parser.py:get_workflow_spec_by_definition_id()': ('alias', 'mistral/lang/parser.py:_WF_DEF_CACHE'),
    'mistral/db/sqlalchemy/base.py:cachetools.LRUCache@_set_thread_local_session':
        ('scoped', 'transaction-scoped thread-local cache (db.utils.tx_cached): created and dropped with one transaction of one caller'),
}


def U(n):
    return ast.unparse(n)


def _files(repo):
    base = os.path.join(repo, ROOT)
    for dp, dn, fns in os.walk(base):
        rel = os.path.relpath(dp, repo)
        if any(s in '/' + rel + '/' for s in [x + '/' for x in SKIP_DIRS]):
            continue
        for f in sorted(fns):
            if f.endswith('.py'):
                yield os.path.join(rel, f)


def _is_map(v):
    if isinstance(v, ast.Dict):
        return not v.keys
    if isinstance(v, ast.Call) and U(v.func) in MAP_CTORS:
        return True
    return False


def discover(repo):
    """-> {store id: {'file', 'owner' (class or None), 'attr', 'ctor', 'node'}}"""
    out = {}
    trees = {}
    for rel in _files(repo):
        try:
            tree = ast.parse(open(os.path.join(repo, rel)).read())
        except (OSError, SyntaxError) as e:
            raise TranslateError('%s: %s' % (rel, e))
        trees[rel] = tree
        accounted = set()
        for n in tree.body:
            if isinstance(n, ast.Assign) and len(n.targets) == 1 and isinstance(n.targets[0], ast.Name) and _is_map(n.value):
                out['%s:%s' % (rel, n.targets[0].id)] = {'file': rel, 'owner': None, 'attr': n.targets[0].id, 'ctor': U(n.value)}
                accounted.add(id(n.value))
            if isinstance(n, ast.ClassDef):
                for s in n.body:
                    if isinstance(s, ast.Assign) and len(s.targets) == 1 and isinstance(s.targets[0], ast.Name) and _is_map(s.value):
                        out['%s:%s.%s' % (rel, n.name, s.targets[0].id)] = {'file': rel, 'owner': n.name, 'attr': s.targets[0].id,
                                                                           'ctor': U(s.value)}
                        accounted.add(id(s.value))
                    if isinstance(s, ast.FunctionDef) and s.name == '__init__':
                        for a in ast.walk(s):
                            if isinstance(a, ast.Assign) and len(a.targets) == 1 and _is_map(a.value) \
                                    and isinstance(a.targets[0], ast.Attribute) and U(a.targets[0].value) == 'self':
                                out['%s:%s.%s' % (rel, n.name, a.targets[0].attr)] = {
                                    'file': rel, 'owner': n.name, 'attr': a.targets[0].attr, 'ctor': U(a.value)}
                                accounted.add(id(a.value))
        for n in ast.walk(tree):
            if isinstance(n, (ast.FunctionDef, ast.AsyncFunctionDef)):
                for d in n.decorator_list:
                    u = U(d)
                    if ('cache' in u.lower()) and 'tx_cached' not in u:
                        out['%s:%s()' % (rel, n.name)] = {'file': rel, 'owner': None, 'attr': n.name, 'ctor': u, 'decorated': True}
                        for x in ast.walk(d):
                            accounted.add(id(x))
        # any other cache constructor call
        for fn in [x for x in ast.walk(tree) if isinstance(x, (ast.FunctionDef, ast.AsyncFunctionDef))]:
            for n in ast.walk(fn):
                if isinstance(n, ast.Call) and U(n.func) in CACHE_CTORS and id(n) not in accounted:
                    out['%s:%s@%s' % (rel, U(n.func), fn.name)] = {'file': rel, 'owner': None, 'attr': fn.name, 'ctor': U(n)}
                    accounted.add(id(n))
    return out, trees


# ---- key composition ----------------------------------------------------------------------

def components(expr, scope, depth=0):
    """set of component tags of a key expression inside function `scope`"""
    if depth > 6:
        return {'other:' + U(expr)[:40]}
    if isinstance(expr, ast.Tuple):
        out = set()
        for e in expr.elts:
            out |= components(e, scope, depth + 1)
        return out
    if isinstance(expr, ast.Call) and U(expr.func) in ('cachetools.keys.hashkey', 'hashkey', 'str'):
        out = set()
        for e in expr.args:
            out |= components(e, scope, depth + 1)
        return out
    if isinstance(expr, ast.Subscript) and isinstance(expr.slice, ast.Constant) and isinstance(expr.slice.value, str):
        return {_tag(expr.slice.value)}
    if isinstance(expr, ast.Attribute):
        return {_tag(expr.attr)}
    if isinstance(expr, ast.Name):
        # parameter or local
        assigns = [s for s in ast.walk(scope) if isinstance(s, ast.Assign) and any(isinstance(t, ast.Name) and t.id == expr.id for t in s.targets)]
        loops = [s for s in ast.walk(scope) if isinstance(s, (ast.For, ast.comprehension)) and
                 any(isinstance(t, ast.Name) and t.id == expr.id for t in ast.walk(s.target))]
        if len(assigns) == 1 and not loops:
            return components(assigns[0].value, scope, depth + 1)
        if not assigns and not loops:
            return {_tag(expr.id)}       # a parameter: by its name
        if loops and not assigns:
            return {'iter:' + expr.id}
        return {'other:' + expr.id}
    return {'other:' + U(expr)[:40]}


def _tag(name):
    n = name.lower()
    if n == 'id' or n.endswith('_id') and n not in ('project_id', 'tenant_id', 'user_id', 'trust_id'):
        return 'id'
    if n in ('project_id', 'tenant_id'):
        return 'project'
    if n == 'name' or n.endswith('_name'):
        return 'name'
    if n in ('version',) or n.endswith('_version') or n.endswith('_ver'):
        return 'version'
    if n in ('namespace',):
        return 'namespace'
    return 'other:' + name


def kind_of(comp_sets):
    """summary over all accesses of one store"""
    kinds = set()
    for c in comp_sets:
        c = {x for x in c if not x.startswith('iter:')}
        if not c:
            continue
        if 'id' in c:
            kinds.add('KeyId')
        elif 'name' in c and 'project' in c:
            kinds.add('KeyNameProject')
        elif 'name' in c:
            kinds.add('KeyNameOnly')
        else:
            kinds.add('KeyOther ' + ','.join(sorted(c)))
    if not kinds:
        return None
    if len(kinds) == 1:
        return kinds.pop()
    return 'KeyOther mixed: ' + ' / '.join(sorted(kinds))


def accesses(tree, st):
    """key expressions of every access to the store, with their enclosing function"""
    out = []
    owner, attr = st['owner'], st['attr']

    def is_store(n):
        if owner:
            return isinstance(n, ast.Attribute) and n.attr == attr and U(n.value) == 'self'
        return isinstance(n, ast.Name) and n.id == attr
    scopes = []
    if owner:
        for c in tree.body:
            if isinstance(c, ast.ClassDef) and c.name == owner:
                scopes = [f for f in c.body if isinstance(f, ast.FunctionDef)]
    else:
        scopes = [f for f in ast.walk(tree) if isinstance(f, ast.FunctionDef)]
    for f in scopes:
        for n in ast.walk(f):
            if isinstance(n, ast.Subscript) and is_store(n.value):
                out.append((n.slice, f))
            elif isinstance(n, ast.Call) and isinstance(n.func, ast.Attribute) and is_store(n.func.value) \
                    and n.func.attr in ('get', 'pop', 'setdefault', '__getitem__', '__setitem__') and n.args:
                out.append((n.args[0], f))
            elif isinstance(n, ast.Compare) and any(is_store(c) for c in n.comparators) and isinstance(n.ops[0], (ast.In, ast.NotIn)):
                out.append((n.left, f))
    return out


def decorated_keys(tree, cache_name):
    """functions decorated with cachetools.cached(<cache_name>, ...): the key is the argument tuple"""
    out = []
    for f in ast.walk(tree):
        if isinstance(f, ast.FunctionDef):
            for d in f.decorator_list:
                if isinstance(d, ast.Call) and U(d.func).endswith('cached') and d.args and U(d.args[0]) == cache_name:
                    if any(k.arg == 'key' for k in d.keywords):
                        raise TranslateError('%s: custom cache key function' % f.name)
                    out.append(({_tag(a.arg) for a in f.args.args}, f.name, [a.arg for a in f.args.args]))
    return out


def call_site_check(trees, fname, nargs):
    """every caller of a cached function passes an id-like first argument"""
    bad = []
    for rel, tree in trees.items():
        for n in ast.walk(tree):
            if isinstance(n, ast.Call) and (U(n.func).endswith('.' + fname) or U(n.func) == fname) and n.args:
                a = n.args[0]
                t = U(a)
                if not (t.endswith('.id') or t.endswith('_id') or t.endswith("['id']")):
                    bad.append('%s: %s(%s)' % (rel, fname, t[:40]))
    return bad


def multi_filter(tree, owner, consumer, attr):
    """the consumer selects entries whose project is the caller's or that are public"""
    for c in tree.body:
        if isinstance(c, ast.ClassDef) and c.name == owner:
            for f in c.body:
                if isinstance(f, ast.FunctionDef) and f.name == consumer:
                    text = U(f)
                    need = ["self.%s[" % attr, "t['project_id'] == context.get('project_id')", "t['scope'] == 'public'",
                            'if project_trigger or public_trigger', 'self._start_workflow(triggers_to_call, event_params)']
                    missing = [x for x in need if x not in text]
                    return missing
    return ['consumer %s.%s not found' % (owner, consumer)]


PROVIDER_DIRS = ('mistral/actions/', 'mistral/lang/', 'mistral/services/actions.py', 'mistral/services/adhoc_actions.py')


def insecure_lookups(trees):
    """database reads made by the action providers / spec parser that bypass the tenancy filter"""
    out = []
    for rel, tree in sorted(trees.items()):
        if not rel.startswith(PROVIDER_DIRS):
            continue
        for n in ast.walk(tree):
            if isinstance(n, ast.Call):
                fn = U(n.func)
                if any(k.arg == 'insecure' for k in n.keywords) or fn.endswith('model_query') or fn.endswith('get_db_objects') \
                        or fn.endswith('session.query'):
                    out.append('%s:%d %s' % (rel, n.lineno, fn))
    return out


def analyse(repo):
    found, trees = discover(repo)
    unknown = sorted(k for k in found if k not in REGISTRY)
    if unknown:
        raise TranslateError('unclassified in-memory store(s): %s' % '; '.join('%s = %s' % (k, found[k]['ctor'][:40]) for k in unknown))
    gone = sorted(k for k, v in REGISTRY.items() if k not in found)
    if gone:
        raise TranslateError('registered store(s) no longer found: %s' % '; '.join(gone))
    stores = []
    for sid in sorted(found):
        cls, detail = REGISTRY[sid]
        st = found[sid]
        if cls == 'tenant':
            tree = trees[st['file']]
            acc = accesses(tree, st)
            comp = [components(e, f) for e, f in acc]
            notes = ['%s in %s' % (U(e)[:40], f.name) for e, f in acc]
            if not st['owner']:
                for c, fname, params in decorated_keys(tree, st['attr']):
                    comp.append(c)
                    notes.append('args(%s) of %s' % (', '.join(params), fname))
                    bad = call_site_check(trees, fname, len(params))
                    if bad:
                        raise TranslateError('%s: cached function called with a non-id key: %s' % (sid, '; '.join(bad[:3])))
            k = kind_of(comp)
            if k is None:
                raise TranslateError('%s: no keyed access found' % sid)
            stores.append({'id': sid, 'class': 'tenant', 'kind': k, 'accesses': notes, 'detail': detail})
        elif cls == 'multi':
            missing = multi_filter(trees[st['file']], st['owner'], detail, st['attr'])
            stores.append({'id': sid, 'class': 'multi', 'kind': 'MultiFiltered' if not missing else 'MultiUnfiltered',
                           'accesses': missing, 'detail': 'consumer ' + detail})
        elif cls == 'alias':
            continue
        else:
            stores.append({'id': sid, 'class': cls, 'kind': None, 'accesses': [], 'detail': detail})
    return {'stores': stores, 'insecure_lookups': insecure_lookups(trees)}


def cs(s):
    return '"' + s.replace('"', '""') + '"'


def translate(repo):
    a = analyse(repo)
    out = ['(* GENERATED from the sources under mistral/ by translate/tr_tenantcaches.py on every run. Do not edit. *)',
           'From Coq Require Import List String.', 'Require Import Mistral.Model.TenantCache.',
           'Import ListNotations.', 'Open Scope string_scope.', '',
           '(* process-wide in-memory stores holding tenant-owned content, with the composition of their keys *)',
           'Definition tenant_stores : list (string * store_kind) := [']
    rows = []
    for s in a['stores']:
        if s['class'] == 'tenant':
            k = s['kind']
            term = k if k in ('KeyId', 'KeyNameOnly', 'KeyNameProject') else '(KeyOther %s)' % cs(k[len('KeyOther '):])
            rows.append('  (%s, SlotStore %s)' % (cs(s['id']), term))
        elif s['class'] == 'multi':
            rows.append('  (%s, %s)' % (cs(s['id']), s['kind']))
    out.append(';\n'.join(rows))
    out.append('].')
    out.append('')
    out.append('(* the other in-memory stores: no tenant content, or confined to one object / one transaction *)')
    out.append('Definition other_stores : list (string * string) := [')
    out.append(';\n'.join('  (%s, %s)' % (cs(s['id']), cs(s['class'])) for s in a['stores'] if s['class'] in ('system', 'scoped')))
    out.append('].')
    out.append('')
    out.append('(* database reads of the action providers / the spec parser that bypass the tenancy filter *)')
    out.append('Definition provider_insecure_lookups : list string := [%s].' % '; '.join(cs(x) for x in a['insecure_lookups']))
    out.append('')
    return '\n'.join(out)
