"""Translate where the expression contexts of an execution get their environment layer into Gen/EnvSites.v
(fail closed).

(i)  mistral/workflow/data_flow.py get_workflow_environment_dict(wf_ex): the statements of the function are
     compiled into a Gallina Fixpoint over the execution record (own params 'env', root_execution_id, the
     root_execution relationship).  Recognised subset:
       if not wf_ex: return <layer>                      (first statement only: the None case)
       if <test>: return <layer>                          <test> ::= wf_ex.root_execution_id | not ... | ... is [not] None
       <name> = <env>
       return <layer>
       <layer> ::= {} | {'__env': <env>} | get_workflow_environment_dict(wf_ex.root_execution)
       <env>   ::= {} | <name> | wf_ex.params['env'] if 'env' in wf_ex.params else <env> | wf_ex.params.get('env', <env>)
(ii) every construction `ContextView(...)` in mistral/ (tests excluded) becomes one `env_site` record: its
     environment layer is classified
       EnvOfRoot     an argument get_workflow_environment_dict(<the execution of that function>)
       EnvOwnParams  an argument {'__env': <the execution>.params.get('env', ..) / .params['env']}
       EnvNone       no environment layer at all
       EnvOther s    anything else that carries an environment (the text is kept)
     every other argument must be one of the known data layers (DATA_LAYERS), else TranslateError.
     The callers of expr.evaluate / expr.evaluate_recursively / expr_utils.evaluate_object_fields in
     mistral/workflow/*.py and mistral/engine/*.py must take their context from one of these constructions
     (a local name bound to it, or <task>.get_expression_context(...)); each becomes an `env_use` (caller, site).
     An evaluation against a literal {'__env': x} is a site of its own (EnvOther).
"""
import ast
import glob
import os

from harness.core import TranslateError

NAME = 'EnvSites'
DF = 'mistral/workflow/data_flow.py'
SCAN_DIRS = ['mistral/workflow', 'mistral/engine']
ENVFN = 'get_workflow_environment_dict'

# argument texts of ContextView(...) that are data layers (no environment in them)
DATA_LAYERS = {
    'ctx', 'self.ctx', 'ctx or {}', 'input_dict', 'base_input_dict', 'self.task_ctx',
    'wf_ex.context', 'self.wf_ex.context', 'wf_ex.input', 'self.wf_ex.input', 'wf_ex.context if wf_ex else {}',
    'task_ex.in_context', 'self.task_ex.in_context',
    'get_current_task_dict(task_ex)', 'data_flow.get_current_task_dict(task_ex)',
    'data_flow.get_current_task_dict(self.task_ex)',
}
# what the local name `wf_ex` may be bound to for it to be "the execution the expression belongs to"
EXEC_BINDINGS = {
    'task_ex.workflow_execution', 'self.task_ex.workflow_execution',
    'self.task_ex.workflow_execution if self.task_ex else None',
}
# an upstream context view handed on as a whole (it carries the environment layer of the site that built it)
PASSED_VIEWS = {('mistral/actions/adhoc.py', 'wf_ctx'): 'the context view of actions.RegularAction.schedule, handed to instantiate()'}


def cstr(s):
    return '"' + s.replace('"', '""') + '"'


def src(node):
    return ast.unparse(node)


# --------------------------------------------------------------------------- (i) the shape

def _is_attr(node, base, attr):
    return (isinstance(node, ast.Attribute) and node.attr == attr and isinstance(node.value, ast.Name)
            and node.value.id == base)


def _is_params_env_subscript(node, arg):
    return (isinstance(node, ast.Subscript) and _is_attr(node.value, arg, 'params')
            and isinstance(node.slice, ast.Constant) and node.slice.value == 'env')


class Shape:
    def __init__(self, fn):
        self.fn = fn
        if len(fn.args.args) != 1 or fn.args.vararg or fn.args.kwarg or fn.args.kwonlyargs or fn.args.defaults:
            raise TranslateError('%s: expected exactly one plain parameter' % ENVFN)
        self.arg = fn.args.args[0].arg
        self.none_case = None

    def env(self, node, bound):
        a = self.arg
        if isinstance(node, ast.Dict) and not node.keys:
            return '[]'
        if isinstance(node, ast.Name) and node.id in bound:
            return node.id
        if isinstance(node, ast.IfExp):
            t = node.test
            if (isinstance(t, ast.Compare) and len(t.ops) == 1 and isinstance(t.ops[0], ast.In)
                    and isinstance(t.left, ast.Constant) and t.left.value == 'env'
                    and _is_attr(t.comparators[0], a, 'params') and _is_params_env_subscript(node.body, a)):
                return '(match params_env with Some v => v | None => %s end)' % self.env(node.orelse, bound)
        if (isinstance(node, ast.Call) and isinstance(node.func, ast.Attribute) and node.func.attr == 'get'
                and _is_attr(node.func.value, a, 'params') and not node.keywords and len(node.args) == 2
                and isinstance(node.args[0], ast.Constant) and node.args[0].value == 'env'):
            return '(match params_env with Some v => v | None => %s end)' % self.env(node.args[1], bound)
        raise TranslateError('%s: environment value outside the recognised subset: %s' % (ENVFN, src(node)))

    def layer(self, node, bound):
        if isinstance(node, ast.Dict):
            if not node.keys:
                return 'None'
            if len(node.keys) == 1 and isinstance(node.keys[0], ast.Constant) and node.keys[0].value == '__env':
                return '(Some %s)' % self.env(node.values[0], bound)
        if (isinstance(node, ast.Call) and isinstance(node.func, ast.Name) and node.func.id == ENVFN
                and len(node.args) == 1 and not node.keywords):
            if _is_attr(node.args[0], self.arg, 'root_execution'):
                if self.none_case is None:
                    raise TranslateError('%s: recursion through root_execution without an `if not %s: return` case'
                                         % (ENVFN, self.arg))
                return '(match root_execution with Some r => %s r | None => %s end)' % (ENVFN, self.none_case)
            raise TranslateError('%s: recursive call on %s (only %s.root_execution is recognised)'
                                 % (ENVFN, src(node.args[0]), self.arg))
        raise TranslateError('%s: returned value outside the recognised subset: %s' % (ENVFN, src(node)))

    def test(self, node):
        a = self.arg
        if isinstance(node, ast.UnaryOp) and isinstance(node.op, ast.Not):
            return '(negb %s)' % self.test(node.operand)
        if _is_attr(node, a, 'root_execution_id'):
            return '(truthy root_execution_id)'
        if (isinstance(node, ast.Compare) and len(node.ops) == 1 and _is_attr(node.left, a, 'root_execution_id')
                and isinstance(node.comparators[0], ast.Constant) and node.comparators[0].value is None):
            if isinstance(node.ops[0], ast.IsNot):
                return '(is_some root_execution_id)'
            if isinstance(node.ops[0], ast.Is):
                return '(negb (is_some root_execution_id))'
        raise TranslateError('%s: test outside the recognised subset: %s' % (ENVFN, src(node)))

    def stmts(self, body, bound):
        if not body:
            raise TranslateError('%s: falls off the end without a return' % ENVFN)
        st = body[0]
        if isinstance(st, ast.Return) and st.value is not None:
            if len(body) != 1:
                raise TranslateError('%s: statements after a return' % ENVFN)
            return self.layer(st.value, bound)
        if (isinstance(st, ast.If) and not st.orelse and len(st.body) == 1 and isinstance(st.body[0], ast.Return)
                and st.body[0].value is not None):
            return '(if %s then %s else %s)' % (self.test(st.test), self.layer(st.body[0].value, bound),
                                                 self.stmts(body[1:], bound))
        if isinstance(st, ast.Assign) and len(st.targets) == 1 and isinstance(st.targets[0], ast.Name):
            n = st.targets[0].id
            if n in (self.arg, 'params_env', 'root_execution_id', 'root_execution', 'r', 'v', ENVFN):
                raise TranslateError('%s: local name %s clashes' % (ENVFN, n))
            return '(let %s := %s in %s)' % (n, self.env(st.value, bound), self.stmts(body[1:], bound | {n}))
        raise TranslateError('%s: statement outside the recognised subset: %s' % (ENVFN, src(st)))

    def translate(self):
        body = [s for s in self.fn.body if not (isinstance(s, ast.Expr) and isinstance(s.value, ast.Constant))]
        first = body[0] if body else None
        if (isinstance(first, ast.If) and isinstance(first.test, ast.UnaryOp) and isinstance(first.test.op, ast.Not)
                and isinstance(first.test.operand, ast.Name) and first.test.operand.id == self.arg and not first.orelse
                and len(first.body) == 1 and isinstance(first.body[0], ast.Return) and first.body[0].value is not None):
            self.none_case = self.layer(first.body[0].value, frozenset())
            body = body[1:]
        return self.stmts(body, frozenset()), self.none_case


# --------------------------------------------------------------------------- (ii) the sites

def _functions(tree):
    """(qualified name, FunctionDef) of every function / method, nested ones under their parent's name."""
    out = []

    def walk(node, prefix):
        for ch in ast.iter_child_nodes(node):
            if isinstance(ch, (ast.FunctionDef, ast.AsyncFunctionDef)):
                out.append((prefix + ch.name, ch))
                walk(ch, prefix + ch.name + '.')
            elif isinstance(ch, ast.ClassDef):
                walk(ch, prefix + ch.name + '.')
            else:
                walk(ch, prefix)
    walk(tree, '')
    return out


def _own_nodes(fn):
    """nodes of a function body, not descending into nested function definitions"""
    stack = [n for n in fn.body if not isinstance(n, (ast.FunctionDef, ast.AsyncFunctionDef, ast.ClassDef))]
    while stack:
        n = stack.pop()
        yield n
        for ch in ast.iter_child_nodes(n):
            if not isinstance(ch, (ast.FunctionDef, ast.AsyncFunctionDef, ast.ClassDef)):
                stack.append(ch)


def _is_ctxview(call):
    f = call.func
    return (isinstance(f, ast.Name) and f.id == 'ContextView') or (isinstance(f, ast.Attribute) and f.attr == 'ContextView')


def _is_envfn(node):
    if not isinstance(node, ast.Call):
        return False
    f = node.func
    return (isinstance(f, ast.Name) and f.id == ENVFN) or (isinstance(f, ast.Attribute) and f.attr == ENVFN
                                                          and isinstance(f.value, ast.Name) and f.value.id == 'data_flow')


def _assignments(fn, name):
    return [n.value for n in _own_nodes(fn) if isinstance(n, ast.Assign) and len(n.targets) == 1
            and isinstance(n.targets[0], ast.Name) and n.targets[0].id == name]


def _params(fn):
    a = fn.args
    return {x.arg for x in a.args + a.kwonlyargs + getattr(a, 'posonlyargs', [])}


def _is_the_execution(fn, node):
    """is `node` the execution whose expressions the function evaluates?"""
    t = src(node)
    if t == 'self.wf_ex':
        return True
    if isinstance(node, ast.Name) and node.id == 'wf_ex':
        binds = [src(v) for v in _assignments(fn, 'wf_ex')]
        if 'wf_ex' in _params(fn):
            return all(b in EXEC_BINDINGS for b in binds)
        return bool(binds) and all(b in EXEC_BINDINGS for b in binds)
    return False


def _classify_env_arg(fn, node, where):
    """None if the argument is not an environment layer, else the Coq env_source term"""
    if isinstance(node, ast.Name):
        binds = _assignments(fn, node.id)
        if len(binds) == 1 and (_is_envfn(binds[0]) or isinstance(binds[0], ast.Dict)):
            return _classify_env_arg(fn, binds[0], where)
    if _is_envfn(node):
        if len(node.args) == 1 and not node.keywords and _is_the_execution(fn, node.args[0]):
            return 'EnvOfRoot'
        return 'EnvOther %s' % cstr(src(node))
    if isinstance(node, ast.Dict) and any(isinstance(k, ast.Constant) and k.value == '__env' for k in node.keys):
        if len(node.keys) != 1:
            return 'EnvOther %s' % cstr(src(node))
        v = node.values[0]
        base = None
        if isinstance(v, ast.Subscript) and isinstance(v.slice, ast.Constant) and v.slice.value == 'env':
            base = v.value
        elif (isinstance(v, ast.Call) and isinstance(v.func, ast.Attribute) and v.func.attr == 'get' and v.args
              and isinstance(v.args[0], ast.Constant) and v.args[0].value == 'env'):
            base = v.func.value
        if (base is not None and isinstance(base, ast.Attribute) and base.attr == 'params'
                and _is_the_execution(fn, base.value)):
            return 'EnvOwnParams'
        return 'EnvOther %s' % cstr(src(node))
    if '__env' in src(node) or 'environment' in src(node):
        raise TranslateError('%s: argument %s mentions an environment in an unrecognised way' % (where, src(node)))
    return None


def _site_of_call(rel, qual, fn, call):
    where = '%s %s' % (rel, qual)
    if call.keywords or any(isinstance(a, ast.Starred) for a in call.args):
        raise TranslateError('%s: ContextView(...) with keyword / starred arguments' % where)
    envs = []
    for a in call.args:
        e = _classify_env_arg(fn, a, where)
        if e is not None:
            envs.append(e)
            continue
        t = src(a)
        if (rel, t) in PASSED_VIEWS:
            envs.append('EnvOther %s' % cstr(PASSED_VIEWS[(rel, t)]))
            continue
        if t not in DATA_LAYERS:
            raise TranslateError('%s: ContextView argument %s is not a recognised data layer' % (where, t))
    if len(envs) > 1:
        raise TranslateError('%s: ContextView(...) with %d environment layers' % (where, len(envs)))
    return envs[0] if envs else 'EnvNone'


def _is_eval_call(call):
    f = call.func
    if not isinstance(f, ast.Attribute) or not isinstance(f.value, ast.Name):
        return None
    if f.value.id in ('expr', 'expressions') and f.attr in ('evaluate', 'evaluate_recursively'):
        return 'expr'
    if f.value.id == 'expr_utils' and f.attr == 'evaluate_object_fields':
        return 'fields'
    return None


def _context_arg(call):
    for k in call.keywords:
        if k.arg in ('context', 'ctx'):
            return k.value
    if len(call.args) >= 2:
        return call.args[1]
    raise TranslateError('evaluate call without a context argument: %s' % src(call))


def _is_get_expression_context(node):
    return (isinstance(node, ast.Call) and isinstance(node.func, ast.Attribute)
            and node.func.attr == 'get_expression_context' and isinstance(node.func.value, ast.Name)
            and node.func.value.id in ('self', 'task'))


def translate(repo):
    dfp = os.path.join(repo, DF)
    tree = ast.parse(open(dfp).read())
    fns = [n for n in tree.body if isinstance(n, ast.FunctionDef) and n.name == ENVFN]
    if len(fns) != 1:
        raise TranslateError('%s: %d definitions of %s' % (DF, len(fns), ENVFN))
    shape_body, none_case = Shape(fns[0]).translate()
    if none_case is None:
        raise TranslateError('%s: no `if not wf_ex: return <layer>` case (callers pass None)' % ENVFN)

    files = []
    for d in SCAN_DIRS:
        files += sorted(glob.glob(os.path.join(repo, d, '*.py')))
    scan = [os.path.relpath(p, repo) for p in files]
    # any construction outside the scanned directories must be known
    extra = []
    for root, dirs, names in os.walk(os.path.join(repo, 'mistral')):
        dirs[:] = sorted(x for x in dirs if x != 'tests')
        for n in sorted(names):
            rel = os.path.relpath(os.path.join(root, n), repo)
            if n.endswith('.py') and rel not in scan and 'ContextView' in open(os.path.join(root, n)).read():
                extra.append(rel)

    sites, uses = [], []
    expr_ctx_site = None
    for rel in scan + extra:
        t = ast.parse(open(os.path.join(repo, rel)).read())
        stem = os.path.basename(rel)[:-3]
        if rel not in scan:
            stem = rel[len('mistral/'):-3].replace('/', '_')
        for qual, fn in _functions(t):
            local_sites = {}       # local name -> site name
            calls = [n for n in _own_nodes(fn) if isinstance(n, ast.Call)]
            calls.sort(key=lambda c: (c.lineno, c.col_offset))
            k = 0
            direct = {}
            for c in calls:
                if not _is_ctxview(c):
                    continue
                k += 1
                name = '%s.%s' % (stem, qual) + ('' if k == 1 else '#%d' % k)
                sites.append((name, rel, qual, _site_of_call(rel, qual, fn, c)))
                direct[id(c)] = name
                if qual.endswith('.get_expression_context') and stem == 'tasks':
                    expr_ctx_site = name
            for n in _own_nodes(fn):
                if isinstance(n, ast.Assign) and len(n.targets) == 1 and isinstance(n.targets[0], ast.Name):
                    if id(n.value) in direct:
                        if n.targets[0].id in local_sites:
                            raise TranslateError('%s %s: name %s bound to two context views' % (rel, qual, n.targets[0].id))
                        local_sites[n.targets[0].id] = direct[id(n.value)]
                    elif _is_get_expression_context(n.value):
                        local_sites[n.targets[0].id] = '@expression_context'
            if rel not in scan:
                continue
            for c in calls:
                kind = _is_eval_call(c)
                if kind is None:
                    continue
                ca = _context_arg(c)
                if id(ca) in direct:
                    s = direct[id(ca)]
                elif isinstance(ca, ast.Name) and ca.id in local_sites:
                    s = local_sites[ca.id]
                elif _is_get_expression_context(ca):
                    s = '@expression_context'
                elif isinstance(ca, ast.Dict) and len(ca.keys) == 1 and isinstance(ca.keys[0], ast.Constant) \
                        and ca.keys[0].value == '__env':
                    s = '%s.%s' % (stem, qual)
                    if not any(x[0] == s for x in sites):
                        sites.append((s, rel, qual, 'EnvOther %s' % cstr('{__env: %s}: the value evaluated is the '
                                                                        'environment itself' % src(ca.values[0]))))
                else:
                    raise TranslateError('%s %s: %s evaluates against %s, which is not a context view built in this '
                                         'function' % (rel, qual, src(c.func), src(ca)))
                uses.append(('%s.%s:%d' % (stem, qual, sum(1 for u in uses if u[0].startswith('%s.%s:' % (stem, qual))) + 1), s))
            # Task.evaluate(data, ctx) is the one indirection: callers of self.evaluate use the task's context
            if stem == 'tasks':
                for c in calls:
                    f = c.func
                    if isinstance(f, ast.Attribute) and f.attr == 'evaluate' and isinstance(f.value, ast.Name) and f.value.id == 'self':
                        uses.append(('%s.%s:self.evaluate(%s)' % (stem, qual, src(c.args[0]) if c.args else ''), '@expression_context'))
    if expr_ctx_site is None:
        raise TranslateError('mistral/engine/tasks.py: no ContextView construction in a get_expression_context method')
    uses = [(u, expr_ctx_site if s == '@expression_context' else s) for u, s in uses]
    names = [s[0] for s in sites]
    if len(set(names)) != len(names):
        raise TranslateError('duplicate site names: %r' % names)
    for u, s in uses:
        if s not in names:
            raise TranslateError('use %s refers to unknown site %s' % (u, s))

    out = ['(* GENERATED by translate/tr_envsites.py from %s (%s) and every ContextView(...) construction /' % (DF, ENVFN),
           '   expr.evaluate* caller of mistral/workflow/*.py, mistral/engine/*.py (+ constructions elsewhere in mistral/)',
           '   on every run. Do not edit. *)',
           'From Coq Require Import String List Bool.', 'Import ListNotations.', 'Open Scope string_scope.', '',
           '(* where the environment layer of an expression context comes from *)',
           'Inductive env_source : Type :=',
           '| EnvOfRoot                 (* get_workflow_environment_dict(<the execution>) *)',
           '| EnvOwnParams              (* {__env: <the execution>.params[env]} *)',
           '| EnvNone                   (* no environment layer *)',
           '| EnvOther (what : string).',
           'Record env_site : Type := mkSite { site_name : string; site_file : string; site_fn : string; site_env : env_source }.',
           '',
           '(* an environment: key / value pairs; an execution as far as %s reads it *)' % ENVFN,
           'Definition env : Type := list (string * string).',
           'Inductive exec : Type :=',
           '  mkExec (ex_id : nat) (params_env : option env) (root_execution_id : option nat) (root_execution : option exec).',
           'Definition truthy (x : option nat) : bool := match x with Some _ => true | None => false end.',
           'Definition is_some (x : option nat) : bool := match x with Some _ => true | None => false end.',
           '',
           '(* %s %s: the context layer it returns; None = {} (no __env key), Some e = {__env: e} *)' % (DF, ENVFN),
           'Fixpoint %s (wf_ex : exec) : option env :=' % ENVFN,
           '  match wf_ex with',
           '  | mkExec _ params_env root_execution_id root_execution =>',
           '      %s' % shape_body,
           '  end.',
           '(* the `if not wf_ex: return ...` case *)',
           'Definition %s_opt (wf_ex : option exec) : option env :=' % ENVFN,
           '  match wf_ex with Some e => %s e | None => %s end.' % (ENVFN, none_case),
           '',
           'Definition env_sites : list env_site :=']
    out.append('  [ ' + '\n  ; '.join('mkSite %s %s %s (%s)' % (cstr(n), cstr(f), cstr(q), e) if e.startswith('EnvOther')
                                      else 'mkSite %s %s %s %s' % (cstr(n), cstr(f), cstr(q), e) for n, f, q, e in sites) + ' ].')
    out.append('')
    out.append('(* callers of expr.evaluate* / evaluate_object_fields / Task.evaluate and the site whose context they use *)')
    out.append('Definition env_uses : list (string * string) :=')
    out.append('  [ ' + '\n  ; '.join('(%s, %s)' % (cstr(u), cstr(s)) for u, s in uses) + ' ].')
    return '\n'.join(out) + '\n'
