"""Shape of the periodic integrity check in mistral/engine/workflow_handler.py -> Gen/IntegrityShape.v.

What is extracted (property C20, the chain of checks must not end before the workflow does):
  * `_check_and_fix_integrity`: the statements that DOMINATE the re-arming call
    `_schedule_check_and_fix_integrity(wf_ex, delay=<int>)`.  Only three early returns may precede it:
    negative delay, workflow execution missing, workflow execution completed.  Anything else in front of the
    re-arm (another `if ... return`, a loop, a query, the call nested in a branch, no call at all) is
    outside the recognised subset -> TranslateError (fail closed): the re-arm would no longer be
    unconditional for an unfinished workflow.
  * the period (the integer `delay=` of that call), the delay of the first check scheduled by
    `start_workflow`, that `rerun_workflow` schedules a check, and that `_schedule_check_and_fix_integrity`
    itself only refuses on a negative delay.
"""
import ast
import os

from harness.core import TranslateError

NAME = 'IntegrityShape'
SRC = 'mistral/engine/workflow_handler.py'
SCHED = '_schedule_check_and_fix_integrity'
DELAY_OPT = 'execution_integrity_check_delay'


def _func(tree, name):
    hits = [n for n in tree.body if isinstance(n, ast.FunctionDef) and n.name == name]
    if len(hits) != 1:
        raise TranslateError('expected exactly one function %s in %s, found %d' % (name, SRC, len(hits)))
    return hits[0]


def _is_conf_delay(e):
    """CONF.engine.execution_integrity_check_delay"""
    return (isinstance(e, ast.Attribute) and e.attr == DELAY_OPT and isinstance(e.value, ast.Attribute)
            and e.value.attr == 'engine' and isinstance(e.value.value, ast.Name) and e.value.value.id == 'CONF')


def _only_returns(body):
    return len(body) == 1 and isinstance(body[0], ast.Return)


def _is_docstring(st):
    return isinstance(st, ast.Expr) and isinstance(st.value, ast.Constant) and isinstance(st.value.value, str)


def _sched_call(st):
    """st is `_schedule_check_and_fix_integrity(<x>, delay=<e>)` as a statement -> (x, e) or None"""
    if not (isinstance(st, ast.Expr) and isinstance(st.value, ast.Call)):
        return None
    c = st.value
    if not (isinstance(c.func, ast.Name) and c.func.id == SCHED):
        return None
    if len(c.args) != 1 or len(c.keywords) != 1 or c.keywords[0].arg != 'delay':
        raise TranslateError('%s called with an unrecognised signature (line %d)' % (SCHED, st.lineno))
    return c.args[0], c.keywords[0].value


def _neg_delay_test(test, delay_vars):
    if not (isinstance(test, ast.Compare) and len(test.ops) == 1 and isinstance(test.ops[0], ast.Lt)
            and isinstance(test.comparators[0], ast.Constant) and test.comparators[0].value == 0):
        return False
    left = test.left
    return _is_conf_delay(left) or (isinstance(left, ast.Name) and left.id in delay_vars)


def _check_shape(fn):
    """Walk the statements of _check_and_fix_integrity in execution order up to the re-arm call."""
    guards = []
    delay_vars, wf_vars = set(), set()
    period = [None]

    def walk(stmts):
        for st in stmts:
            where = 'line %d of %s' % (st.lineno, SRC)
            if _is_docstring(st) or isinstance(st, (ast.Import, ast.ImportFrom)):
                continue
            if isinstance(st, ast.Assign) and len(st.targets) == 1 and isinstance(st.targets[0], ast.Name):
                if _is_conf_delay(st.value):
                    delay_vars.add(st.targets[0].id)
                    continue
                v = st.value
                if (isinstance(v, ast.Call) and isinstance(v.func, ast.Attribute) and v.func.attr == 'load_workflow_execution'
                        and isinstance(v.func.value, ast.Name) and v.func.value.id == 'db_api' and len(v.args) == 1
                        and isinstance(v.args[0], ast.Name) and v.args[0].id == fn.args.args[0].arg):
                    wf_vars.add(st.targets[0].id)
                    continue
                raise TranslateError('unrecognised assignment before the re-arm of the integrity check (%s)' % where)
            if isinstance(st, ast.If):
                if st.orelse or not _only_returns(st.body):
                    raise TranslateError('unrecognised branch before the re-arm of the integrity check (%s)' % where)
                t = st.test
                if _neg_delay_test(t, delay_vars):
                    guards.append('GNegativeDelay')
                    continue
                if isinstance(t, ast.UnaryOp) and isinstance(t.op, ast.Not) and isinstance(t.operand, ast.Name) \
                        and t.operand.id in wf_vars:
                    guards.append('GWorkflowMissing')
                    continue
                if (isinstance(t, ast.Call) and isinstance(t.func, ast.Attribute) and t.func.attr == 'is_completed'
                        and isinstance(t.func.value, ast.Name) and t.func.value.id == 'states' and len(t.args) == 1
                        and isinstance(t.args[0], ast.Attribute) and t.args[0].attr == 'state'
                        and isinstance(t.args[0].value, ast.Name) and t.args[0].value.id in wf_vars):
                    guards.append('GWorkflowCompleted')
                    continue
                raise TranslateError('the re-arm of the integrity check is dominated by an early return that is neither the '
                                     'negative-delay, the missing-workflow nor the completed-workflow one (%s): the chain of '
                                     'checks could end while the workflow is unfinished' % where)
            if isinstance(st, ast.With):
                it = st.items
                if not (len(it) == 1 and isinstance(it[0].context_expr, ast.Call) and isinstance(it[0].context_expr.func, ast.Attribute)
                        and it[0].context_expr.func.attr == 'transaction'):
                    raise TranslateError('unrecognised with-block before the re-arm of the integrity check (%s)' % where)
                if walk(st.body):
                    return True
                raise TranslateError('the transaction block of %s ends without re-arming the check' % fn.name)
            sc = _sched_call(st)
            if sc is not None:
                arg, delay = sc
                if not (isinstance(arg, ast.Name) and arg.id in wf_vars):
                    raise TranslateError('the re-arm call does not pass the loaded workflow execution (%s)' % where)
                if not (isinstance(delay, ast.Constant) and isinstance(delay.value, int) and delay.value > 0):
                    raise TranslateError('the period of the re-arm call is not a positive integer literal (%s)' % where)
                period[0] = delay.value
                return True
            raise TranslateError('statement before the re-arm of the integrity check outside the recognised subset (%s): '
                                 'the re-arm must directly follow the negative-delay / missing / completed early returns' % where)
        return False

    if not walk(fn.body):
        raise TranslateError('%s never re-arms itself at the top level' % fn.name)
    for g in ('GNegativeDelay', 'GWorkflowMissing', 'GWorkflowCompleted'):
        if guards.count(g) > 1:
            raise TranslateError('guard %s appears twice' % g)
    return guards, period[0]


def _schedule_shape(fn):
    """_schedule_check_and_fix_integrity: one early return (negative delay), then sched.schedule(job) with run_after=delay."""
    guards = []
    scheduled = False
    run_after_ok = False
    for st in fn.body:
        if _is_docstring(st):
            continue
        if isinstance(st, ast.If):
            if st.orelse or not _only_returns(st.body) or not _neg_delay_test(st.test, set()):
                raise TranslateError('%s: early return other than the negative-delay one (line %d)' % (fn.name, st.lineno))
            guards.append('GNegativeDelay')
            continue
        if isinstance(st, ast.Assign):
            for c in ast.walk(st.value):
                if isinstance(c, ast.Call) and getattr(c.func, 'attr', None) == 'SchedulerJob':
                    for kw in c.keywords:
                        if kw.arg == 'run_after' and isinstance(kw.value, ast.Name) and kw.value.id == 'delay':
                            run_after_ok = True
            continue
        if isinstance(st, ast.Expr) and isinstance(st.value, ast.Call) and getattr(st.value.func, 'attr', None) == 'schedule':
            scheduled = True
            continue
        raise TranslateError('%s: statement outside the recognised subset (line %d)' % (fn.name, st.lineno))
    if not scheduled or not run_after_ok:
        raise TranslateError('%s does not schedule a job with run_after=delay at its top level' % fn.name)
    return guards


def _top_level_sched(fn, want_conf_delay):
    """The function schedules a check at its top level (not inside a branch / loop)."""
    vals = []
    for st in fn.body:
        sc = _sched_call(st)
        if sc is None:
            continue
        vals.append(sc[1])
    if not vals:
        raise TranslateError('%s does not schedule an integrity check at its top level' % fn.name)
    d = vals[0]
    if want_conf_delay:
        if not _is_conf_delay(d):
            raise TranslateError('%s: delay of the scheduled check is not the configured one' % fn.name)
        return None
    if not (isinstance(d, ast.Constant) and isinstance(d.value, int) and d.value >= 0):
        raise TranslateError('%s: delay of the first check is not an integer literal' % fn.name)
    return d.value


def translate(repo):
    tree = ast.parse(open(os.path.join(repo, SRC)).read())
    guards, period = _check_shape(_func(tree, '_check_and_fix_integrity'))
    sguards = _schedule_shape(_func(tree, SCHED))
    start = _top_level_sched(_func(tree, 'start_workflow'), False)
    _top_level_sched(_func(tree, 'rerun_workflow'), True)
    out = ['(* GENERATED from %s by translate/tr_integrityshape.py on every run. Do not edit. *)' % SRC,
           'From Coq Require Import List ZArith.', 'Import ListNotations.', 'Open Scope Z_scope.', '',
           '(* the early returns that dominate the re-arming call of _check_and_fix_integrity, in source order *)',
           'Inductive rearm_guard := GNegativeDelay | GWorkflowMissing | GWorkflowCompleted.',
           'Definition rearm_guards : list rearm_guard := [%s].' % '; '.join(guards),
           'Definition schedule_guards : list rearm_guard := [%s].' % '; '.join(sguards),
           'Definition rearm_period : Z := %d.' % period,
           'Definition start_check_after : Z := %d.' % start,
           '(* rerun_workflow schedules a check after the configured delay at its top level (checked by the translator) *)',
           'Definition rerun_rearms : bool := true.',
           '']
    return '\n'.join(out)
