"""Extract [action_std_http] denied_cidrs / allowed_hosts defaults from
mistral/config.py into Gen/EgressCfg.v (fail closed)."""
import ast
import ipaddress
import os

from harness.core import TranslateError

NAME = 'EgressCfg'
SRC = 'mistral/config.py'


def _find(tree, optname):
    hits = []
    for node in ast.walk(tree):
        if isinstance(node, ast.Call) and isinstance(node.func, ast.Attribute) and node.func.attr == 'ListOpt' \
                and node.args and isinstance(node.args[0], ast.Constant) and node.args[0].value == optname:
            hits.append(node)
    if len(hits) != 1:
        raise TranslateError('expected exactly one ListOpt(%r), found %d' % (optname, len(hits)))
    for kw in hits[0].keywords:
        if kw.arg == 'default':
            if not isinstance(kw.value, ast.List) or not all(
                    isinstance(e, ast.Constant) and isinstance(e.value, str) for e in kw.value.elts):
                raise TranslateError('%s default is not a list of string literals' % optname)
            return [e.value for e in kw.value.elts]
    raise TranslateError('%s has no default' % optname)


def translate(repo):
    tree = ast.parse(open(os.path.join(repo, SRC)).read())
    cidrs = _find(tree, 'denied_cidrs')
    hosts = _find(tree, 'allowed_hosts')
    nets = []
    for c in cidrs:
        try:
            n = ipaddress.ip_network(c, strict=False)
        except ValueError:
            continue  # the code ignores invalid entries with a warning
        nets.append('mkNet %s %d%%N %d%%N' % ('V4' if n.version == 4 else 'V6', int(n.network_address), n.prefixlen))
    out = ['(* GENERATED from %s by translate/tr_egresscfg.py on every run. Do not edit. *)' % SRC,
           'From Coq Require Import List NArith String.', 'Require Import Mistral.Model.Egress.',
           'Import ListNotations.', '',
           'Definition default_denied : list net := [%s].' % '; '.join(nets),
           'Definition default_allowed_hosts : list string := [%s]%%string.' % '; '.join('"%s"' % h.replace('"', '""') for h in hosts),
           'Definition default_denied_text : list string := [%s]%%string.' % '; '.join('"%s"' % c for c in cidrs),
           '']
    return '\n'.join(out)
