"""Extract into Gen/CronCfg.v what the C17 model takes from the source text (fail closed: anything outside the
shapes recognised here raises TranslateError):

  lookup_by_name           mistral/services/periodic.py:advance_cron_trigger addresses the trigger row by NAME (`t.name`,
                           resolved among the rows visible to the trigger's project) or by ID (`t.id`); both database
                           calls must use the same identifier
  delete_reports_rowcount  mistral/db/v2/sqlalchemy/api.py:delete_cron_trigger is a compare-and-swap: SELECT the row,
                           execute `DELETE FROM cron_triggers_v2 WHERE id = <selected row>.id` and RETURN THE ROW COUNT
                           of that statement (true).  false = the recognised broken shape: ORM `session.delete(row)`
                           and a constant positive result (the loser of a race between SELECT and DELETE reports 1)
  update_reports_match     ...:update_cron_trigger with a query_filter goes through the conditional UPDATE
                           (update_on_match on id + query_filter) and reports 0 when no row matched (NoRowsMatched)
                           (true).  false = the NoRowsMatched handler returns a positive constant count

and check (no flag: recognised or TranslateError) that the reported count reaches the decision to start unchanged:
  mistral/services/triggers.py:delete_cron_trigger returns the value of db_api.delete_cron_trigger(identifier) as is;
  periodic.advance_cron_trigger starts from 0, takes the count of either call and returns `count > 0`;
  periodic.process_cron_triggers_v2 calls start_workflow only under `if <result of advance_cron_trigger>:`.
"""
import ast
import os

from harness.core import TranslateError

NAME = 'CronCfg'
SRC = 'mistral/services/periodic.py'
SRC_TRIGGERS = 'mistral/services/triggers.py'
SRC_DB = 'mistral/db/v2/sqlalchemy/api.py'


def _parse(repo, rel):
    try:
        return ast.parse(open(os.path.join(repo, rel)).read())
    except (OSError, SyntaxError) as e:
        raise TranslateError('%s: %s' % (rel, e))


def _fn(tree, rel, name):
    fns = [n for n in tree.body if isinstance(n, ast.FunctionDef) and n.name == name]
    if len(fns) != 1:
        raise TranslateError('%s: expected exactly one top-level def %s' % (rel, name))
    return fns[0]


def _body(fn):
    """Statements of a function without its docstring."""
    b = list(fn.body)
    if b and isinstance(b[0], ast.Expr) and isinstance(b[0].value, ast.Constant) and isinstance(b[0].value.value, str):
        b = b[1:]
    return b


def _dotted(node):
    """'a.b.c' for a Name / Attribute chain, else None."""
    parts = []
    while isinstance(node, ast.Attribute):
        parts.append(node.attr)
        node = node.value
    if isinstance(node, ast.Name):
        parts.append(node.id)
        return '.'.join(reversed(parts))
    return None


def _is_call(node, dotted, nargs=None, kws=None):
    if not (isinstance(node, ast.Call) and _dotted(node.func) == dotted):
        return False
    if nargs is not None and len(node.args) != nargs:
        return False
    if kws is not None and sorted(k.arg or '**' for k in node.keywords) != sorted(kws):
        return False
    return True


def _assign_name(stmt):
    if isinstance(stmt, ast.Assign) and len(stmt.targets) == 1 and isinstance(stmt.targets[0], ast.Name):
        return stmt.targets[0].id
    return None


def _stores(fn, name):
    return sum(1 for n in ast.walk(fn) if isinstance(n, ast.Name) and n.id == name and isinstance(n.ctx, (ast.Store, ast.Del)))


def _session_aware(fn, what):
    if not (len(fn.decorator_list) == 1 and _is_call(fn.decorator_list[0], 'b.session_aware', 0, [])):
        raise TranslateError('%s: expected the single decorator @b.session_aware()' % what)


def _selected_row(fn, what):
    """`row = get_cron_trigger(identifier)` + `m_dbutils.check_db_obj_access(row)` at the top; returns (row, rest)."""
    b = _body(fn)
    ident = fn.args.args[0].arg if fn.args.args else None
    if len(b) < 2 or _assign_name(b[0]) is None or not _is_call(b[0].value, 'get_cron_trigger', 1, []) \
            or _dotted(b[0].value.args[0]) != ident:
        raise TranslateError('%s: does not start with `row = get_cron_trigger(%s)`' % (what, ident))
    row = _assign_name(b[0])
    if not (isinstance(b[1], ast.Expr) and _is_call(b[1].value, 'm_dbutils.check_db_obj_access', 1, [])
            and _dotted(b[1].value.args[0]) == row):
        raise TranslateError('%s: no m_dbutils.check_db_obj_access(%s) after the SELECT' % (what, row))
    return row, b[2:]


def delete_shape(tree):
    what = SRC_DB + ':delete_cron_trigger'
    fn = _fn(tree, SRC_DB, 'delete_cron_trigger')
    _session_aware(fn, what)
    if [a.arg for a in fn.args.args] != ['identifier', 'session']:
        raise TranslateError('%s: unexpected signature' % what)
    row, rest = _selected_row(fn, what)
    # compare-and-swap shape
    if len(rest) == 3:
        tbl, res = _assign_name(rest[0]), _assign_name(rest[1])
        ok = tbl is not None and _dotted(rest[0].value) == 'models.CronTrigger.__table__' and res is not None
        ex = rest[1].value if ok else None
        ok = ok and _is_call(ex, 'session.execute', 1, [])
        if ok:
            st = ex.args[0]
            # <tbl>.delete().where(<tbl>.c.id == <row>.id)
            ok = isinstance(st, ast.Call) and isinstance(st.func, ast.Attribute) and st.func.attr == 'where' \
                and _is_call(st.func.value, tbl + '.delete', 0, []) and len(st.args) == 1 and not st.keywords
            if ok:
                c = st.args[0]
                ok = isinstance(c, ast.Compare) and len(c.ops) == 1 and isinstance(c.ops[0], ast.Eq) \
                    and sorted([_dotted(c.left) or '', _dotted(c.comparators[0]) or '']) == sorted([tbl + '.c.id', row + '.id'])
        ok = ok and isinstance(rest[2], ast.Return) and _dotted(rest[2].value) == res + '.rowcount'
        if ok and _stores(fn, row) == 1 and _stores(fn, tbl) == 1 and _stores(fn, res) == 1:
            return True
    # the recognised broken shape: ORM delete of the selected object, constant result
    if len(rest) == 2 and isinstance(rest[0], ast.Expr) and _is_call(rest[0].value, 'session.delete', 1, []) \
            and _dotted(rest[0].value.args[0]) == row and isinstance(rest[1], ast.Return) \
            and isinstance(rest[1].value, ast.Constant) and type(rest[1].value.value) is int and rest[1].value.value >= 1:
        return False
    raise TranslateError('%s: neither `res = session.execute(table.delete().where(table.c.id == %s.id)); return res.rowcount` '
                         'nor a recognised variant' % (what, row))


def update_shape(tree):
    what = SRC_DB + ':update_cron_trigger'
    fn = _fn(tree, SRC_DB, 'update_cron_trigger')
    _session_aware(fn, what)
    if [a.arg for a in fn.args.args] != ['identifier', 'values', 'session', 'query_filter']:
        raise TranslateError('%s: unexpected signature' % what)
    row, rest = _selected_row(fn, what)
    if not (len(rest) == 1 and isinstance(rest[0], ast.If) and _dotted(rest[0].test) == 'query_filter'):
        raise TranslateError('%s: expected a single `if query_filter:` after the SELECT' % what)
    body = rest[0].body
    if not (len(body) == 1 and isinstance(body[0], ast.Try) and not body[0].orelse and not body[0].finalbody
            and len(body[0].handlers) == 1):
        raise TranslateError('%s: the query_filter branch is not one try/except' % what)
    tr = body[0]
    b = tr.body
    ok = len(b) == 4
    if ok:
        spec, qry, upd = _assign_name(b[0]), _assign_name(b[1]), _assign_name(b[2])
        ok = None not in (spec, qry, upd)
        # specimen = models.CronTrigger(id=<row>.id, **query_filter)
        ok = ok and _is_call(b[0].value, 'models.CronTrigger', 0, ['id', '**'])
        if ok:
            kw = {k.arg or '**': k.value for k in b[0].value.keywords}
            ok = _dotted(kw['id']) == row + '.id' and _dotted(kw['**']) == 'query_filter'
        # query = b.model_query(models.CronTrigger)
        ok = ok and _is_call(b[1].value, 'b.model_query', 1, []) and _dotted(b[1].value.args[0]) == 'models.CronTrigger'
        # <row'> = query.update_on_match(specimen=specimen, surrogate_key='id', values=values)
        ok = ok and _is_call(b[2].value, qry + '.update_on_match', 0, ['specimen', 'surrogate_key', 'values'])
        if ok:
            kw = {k.arg: k.value for k in b[2].value.keywords}
            ok = _dotted(kw['specimen']) == spec and isinstance(kw['surrogate_key'], ast.Constant) \
                and kw['surrogate_key'].value == 'id' and _dotted(kw['values']) == 'values'
        # return <row'>, 1
        ok = ok and isinstance(b[3], ast.Return) and isinstance(b[3].value, ast.Tuple) and len(b[3].value.elts) == 2 \
            and _dotted(b[3].value.elts[0]) == upd and isinstance(b[3].value.elts[1], ast.Constant) \
            and b[3].value.elts[1].value == 1 and type(b[3].value.elts[1].value) is int
    if not ok:
        raise TranslateError('%s: the query_filter branch is not specimen / model_query / update_on_match(specimen, '
                             "surrogate_key='id', values=values) / return row, 1" % what)
    h = tr.handlers[0]
    if not (h.type is not None and (_dotted(h.type) or '').split('.')[-1] == 'NoRowsMatched'
            and (_dotted(h.type) or '').startswith('oslo_sqlalchemy.')):
        raise TranslateError('%s: the handler does not catch oslo.db NoRowsMatched only' % what)
    hb = list(h.body)
    while hb and isinstance(hb[0], ast.Expr) and isinstance(hb[0].value, ast.Call) and (_dotted(hb[0].value.func) or '').startswith('LOG.'):
        hb = hb[1:]
    if not (len(hb) == 1 and isinstance(hb[0], ast.Return) and isinstance(hb[0].value, ast.Tuple) and len(hb[0].value.elts) == 2
            and isinstance(hb[0].value.elts[1], ast.Constant) and type(hb[0].value.elts[1].value) is int
            and hb[0].value.elts[1].value >= 0):
        raise TranslateError('%s: the NoRowsMatched handler does not end in `return row, <constant count>`' % what)
    return hb[0].value.elts[1].value == 0


def check_count_chain(per, trg):
    # triggers.delete_cron_trigger: `m = db_api.delete_cron_trigger(identifier)` ... `return m`
    what = SRC_TRIGGERS + ':delete_cron_trigger'
    fn = _fn(trg, SRC_TRIGGERS, 'delete_cron_trigger')
    ident = fn.args.args[0].arg if fn.args.args else None
    calls = [n for n in ast.walk(fn) if isinstance(n, ast.Assign) and _is_call(n.value, 'db_api.delete_cron_trigger')]
    rets = [n for n in ast.walk(fn) if isinstance(n, ast.Return)]
    if not (len(calls) == 1 and calls[0] in fn.body and _assign_name(calls[0]) and len(calls[0].value.args) == 1
            and not calls[0].value.keywords and _dotted(calls[0].value.args[0]) == ident):
        raise TranslateError('%s: expected one top-level `m = db_api.delete_cron_trigger(%s)`' % (what, ident))
    m = _assign_name(calls[0])
    if not (len(rets) == 1 and rets[0] is fn.body[-1] and _dotted(rets[0].value) == m and _stores(fn, m) == 1
            and not any(isinstance(n, (ast.AugAssign, ast.Global, ast.Nonlocal)) for n in ast.walk(fn))):
        raise TranslateError('%s: the row count of db_api.delete_cron_trigger is not returned unchanged' % what)
    # periodic.advance_cron_trigger
    what = SRC + ':advance_cron_trigger'
    fn = _fn(per, SRC, 'advance_cron_trigger')
    t = fn.args.args[0].arg
    b = _body(fn)
    if not (_assign_name(b[0]) and isinstance(b[0].value, ast.Constant) and b[0].value.value == 0 and type(b[0].value.value) is int):
        raise TranslateError('%s: does not start with `modified_count = 0`' % what)
    m = _assign_name(b[0])
    last = b[-1]
    if not (isinstance(last, ast.Return) and isinstance(last.value, ast.Compare) and _dotted(last.value.left) == m
            and len(last.value.ops) == 1 and isinstance(last.value.ops[0], ast.Gt)
            and isinstance(last.value.comparators[0], ast.Constant) and last.value.comparators[0].value == 0
            and sum(1 for n in ast.walk(fn) if isinstance(n, ast.Return)) == 1):
        raise TranslateError('%s: does not end with the single `return %s > 0`' % (what, m))
    srcs = []
    for n in ast.walk(fn):
        if isinstance(n, (ast.AugAssign, ast.AnnAssign)) and _dotted(n.target) == m:
            raise TranslateError('%s: %s is modified in place' % (what, m))
        if isinstance(n, ast.Assign) and n is not b[0]:
            for tg in n.targets:
                if isinstance(tg, ast.Name) and tg.id == m:
                    if not _is_call(n.value, 'triggers.delete_cron_trigger'):
                        raise TranslateError('%s: %s assigned from something else than triggers.delete_cron_trigger' % (what, m))
                    srcs.append('delete')
                elif isinstance(tg, ast.Tuple) and any(isinstance(e, ast.Name) and e.id == m for e in tg.elts):
                    if not (len(tg.elts) == 2 and isinstance(tg.elts[1], ast.Name) and tg.elts[1].id == m
                            and _is_call(n.value, 'db_api_v2.update_cron_trigger')):
                        raise TranslateError('%s: %s is not the second result of db_api_v2.update_cron_trigger' % (what, m))
                    qf = [k.value for k in n.value.keywords if k.arg == 'query_filter']
                    if not (len(qf) == 1 and isinstance(qf[0], ast.Dict) and len(qf[0].keys) == 1
                            and isinstance(qf[0].keys[0], ast.Constant) and qf[0].keys[0].value == 'next_execution_time'
                            and _dotted(qf[0].values[0]) == t + '.next_execution_time'):
                        raise TranslateError("%s: update_cron_trigger is not called with query_filter={'next_execution_time': "
                                             '%s.next_execution_time}' % (what, t))
                    srcs.append('update')
    if sorted(srcs) != ['delete', 'update'] or _stores(fn, m) != 3:
        raise TranslateError('%s: %s must be assigned exactly by the delete call and by the update call (found %r)' % (what, m, srcs))
    # periodic.process_cron_triggers_v2: start_workflow only under `if <modified>:`
    what = SRC + ':process_cron_triggers_v2'
    fn = _fn(per, SRC, 'process_cron_triggers_v2')
    asg = [n for n in ast.walk(fn) if isinstance(n, ast.Assign) and _is_call(n.value, 'advance_cron_trigger', 1, [])]
    if not (len(asg) == 1 and _assign_name(asg[0]) and _stores(fn, _assign_name(asg[0])) == 1):
        raise TranslateError('%s: expected one `modified = advance_cron_trigger(trigger)`' % what)
    mod = _assign_name(asg[0])
    guarded = [n for n in ast.walk(fn) if isinstance(n, ast.If) and _dotted(n.test) == mod]
    if len(guarded) != 1:
        raise TranslateError('%s: expected one `if %s:`' % (what, mod))

    def starts(nodes):
        return sum(1 for x in nodes for n in ast.walk(x) if isinstance(n, ast.Attribute) and n.attr == 'start_workflow')
    if not (starts(guarded[0].body) == 1 and starts([fn]) == 1):
        raise TranslateError('%s: start_workflow must be called once, under `if %s:`' % (what, mod))
    # ... and the `if` follows the assignment in the same block
    for n in ast.walk(fn):
        for blk in ('body', 'orelse', 'finalbody'):
            seq = getattr(n, blk, None)
            if isinstance(seq, list) and asg[0] in seq:
                if guarded[0] not in seq or seq.index(guarded[0]) < seq.index(asg[0]):
                    raise TranslateError('%s: `if %s:` does not follow the advance in the same block' % (what, mod))


def lookup_mode(tree):
    fn = _fn(tree, SRC, 'advance_cron_trigger')
    if len(fn.args.args) != 1:
        raise TranslateError('expected exactly one advance_cron_trigger(t)')
    arg = fn.args.args[0].arg
    modes = {}
    for node in ast.walk(fn):
        if isinstance(node, ast.Call) and isinstance(node.func, ast.Attribute) and \
                node.func.attr in ('delete_cron_trigger', 'update_cron_trigger'):
            if node.func.attr in modes:
                raise TranslateError('%s is called more than once' % node.func.attr)
            if not node.args:
                raise TranslateError('%s: no positional identifier argument' % node.func.attr)
            a = node.args[0]
            if not (isinstance(a, ast.Attribute) and isinstance(a.value, ast.Name) and a.value.id == arg
                    and a.attr in ('name', 'id')):
                raise TranslateError('%s: identifier argument is not %s.name / %s.id' % (node.func.attr, arg, arg))
            modes[node.func.attr] = a.attr
    if set(modes) != {'delete_cron_trigger', 'update_cron_trigger'}:
        raise TranslateError('advance_cron_trigger must call delete_cron_trigger and update_cron_trigger, found %r' % sorted(modes))
    if len(set(modes.values())) != 1:
        raise TranslateError('delete / update address the row differently: %r' % modes)
    return modes['update_cron_trigger'] == 'name'


def translate(repo):
    per, trg, dbt = _parse(repo, SRC), _parse(repo, SRC_TRIGGERS), _parse(repo, SRC_DB)
    by_name = lookup_mode(per)
    check_count_chain(per, trg)
    drc = delete_shape(dbt)
    urm = update_shape(dbt)
    b = {True: 'true', False: 'false'}
    return '\n'.join([
        '(* GENERATED from %s, %s, %s by translate/tr_croncfg.py on every run. Do not edit. *)' % (SRC, SRC_TRIGGERS, SRC_DB),
        '(* advance_cron_trigger addresses the row by %s *)' % ('t.name' if by_name else 't.id'),
        'Definition lookup_by_name : bool := %s.' % b[by_name],
        '(* delete_cron_trigger: %s *)' % ('returns the row count of DELETE ... WHERE id = <selected row>' if drc else
                                           'ORM delete of the selected object, constant result'),
        'Definition delete_reports_rowcount : bool := %s.' % b[drc],
        '(* update_cron_trigger(query_filter): conditional UPDATE, NoRowsMatched reported as %s *)' % ('0' if urm else 'a positive count'),
        'Definition update_reports_match : bool := %s.' % b[urm],
        ''])
