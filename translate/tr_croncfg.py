"""Extract from mistral/services/periodic.py:advance_cron_trigger how the trigger row is addressed when it is
advanced: by NAME (`t.name`, resolved among the rows visible to the trigger's project) or by ID (`t.id`).
Writes Gen/CronCfg.v (fail closed: both database calls must use the same, recognised, identifier)."""
import ast
import os

from harness.core import TranslateError

NAME = 'CronCfg'
SRC = 'mistral/services/periodic.py'


def translate(repo):
    tree = ast.parse(open(os.path.join(repo, SRC)).read())
    fns = [n for n in tree.body if isinstance(n, ast.FunctionDef) and n.name == 'advance_cron_trigger']
    if len(fns) != 1 or len(fns[0].args.args) != 1:
        raise TranslateError('expected exactly one advance_cron_trigger(t)')
    arg = fns[0].args.args[0].arg
    modes = {}
    for node in ast.walk(fns[0]):
        if isinstance(node, ast.Call) and isinstance(node.func, ast.Attribute) and \
                node.func.attr in ('delete_cron_trigger', 'update_cron_trigger'):
            if node.func.attr in modes:
                raise TranslateError('%s is called more than once' % node.func.attr)
            if not node.args:
                raise TranslateError('%s: no positional identifier argument' % node.func.attr)
            a = node.args[0]
            if not (isinstance(a, ast.Attribute) and isinstance(a.value, ast.Name) and a.value.id == arg
                    and a.attr in ('name', 'id')):
                raise TranslateError('%s: identifier argument is not %s.name / %s.id' % (node.func.attr, arg, arg))
            modes[node.func.attr] = a.attr
    if set(modes) != {'delete_cron_trigger', 'update_cron_trigger'}:
        raise TranslateError('advance_cron_trigger must call delete_cron_trigger and update_cron_trigger, found %r' % sorted(modes))
    if len(set(modes.values())) != 1:
        raise TranslateError('delete / update address the row differently: %r' % modes)
    by_name = modes['update_cron_trigger'] == 'name'
    return '\n'.join([
        '(* GENERATED from %s by translate/tr_croncfg.py on every run. Do not edit. *)' % SRC,
        '(* advance_cron_trigger addresses the row by %s *)' % ('t.name' if by_name else 't.id'),
        'Definition lookup_by_name : bool := %s.' % ('true' if by_name else 'false'),
        ''])
