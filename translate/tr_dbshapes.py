"""Extract the tenancy *access shape* of every db-api function of
mistral/db/v2/sqlalchemy/api.py (Python ast, fail closed) into Gen/DbShapes.v.

For each public function working on a secure model (a concrete subclass of
MistralSecureModelBase) the shape says
  * how its query is built: _secure_query / admin override of `insecure` /
    `insecure` parameter exposed to the caller / plain model_query,
  * how the row is selected (id, name, name+namespace, name-or-id ...),
  * whether check_db_obj_access dominates the mutation,
  * whether the mutation is an object update/delete, a query.delete() or _delete_all,
  * whether the model class carries the `_set_project_id` 'set' hook
    (classes defined after `mb.register_secure_model_hooks()` in models.py do not).
The query-building helpers (_get_collection, _get_db_object_by_*, _delete_all ...)
are summarised from their own bodies, not assumed.  Facts about _secure_query,
_get_accepted_resources, RESOURCE_MAPPING, check_db_obj_access, _set_project_id and
the resource-member functions are emitted as `code_facts` and compared in
Properties/C15.v with what Model/Tenancy.v assumes.

`analyse(repo)` returns the same information as Python data for harness/suites/C15.py.
"""
import ast
import os

from harness.core import TranslateError

NAME = 'DbShapes'
API = 'mistral/db/v2/sqlalchemy/api.py'
MODELS = 'mistral/db/v2/sqlalchemy/models.py'
MBASE = 'mistral/db/sqlalchemy/model_base.py'
DBUTILS = 'mistral/db/utils.py'

COQ_MODELS = ['Workbook', 'WorkflowDefinition', 'ActionDefinition', 'CodeSource', 'DynamicActionDefinition',
              'ActionExecution', 'WorkflowExecution', 'TaskExecution', 'Environment', 'CronTrigger', 'EventTrigger']

# functions without any tenancy content (transactions, schema, locks, maintenance)
INFRA = {'get_backend', 'setup_db', 'drop_db', 'start_tx', 'commit_tx', 'rollback_tx', 'end_tx', 'transaction',
         'refresh', 'expire_all', 'create_named_lock', 'get_named_locks', 'delete_named_lock', 'named_lock',
         'get_maintenance_status', 'update_maintenance_status', 'fill_metrics_table',
         'is_mysql_max_depth_error', 'is_mariadb_max_depth_error'}

# engine / service internal functions on secure models: called with ids the engine owns, never with
# tenant-chosen arguments.  The translator checks that no REST controller or expression function
# references them.  Everything else on a secure model is analysed and lands in the table.
INTERNAL = {
    'acquire_lock': 'engine: row lock on the engine\'s own execution',
    'update_on_match': 'engine: compare-and-set on a row the engine already holds',
    'get_db_objects': 'generic query helper, unused by controllers',
    'update_workflow_execution_state': 'engine: state CAS',
    'update_task_execution_state': 'engine: state CAS',
    'get_task_executions_count': 'engine: join/with-items bookkeeping',
    'get_completed_task_executions': 'engine',
    'get_completed_task_executions_as_batches': 'engine',
    'get_incomplete_task_executions': 'engine',
    'get_incomplete_task_executions_count': 'engine',
    'update_action_execution_heartbeat': 'executor heartbeat',
    'get_expired_executions': 'expiration policy service',
    'get_running_expired_sync_action_executions': 'heartbeat checker service',
    'get_superfluous_executions': 'expiration policy service',
    'get_next_cron_triggers': 'cron trigger service',
    'delete_workflow_execution_recurse': 'mysql fallback of delete_workflow_execution (same query mode)',
    'delete_event_trigger': 'services.triggers.delete_event_trigger, after the controller fetched the trigger '
                            'with get_event_trigger under the caller (checked at REST level by suite rest)',
    'delete_resource_members': 'cascade of delete_workflow_definition',
}
TENANT_SURFACE_DIRS = ['mistral/api', 'mistral/expressions']

MEMBER_FUNCS = ['create_resource_member', 'get_resource_member', 'get_resource_members',
                'update_resource_member', 'delete_resource_member']

HELPER_SEL = {
    '_get_db_object_by_name': 'SelName',
    '_get_db_object_by_id': 'SelId',
    '_get_db_object_by_name_and_namespace_or_id': 'SelNameNsOrId',
    '_get_db_object_by_name_and_namespace': 'SelNameNs',
}
LIST_HELPERS = {'_get_collection': 'list', '_get_count': 'count'}


def _src(repo, rel):
    p = os.path.join(repo, rel)
    try:
        return open(p).read()
    except OSError as e:
        raise TranslateError('cannot read %s: %s' % (rel, e))


def U(node):
    return ast.unparse(node)


def strip_doc(body):
    if body and isinstance(body[0], ast.Expr) and isinstance(getattr(body[0], 'value', None), ast.Constant) \
            and isinstance(body[0].value.value, str):
        return body[1:]
    return body


# ---------------------------------------------------------------------------
# models.py / model_base.py / db/utils.py

def analyse_models(repo):
    tree = ast.parse(_src(repo, MODELS))
    classes = {}
    order = []
    hook_calls = []
    for i, node in enumerate(tree.body):
        if isinstance(node, ast.ClassDef):
            bases = [U(b) for b in node.bases]
            concrete = any(isinstance(s, ast.Assign) and any(isinstance(t, ast.Name) and t.id == '__tablename__'
                                                             for t in s.targets) for s in node.body)
            classes[node.name] = {'bases': bases, 'concrete': concrete, 'index': i}
            order.append(node.name)
        if isinstance(node, ast.Expr) and isinstance(node.value, ast.Call) and \
                U(node.value.func) == 'mb.register_secure_model_hooks':
            hook_calls.append(i)

    def secure(name, seen=()):
        if name in seen or name not in classes:
            return False
        for b in classes[name]['bases']:
            if b in ('mb.MistralSecureModelBase', 'MistralSecureModelBase'):
                return True
            if secure(b, seen + (name,)):
                return True
        return False
    sec = [n for n in order if classes[n]['concrete'] and secure(n)]
    nonsec = [n for n in order if classes[n]['concrete'] and not secure(n)]
    for n in sec:
        if n not in COQ_MODELS:
            raise TranslateError('secure model class %s is unknown to Model/Tenancy.v' % n)
    last_hook = max(hook_calls) if hook_calls else -1
    hooked = [n for n in sec if classes[n]['index'] < last_hook]
    return sec, nonsec, hooked


def analyse_model_base(repo):
    """facts about _set_project_id and register_secure_model_hooks"""
    tree = ast.parse(_src(repo, MBASE))
    facts = {}
    fns = {n.name: n for n in tree.body if isinstance(n, ast.FunctionDef)}
    f = fns.get('_set_project_id')
    if f is None:
        raise TranslateError('model_base._set_project_id not found')
    body = strip_doc(f.body)
    if len(body) == 1 and isinstance(body[0], ast.Return) and body[0].value is not None:
        facts['_set_project_id'] = ['return ' + U(body[0].value)]
    else:
        facts['_set_project_id'] = ['unrecognised']
    r = fns.get('register_secure_model_hooks')
    if r is None:
        raise TranslateError('model_base.register_secure_model_hooks not found')
    listens = [n for n in ast.walk(r) if isinstance(n, ast.Call) and U(n.func) == 'event.listen']
    loops = [n for n in ast.walk(r) if isinstance(n, ast.For)]
    hook = []
    if len(loops) == 1:
        hook.append('for ' + U(loops[0].target) + ' in ' + U(loops[0].iter))
        guards = [U(n.test) for n in ast.walk(loops[0]) if isinstance(n, ast.If)]
        hook += ['if ' + g for g in guards]
    for c in listens:
        hook.append('listen(' + ', '.join([U(a) for a in c.args] + ['%s=%s' % (k.arg, U(k.value)) for k in c.keywords]) + ')')
    facts['register_secure_model_hooks'] = hook
    # the secure base declares the two columns
    cls = [n for n in tree.body if isinstance(n, ast.ClassDef) and n.name == 'MistralSecureModelBase']
    cols = []
    if cls:
        for s in cls[0].body:
            if isinstance(s, ast.Assign) and isinstance(s.value, ast.Call) and U(s.value.func) == 'sa.Column':
                d = [U(k.value) for k in s.value.keywords if k.arg == 'default']
                cols.append('%s default=%s' % (U(s.targets[0]), d[0] if d else '-'))
    facts['MistralSecureModelBase.columns'] = cols
    return facts


def analyse_check_access(repo):
    tree = ast.parse(_src(repo, DBUTILS))
    f = [n for n in tree.body if isinstance(n, ast.FunctionDef) and n.name == 'check_db_obj_access']
    if not f:
        raise TranslateError('db/utils.check_db_obj_access not found')
    out = []
    for s in strip_doc(f[0].body):
        if isinstance(s, ast.Assign):
            out.append('%s = %s' % (U(s.targets[0]), U(s.value)))
        elif isinstance(s, ast.If) and len(s.body) == 1 and isinstance(s.body[0], ast.Raise) and not s.orelse:
            exc_name = U(s.body[0].exc.func) if isinstance(s.body[0].exc, ast.Call) else U(s.body[0].exc)
            out.append('if %s: raise %s' % (U(s.test), exc_name))
        else:
            out.append('unrecognised: ' + U(s).split('\n')[0][:60])
    return out


# ---------------------------------------------------------------------------
# api.py

class Api:
    def __init__(self, repo):
        self.repo = repo
        self.tree = ast.parse(_src(repo, API))
        self.funcs = {}
        self.order = []
        for n in self.tree.body:
            if isinstance(n, ast.FunctionDef):
                if n.name in self.funcs:
                    raise TranslateError('function %s defined twice in api.py' % n.name)
                self.funcs[n.name] = n
                self.order.append(n.name)
        self.sec, self.nonsec, self.hooked = analyse_models(repo)
        self.helper_q = {}
        self.summaries = {}
        self.in_progress = set()

    # -- helpers' own query mode ------------------------------------------
    def has_override(self, body, var='insecure'):
        """`if context.has_ctx(): insecure = context.ctx().is_admin or insecure` present at top level"""
        for s in body:
            if isinstance(s, ast.If) and U(s.test) == 'context.has_ctx()' and not s.orelse and len(s.body) == 1:
                a = s.body[0]
                if isinstance(a, ast.Assign) and U(a.targets[0]) == var and \
                        U(a.value) in ('context.ctx().is_admin or %s' % var, '%s or context.ctx().is_admin' % var):
                    return True
        return False

    def query_ctor(self, node, flag_state):
        """Classify an expression constructing a query. Returns (qmode, model_expr) or None."""
        if isinstance(node, ast.IfExp):
            a = self.query_ctor(node.body, flag_state)
            b = self.query_ctor(node.orelse, flag_state)
            if a and b and a[0] == 'QInsecure' and b[0] == 'QSecure' and isinstance(node.test, ast.Name):
                st = flag_state.get(node.test.id)
                if st is None:
                    raise TranslateError('query chosen by unknown flag %s' % node.test.id)
                return (st, b[1])
            if a or b:
                raise TranslateError('unrecognised conditional query: %s' % U(node)[:80])
            return None
        if isinstance(node, ast.Call):
            fn = U(node.func)
            if fn == '_secure_query':
                return ('QSecure', self.call_arg(node, 0, 'model'))
            if fn == 'b.model_query':
                return ('QInsecure', self.call_arg(node, 0, 'model'))
            if fn == '_writable_query':
                return (self.writable_mode(node, flag_state), self.call_arg(node, 0, 'model'))
            if fn == 'session.query':
                return ('QInsecure', node.args[0] if node.args else None)
        return None

    OWN_FILTER = 'query.filter(model.project_id == security.get_project_id())'

    def owner_check_form(self):
        """_check_owner(db_obj): NotAllowedException unless admin or the row's project is the caller's."""
        f = self.funcs.get('_check_owner')
        if f is None:
            raise TranslateError('_check_owner is not defined')
        body = strip_doc(f.body)
        ok = (len(body) == 2 and [a.arg for a in f.args.args] == ['db_obj']
              and U(body[0]) == 'is_admin = context.has_ctx() and context.ctx().is_admin'
              and isinstance(body[1], ast.If) and not body[1].orelse and len(body[1].body) == 1
              and U(body[1].test) == 'not is_admin and db_obj.project_id != security.get_project_id()'
              and isinstance(body[1].body[0], ast.Raise) and U(body[1].body[0].exc.func) == 'exc.NotAllowedException')
        if not ok:
            raise TranslateError('_check_owner is not of the recognised form')

    def writable_mode(self, call, flag_state):
        """_writable_query(model[, insecure]): model_query for admins (or insecure=True), otherwise
        _secure_query restricted to the caller's own rows.  Recognised structurally."""
        f = self.funcs.get('_writable_query')
        if f is None:
            raise TranslateError('_writable_query is not defined')
        body = strip_doc(f.body)
        ok = (len(body) == 4 and [a.arg for a in f.args.args] == ['model', 'insecure']
              and isinstance(body[0], ast.If) and not body[0].orelse and len(body[0].body) == 1
              and U(body[0].test) == 'insecure or (context.has_ctx() and context.ctx().is_admin)'
              and U(body[0].body[0]) == 'return b.model_query(model)'
              and U(body[1]) == 'query = _secure_query(model)'
              and isinstance(body[2], ast.If) and not body[2].orelse and len(body[2].body) == 1
              and U(body[2].test) == 'issubclass(model, mb.MistralSecureModelBase)'
              and U(body[2].body[0]) == 'query = ' + self.OWN_FILTER
              and U(body[3]) == 'return query')
        if not ok:
            raise TranslateError('_writable_query is not of the recognised form')
        ins = None
        for k in call.keywords:
            if k.arg == 'insecure':
                ins = k.value
        if ins is None and len(call.args) > 1:
            ins = call.args[1]
        if ins is None or (isinstance(ins, ast.Constant) and ins.value is False):
            return 'QOwnAdmin'
        if isinstance(ins, ast.Name) and flag_state.get(ins.id) in ('QAdmin', 'false_flag'):
            return 'QOwnAdmin'
        raise TranslateError('_writable_query called with a caller-controlled insecure flag')

    @staticmethod
    def call_arg(call, pos, name):
        for k in call.keywords:
            if k.arg == name:
                return k.value
        if len(call.args) > pos and not isinstance(call.args[pos], ast.Starred):
            return call.args[pos]
        return None

    def helper_mode(self, name):
        """Query mode of a query-building helper, from its body:
        'QSecure' | 'QInsecure' | 'QAdminArg' (admin override + insecure parameter)."""
        if name in self.helper_q:
            return self.helper_q[name]
        f = self.funcs.get(name)
        if f is None:
            raise TranslateError('helper %s not found' % name)
        body = strip_doc(f.body)
        params = [a.arg for a in f.args.args]
        flag_state = {}
        if 'insecure' in params:
            flag_state['insecure'] = 'QAdminArg' if self.has_override(body) else None
        modes = []
        for n in ast.walk(f):
            if isinstance(n, (ast.IfExp, ast.Call)):
                try:
                    q = self.query_ctor(n, flag_state)
                except TranslateError:
                    raise
                if q and isinstance(n, ast.IfExp):
                    modes.append(q[0])
        if not modes:
            # no conditional: every constructor in the body must agree
            ctors = set()
            for n in ast.walk(f):
                if isinstance(n, ast.Call) and U(n.func) in ('_secure_query', 'b.model_query', 'session.query', '_writable_query'):
                    ctors.add('QSecure' if U(n.func) == '_secure_query' else
                              self.writable_mode(n, {}) if U(n.func) == '_writable_query' else 'QInsecure')
            if len(ctors) != 1:
                raise TranslateError('helper %s: cannot determine its query mode' % name)
            modes = [ctors.pop()]
            own = [s for s in ast.walk(f) if isinstance(s, ast.If) and not s.orelse and len(s.body) == 1
                   and U(s.test) == 'issubclass(model, mb.MistralSecureModelBase)'
                   and U(s.body[0]) == 'query = ' + self.OWN_FILTER]
            if own and modes == ['QSecure'] and any(s in f.body for s in own):
                modes = ['QOwn']
        if len(set(modes)) != 1 or modes[0] is None:
            raise TranslateError('helper %s: insecure flag without the admin-override idiom' % name)
        self.helper_q[name] = modes[0]
        # light structural check of the selector the helper is known for
        text = U(f)
        need = {'_get_db_object_by_name': ['filter_by(name=name)'],
                '_get_db_object_by_id': ['filter_by(id=id)'],
                '_get_db_object_by_name_and_namespace_or_id': ['model.name == identifier', 'model.id == identifier',
                                                               'model.namespace == namespace', 'sa.or_(match_id, match_name)'],
                '_get_db_object_by_name_and_namespace': ['model.name == name', 'model.namespace == namespace'],
                '_delete_all': ['db_filters.apply_filters(query, model, **kwargs)', 'query.delete('],
                '_get_collection': ['db_filters.apply_filters(query, model, **filters)', 'query.all()'],
                '_get_count': ['db_filters.apply_filters(query, model, **filters)', 'query.count()']}.get(name, [])
        for frag in need:
            if frag not in text:
                raise TranslateError('helper %s no longer contains `%s`' % (name, frag))
        return modes[0]

    # -- model expression -> class name -------------------------------------
    def model_name(self, node, env):
        if node is None:
            return None
        if isinstance(node, ast.Attribute) and isinstance(node.value, ast.Name) and node.value.id == 'models':
            return node.attr
        if isinstance(node, ast.Name) and node.id in env and env[node.id].get('kind') == 'modelref':
            return env[node.id]['model']
        return None

    # -- the insecure argument of a call -------------------------------------
    def passed_insecure(self, call, callee_params, env):
        """How the callee's `insecure` parameter is bound by this call:
        'default' | 'false' | 'true' | 'arg' (caller controlled) | 'admin' (override(False))"""
        node = None
        for k in call.keywords:
            if k.arg == 'insecure':
                node = k.value
            if k.arg is None:      # **kwargs forwarded
                if 'insecure' in callee_params or '**' in callee_params:
                    if node is None:
                        node = 'KW'
        if node is None and 'insecure' in callee_params:
            pos = callee_params.index('insecure')
            if len(call.args) > pos:
                node = call.args[pos]
        if node is None:
            return 'default'
        if node == 'KW':
            return 'arg'
        if isinstance(node, ast.Constant):
            return 'true' if node.value else 'false'
        if isinstance(node, ast.Name):
            v = env.get(node.id)
            if v and v.get('kind') == 'flag':
                return v['state']
        raise TranslateError('cannot evaluate insecure=%s' % U(node))

    @staticmethod
    def combine(mode, passed):
        """Effective mode of a call to something whose own mode is `mode`."""
        if mode in ('QSecure', 'QInsecure'):
            return mode
        if mode == 'QAdmin':
            return 'QAdmin'
        # QAdminArg
        return {'default': 'QAdmin', 'false': 'QAdmin', 'admin': 'QAdmin', 'arg': 'QAdminArg', 'true': 'QInsecure'}[passed]

    # -- summaries -----------------------------------------------------------
    def summary(self, name):
        """dict(kind=..., model=..., q=..., sel=..., chk=..., cascade=..., notes=[...])
        kinds: get load list count create update delete_obj delete_query delete_all create_or_update
               internal infra nonsecure member"""
        if name in self.summaries:
            return self.summaries[name]
        if name in self.in_progress:
            raise TranslateError('recursive db-api function %s' % name)
        self.in_progress.add(name)
        try:
            s = self._summarise(name)
        finally:
            self.in_progress.discard(name)
        self.summaries[name] = s
        return s

    def direct_models(self, f):
        out = set()
        for n in ast.walk(f):
            if isinstance(n, ast.Attribute) and isinstance(n.value, ast.Name) and n.value.id == 'models':
                out.add(n.attr)
        return out

    def _summarise(self, name):
        f = self.funcs[name]
        if name in INFRA:
            return {'kind': 'infra'}
        if name in MEMBER_FUNCS or name in ('_get_criterion', '_get_accepted_resources', '_secure_query'):
            return {'kind': 'member'}
        dm = self.direct_models(f)
        if name in INTERNAL:
            qs = sorted({U(n.func) for n in ast.walk(f) if isinstance(n, ast.Call) and
                         U(n.func) in ('_secure_query', 'b.model_query', 'session.query', '_delete_all')})
            return {'kind': 'internal', 'model': sorted(m for m in dm if m in self.sec), 'uses': qs, 'why': INTERNAL[name]}
        if dm and not (dm & set(self.sec)):
            if dm - set(self.nonsec):
                raise TranslateError('%s refers to unknown model classes %s' % (name, sorted(dm - set(self.nonsec))))
            return {'kind': 'nonsecure', 'model': sorted(dm)}
        if name.startswith('create_or_update_'):
            return self._create_or_update(f)
        return self._interpret(f)

    # expression evaluation ---------------------------------------------------
    def eval_expr(self, node, env, fname):
        """Abstract value of an expression, or {'kind': 'other'}."""
        if isinstance(node, ast.Call):
            fn = U(node.func)
            chain = self.query_chain(node, env, fname)
            if chain is not None:
                return chain
            if fn in HELPER_SEL:
                q = self.helper_mode(fn)
                params = [a.arg for a in self.funcs[fn].args.args]
                eff = self.combine(q, self.passed_insecure(node, params, env))
                m = self.model_name(self.call_arg(node, 0, 'model'), env)
                if m is None:
                    raise TranslateError('%s: model of %s call unknown' % (fname, fn))
                return {'kind': 'obj', 'model': m, 'q': eff, 'sel': HELPER_SEL[fn], 'raising': False, 'checked': False}
            if fn in LIST_HELPERS:
                q = self.helper_mode(fn)
                params = [a.arg for a in self.funcs[fn].args.args]
                eff = self.combine(q, self.passed_insecure(node, params, env))
                m = self.model_name(self.call_arg(node, 0, 'model'), env)
                if m is None:
                    raise TranslateError('%s: model of %s call unknown' % (fname, fn))
                return {'kind': LIST_HELPERS[fn], 'model': m, 'q': eff}
            if fn == '_delete_all':
                q = self.helper_mode(fn)
                m = self.model_name(self.call_arg(node, 0, 'model'), env)
                return {'kind': 'delete_all', 'model': m, 'q': q}
            if isinstance(node.func, ast.Name) and fn in self.funcs and fn not in INFRA:
                s = self.summary(fn)
                params = [a.arg for a in self.funcs[fn].args.args] + \
                         (['**'] if self.funcs[fn].args.kwarg else [])
                if s['kind'] in ('get', 'load'):
                    eff = self.combine(s['q'], self.passed_insecure(node, params, env)) if s['q'] == 'QAdminArg' else s['q']
                    return {'kind': 'obj', 'model': s['model'], 'q': eff, 'sel': s['sel'],
                            'raising': s['kind'] == 'get', 'checked': False}
                if s['kind'] in ('list', 'count'):
                    eff = self.combine(s['q'], self.passed_insecure(node, params, env)) if s['q'] == 'QAdminArg' else s['q']
                    return {'kind': s['kind'], 'model': s['model'], 'q': eff}
                return {'kind': 'callsummary', 'fn': fn, 'summary': s}
            if fn == 'session.execute':
                t = U(node.args[0]) if node.args else ''
                import re as _re
                m = _re.match(r'^(\w+)\.delete\(\)\.where\(\1\.c\.id == (\w+)\.id\)$', t)
                if m and m.group(2) in env and env[m.group(2)].get('kind') == 'obj' and \
                        env.get(m.group(1), {}).get('table_of') == env[m.group(2)]['model']:
                    return {'kind': 'exec_delete', 'model': env[m.group(2)]['model'], 'obj': env[m.group(2)]}
                raise TranslateError('%s: unrecognised session.execute(%s)' % (fname, t[:60]))
            # models.M(...) constructor
            if isinstance(node.func, ast.Attribute) and isinstance(node.func.value, ast.Name) and node.func.value.id == 'models':
                kw = {k.arg: k.value for k in node.keywords if k.arg}
                ref = None
                if 'id' in kw and isinstance(kw['id'], ast.Attribute) and isinstance(kw['id'].value, ast.Name):
                    ref = kw['id'].value.id
                return {'kind': 'new', 'model': node.func.attr, 'id_of': ref}
            return {'kind': 'other', 'node': node}
        if isinstance(node, ast.IfExp):
            q = self.query_ctor(node, {k: v['state_q'] for k, v in env.items() if v.get('kind') == 'flag'})
            if q:
                return {'kind': 'query', 'model': self.model_name(q[1], env), 'q': q[0], 'attrs': set()}
            return {'kind': 'other'}
        if isinstance(node, ast.Attribute) and isinstance(node.value, ast.Name) and node.value.id == 'models':
            return {'kind': 'modelref', 'model': node.attr}
        if isinstance(node, ast.Attribute) and node.attr == '__table__' and isinstance(node.value, ast.Attribute) \
                and isinstance(node.value.value, ast.Name) and node.value.value.id == 'models':
            return {'kind': 'other', 'table_of': node.value.attr, 'node': node}
        if isinstance(node, ast.Name) and node.id in env:
            return env[node.id]
        if isinstance(node, ast.Constant):
            return {'kind': 'const', 'value': node.value}
        return {'kind': 'other', 'node': node}

    def query_chain(self, node, env, fname):
        """query-constructor followed by .filter/.filter_by/...; returns an abstract query,
        a fetched object (.first()/.one()), a list (.all()) or a delete count (.delete())."""
        calls = []
        cur = node
        flags = {k: v['state_q'] for k, v in env.items() if v.get('kind') == 'flag'}
        while isinstance(cur, ast.Call) and isinstance(cur.func, ast.Attribute) and self.query_ctor(cur, flags) is None:
            calls.append((cur.func.attr, cur))
            cur = cur.func.value
        base = None
        if isinstance(cur, ast.Call):
            q = self.query_ctor(cur, flags)
            if q:
                base = {'kind': 'query', 'model': self.model_name(q[1], env), 'q': q[0], 'attrs': set()}
        elif isinstance(cur, ast.Name) and cur.id in env and env[cur.id].get('kind') == 'query':
            b = env[cur.id]
            base = {'kind': 'query', 'model': b['model'], 'q': b['q'], 'attrs': set(b['attrs'])}
        if base is None:
            return None
        if base['model'] is None:
            raise TranslateError('%s: query over an unknown model' % fname)
        calls.reverse()
        val = base
        for attr, call in calls:
            if attr in ('filter', 'filter_by'):
                for k in call.keywords:
                    if k.arg:
                        val['attrs'].add(k.arg)
                for a in call.args:
                    if isinstance(a, ast.Name) and a.id in env and env[a.id].get('node') is not None:
                        a = env[a.id]['node']
                    for n in ast.walk(a):
                        if isinstance(n, ast.Compare) and isinstance(n.left, ast.Attribute):
                            val['attrs'].add(n.left.attr)
                        if isinstance(n, ast.Call) and isinstance(n.func, ast.Attribute) and n.func.attr == 'in_' \
                                and isinstance(n.func.value, ast.Attribute):
                            val['attrs'].add(n.func.value.attr + '.in_')
            elif attr in ('with_for_update', 'order_by', 'limit', 'offset', 'join', 'slice'):
                pass
            elif attr in ('first', 'one'):
                val = {'kind': 'obj', 'model': val['model'], 'q': val['q'], 'sel': self.sel_of(val['attrs'], fname),
                       'raising': attr == 'one', 'checked': False}
            elif attr == 'all':
                val = {'kind': 'list', 'model': val['model'], 'q': val['q'], 'attrs': val['attrs']}
            elif attr == 'count':
                val = {'kind': 'count', 'model': val['model'], 'q': val['q']}
            elif attr == 'delete':
                val = {'kind': 'deleted', 'model': val['model'], 'q': val['q'], 'sel': self.sel_of(val['attrs'], fname)}
            elif attr == 'update':
                val = {'kind': 'bulk_update', 'model': val['model'], 'q': val['q']}
            elif attr == 'update_on_match':
                spec = None
                for k in call.keywords:
                    if k.arg == 'specimen':
                        spec = self.eval_expr(k.value, env, fname)
                val = {'kind': 'update_on_match', 'model': val['model'], 'q': val['q'], 'specimen': spec}
            else:
                raise TranslateError('%s: unrecognised query method .%s()' % (fname, attr))
        return val

    @staticmethod
    def sel_of(attrs, fname):
        a = frozenset(attrs)
        table = {frozenset(['id']): 'SelId', frozenset(['name']): 'SelName',
                 frozenset(['name', 'namespace']): 'SelNameNs',
                 frozenset(['name', 'namespace.in_']): 'SelNameNsDef',
                 frozenset(): 'SelAll'}
        if a in table:
            return table[a]
        raise TranslateError('%s: unrecognised row selection over columns %s' % (fname, sorted(attrs)))

    # statement interpretation -------------------------------------------------
    def _interpret(self, f):
        name = f.name
        params = [a.arg for a in f.args.args]
        env = {}
        body = strip_doc(f.body)
        if 'insecure' in params:
            env['insecure'] = {'kind': 'flag', 'state': 'arg', 'state_q': None}
        st = {'effects': [], 'ret': None, 'cascade': False, 'notes': []}
        self.run_block(body, env, st, name, params)
        eff = st['effects']
        ret = st['ret']
        kinds = [e['kind'] for e in eff]
        if len(eff) > 1:
            raise TranslateError('%s: more than one mutation (%s)' % (name, kinds))
        forced = lambda m: m in self.hooked
        if eff:
            e = eff[0]
            if e['model'] not in self.sec:
                raise TranslateError('%s: mutation of non-secure model %s mixed with secure ones' % (name, e['model']))
            if e['kind'] == 'create':
                return {'kind': 'create', 'model': e['model'], 'forced': forced(e['model'])}
            if e['kind'] == 'update':
                o = e['obj']
                if not o['raising']:
                    raise TranslateError('%s: update of a possibly missing row' % name)
                return {'kind': 'update', 'model': o['model'], 'q': o['q'], 'sel': o['sel'], 'chk': o['checked'],
                        'forced': forced(o['model'])}
            if e['kind'] == 'delete_obj':
                o = e['obj']
                if not o['raising']:
                    raise TranslateError('%s: delete of a possibly missing row' % name)
                return {'kind': 'delete_obj', 'model': o['model'], 'q': o['q'], 'sel': o['sel'], 'chk': o['checked'],
                        'cascade': st['cascade']}
            if e['kind'] == 'delete_query':
                return {'kind': 'delete_query', 'model': e['model'], 'q': e['q'], 'sel': e['sel']}
            if e['kind'] == 'delete_all':
                return {'kind': 'delete_all', 'model': e['model'], 'q': e['q']}
            raise TranslateError('%s: unrecognised mutation %s' % (name, e['kind']))
        if ret is None:
            raise TranslateError('%s: neither a mutation nor a returned row' % name)
        if ret.get('model') not in self.sec:
            raise TranslateError('%s: returns rows of %s' % (name, ret.get('model')))
        if ret['kind'] == 'obj':
            return {'kind': 'get' if ret['raising'] else 'load', 'model': ret['model'], 'q': ret['q'], 'sel': ret['sel']}
        if ret['kind'] in ('list', 'count'):
            return {'kind': ret['kind'], 'model': ret['model'], 'q': ret['q']}
        raise TranslateError('%s: unrecognised result %s' % (name, ret['kind']))

    def is_guard_only(self, stmts, env, name):
        """statements that can only raise or compute locals (extra refusals)"""
        for s in stmts:
            if isinstance(s, ast.Raise):
                continue
            if isinstance(s, ast.If):
                if not self.is_guard_only(s.body, env, name) or not self.is_guard_only(s.orelse, env, name):
                    return False
                continue
            if isinstance(s, ast.For):
                if not self.is_guard_only(s.body, env, name):
                    return False
                continue
            if isinstance(s, ast.Assign) and len(s.targets) == 1 and isinstance(s.targets[0], ast.Name):
                v = self.eval_expr(s.value, env, name)
                if v.get('kind') in ('list', 'count', 'other', 'const', 'modelref', 'query'):
                    continue
            return False
        return True

    def run_block(self, stmts, env, st, name, params):
        for s in stmts:
            self.run_stmt(s, env, st, name, params)

    def mark_override(self, s, env):
        """the admin-override idiom on a local flag"""
        if isinstance(s, ast.If) and U(s.test) == 'context.has_ctx()' and not s.orelse and len(s.body) == 1:
            a = s.body[0]
            if isinstance(a, ast.Assign) and isinstance(a.targets[0], ast.Name):
                v = a.targets[0].id
                if U(a.value) in ('context.ctx().is_admin or %s' % v, '%s or context.ctx().is_admin' % v) and v in env \
                        and env[v].get('kind') == 'flag':
                    prev = env[v]['state']
                    env[v] = {'kind': 'flag', 'state': 'admin' if prev in ('false', 'admin') else 'arg',
                              'state_q': 'QAdmin' if prev in ('false', 'admin') else 'QAdminArg'}
                    return True
        return False

    def run_stmt(self, s, env, st, name, params):
        if isinstance(s, ast.Assign) and len(s.targets) == 1:
            t = s.targets[0]
            if isinstance(t, ast.Name):
                if isinstance(s.value, ast.Constant) and s.value.value is False and t.id == 'insecure':
                    env[t.id] = {'kind': 'flag', 'state': 'false', 'state_q': None}
                    return
                v = self.eval_expr(s.value, env, name)
                if not isinstance(s.value, ast.Name):
                    self.note_effect(v, st, name, env)
                env[t.id] = v
                return
            if isinstance(t, ast.Tuple) and all(isinstance(e, ast.Name) for e in t.elts):
                v = self.eval_expr(s.value, env, name)
                self.note_effect(v, st, name, env)
                for e in t.elts:
                    env[e.id] = {'kind': 'other'}
                return
            if isinstance(t, ast.Subscript):     # values['version'] = ...
                return
            raise TranslateError('%s: unrecognised assignment target %s' % (name, U(t)))
        if self.mark_override(s, env):
            return
        if isinstance(s, ast.If):
            # `if not x: raise NotFound`
            if isinstance(s.test, ast.UnaryOp) and isinstance(s.test.op, ast.Not) and isinstance(s.test.operand, ast.Name) \
                    and not s.orelse and len(s.body) == 1 and isinstance(s.body[0], ast.Raise):
                v = env.get(s.test.operand.id)
                if v and v.get('kind') == 'obj':
                    if 'DBEntityNotFoundError' not in U(s.body[0]):
                        raise TranslateError('%s: missing row raises %s' % (name, U(s.body[0])[:60]))
                    v['raising'] = True
                return
            if isinstance(s.test, ast.UnaryOp) and isinstance(s.test.op, ast.Not) and isinstance(s.test.operand, ast.Name) \
                    and not s.orelse and len(s.body) == 1 and isinstance(s.body[0], ast.Assign) \
                    and U(s.body[0].targets[0]) == s.test.operand.id:
                v = env.get(s.test.operand.id)
                v2 = self.eval_expr(s.body[0].value, env, name)
                ns = [U(k.value) for k in s.body[0].value.keywords if k.arg == 'namespace'] if isinstance(s.body[0].value, ast.Call) else []
                if v and v.get('kind') == 'obj' and v2.get('kind') == 'obj' and v['sel'] == 'SelNameNsOrId' and \
                        (v2['model'], v2['q'], v2['sel']) == (v['model'], v['q'], v['sel']) and ns == ["''"]:
                    v['sel'] = 'SelNameNsOrIdFb'
                    return
                raise TranslateError('%s: unrecognised retry of a lookup' % name)
            if self.is_guard_only([s], env, name):
                st['notes'].append('guard: if ' + U(s.test)[:60])
                return
            # statement-level calls on plain locals inside (fields.remove ...)
            if all(self.is_local_call(x, env) for x in s.body) and not s.orelse:
                return
            # branches with the same row mutated in each (update_cron_trigger, update_delayed_call)
            sub = []
            for blk in (s.body, s.orelse):
                st2 = {'effects': [], 'ret': None, 'cascade': False, 'notes': []}
                self.run_block(blk, dict(env), st2, name, params)
                sub.append(st2)
            effs = [tuple((e['kind'], id(e.get('obj'))) for e in x['effects']) for x in sub]
            if effs[0] != effs[1]:
                raise TranslateError('%s: branches of `if %s` differ in their effect' % (name, U(s.test)[:40]))
            st['effects'] += sub[0]['effects']
            if sub[0]['ret'] is not None:
                st['ret'] = sub[0]['ret']
            return
        if isinstance(s, ast.For):
            if self.is_guard_only(s.body, env, name):
                return
            raise TranslateError('%s: unrecognised loop' % name)
        if isinstance(s, ast.Try):
            self.run_block(s.body, env, st, name, params)
            for h in s.handlers:
                for n in ast.walk(h):
                    if isinstance(n, ast.Call):
                        fn = U(n.func)
                        if fn.startswith('exc.') or fn.startswith('LOG.') or fn in ('is_mysql_max_depth_error',
                                                                                      'is_mariadb_max_depth_error',
                                                                                      'delete_workflow_execution_recurse',
                                                                                      'str', 'format') \
                                or fn.endswith('.format'):
                            continue
                        raise TranslateError('%s: call %s inside an except handler' % (name, fn))
                for n in h.body:
                    if isinstance(n, ast.Return):
                        v = self.eval_ret(n.value, env, name)
                        if st['ret'] is None:
                            st['ret'] = v
            if s.orelse or s.finalbody:
                raise TranslateError('%s: try/else/finally' % name)
            return
        if isinstance(s, ast.Expr) and isinstance(s.value, ast.Call):
            c = s.value
            fn = U(c.func)
            if fn == 'm_dbutils.check_db_obj_access':
                v = env.get(c.args[0].id) if c.args and isinstance(c.args[0], ast.Name) else None
                if not v or v.get('kind') != 'obj':
                    raise TranslateError('%s: check_db_obj_access on an untracked value' % name)
                if st['effects']:
                    raise TranslateError('%s: check_db_obj_access after the mutation' % name)
                v['checked'] = True
                return
            if fn == '_check_owner':
                self.owner_check_form()
                v = env.get(c.args[0].id) if c.args and isinstance(c.args[0], ast.Name) else None
                if not v or v.get('kind') != 'obj':
                    raise TranslateError('%s: _check_owner on an untracked value' % name)
                if st['effects']:
                    raise TranslateError('%s: _check_owner after the mutation' % name)
                if not v['checked']:
                    v['checked'] = 'owner'
                return
            if isinstance(c.func, ast.Attribute) and isinstance(c.func.value, ast.Name) and c.func.value.id in env:
                v = env[c.func.value.id]
                if c.func.attr == 'update' and v.get('kind') in ('obj', 'new'):
                    if v['kind'] == 'obj':
                        st['effects'].append({'kind': 'update', 'model': v['model'], 'obj': v})
                    return
                if c.func.attr == 'save' and v.get('kind') == 'new':
                    st['effects'].append({'kind': 'create', 'model': v['model']})
                    return
                if v.get('kind') == 'other' or v.get('kind') == 'const':
                    return
                raise TranslateError('%s: unrecognised call %s' % (name, U(c)[:60]))
            if fn == 'session.delete':
                v = env.get(c.args[0].id) if c.args and isinstance(c.args[0], ast.Name) else None
                if not v or v.get('kind') != 'obj':
                    raise TranslateError('%s: session.delete of an untracked value' % name)
                st['effects'].append({'kind': 'delete_obj', 'model': v['model'], 'obj': v})
                return
            if fn == 'delete_resource_members':
                kw = {k.arg: U(k.value) for k in c.keywords}
                if kw.get('resource_type') != "'workflow'" or not kw.get('resource_id', '').endswith('.id'):
                    raise TranslateError('%s: unrecognised member cascade %s' % (name, U(c)))
                st['cascade'] = True
                return
            if fn.startswith('LOG.') or fn == 'session.flush':
                return
            if self.is_local_call(s, env):
                return
            v = self.eval_expr(c, env, name)
            if v.get('kind') in ('deleted', 'bulk_update', 'update_on_match', 'delete_all', 'exec_delete'):
                self.note_effect(v, st, name, env)
                return
            raise TranslateError('%s: unrecognised statement %s' % (name, U(s)[:70]))
        if isinstance(s, ast.Return):
            v = self.eval_ret(s.value, env, name)
            if v is not None:
                rv = s.value.elts[0] if isinstance(s.value, ast.Tuple) and s.value.elts else s.value
                if not isinstance(rv, ast.Name):
                    self.note_effect(v, st, name, env)
                if v.get('kind') in ('obj', 'list', 'count') and st['ret'] is None:
                    st['ret'] = v
            return
        if isinstance(s, ast.Raise):
            return
        raise TranslateError('%s: unrecognised statement %s' % (name, U(s)[:70]))

    def is_local_call(self, s, env):
        if isinstance(s, ast.Expr) and isinstance(s.value, ast.Call) and isinstance(s.value.func, ast.Attribute) \
                and isinstance(s.value.func.value, ast.Name):
            n = s.value.func.value.id
            return n not in env and n not in ('session', 'b', 'models', 'm_dbutils', 'context', 'security')
        return False

    def eval_ret(self, node, env, name):
        if node is None:
            return None
        if isinstance(node, ast.Tuple) and node.elts:
            node = node.elts[0]
        return self.eval_expr(node, env, name)

    def note_effect(self, v, st, name, env=None):
        k = v.get('kind')
        if k == 'deleted':
            st['effects'].append({'kind': 'delete_query', 'model': v['model'], 'q': v['q'], 'sel': v['sel']})
        elif k == 'delete_all':
            st['effects'].append({'kind': 'delete_all', 'model': v['model'], 'q': v['q']})
        elif k == 'bulk_update':
            raise TranslateError('%s: bulk query.update()' % name)
        elif k == 'update_on_match':
            spec = v.get('specimen') or {}
            ref = spec.get('id_of') if spec.get('kind') == 'new' else None
            o = (env or {}).get(ref) if ref else None
            if not o or o.get('kind') != 'obj' or o['model'] != v['model'] or spec.get('model') != v['model']:
                raise TranslateError('%s: update_on_match without a tracked specimen' % name)
            st['effects'].append({'kind': 'update', 'model': v['model'], 'obj': o})
        elif k == 'exec_delete':
            st['effects'].append({'kind': 'delete_obj', 'model': v['model'], 'obj': v['obj']})
        elif k == 'callsummary':
            s = v['summary']
            if s['kind'] in ('create', 'update', 'delete_obj', 'delete_query', 'delete_all', 'create_or_update'):
                raise TranslateError('%s: delegates a mutation to %s outside the recognised patterns' % (name, v['fn']))

    # create_or_update_X ---------------------------------------------------------
    def _create_or_update(self, f):
        name = f.name
        probes, creates, updates = [], [], []
        env = {}
        for n in ast.walk(f):
            if isinstance(n, ast.Call):
                fn = U(n.func)
                if fn in HELPER_SEL:
                    probes.append(self.eval_expr(n, env, name))
                elif fn.startswith('create_') and fn in self.funcs:
                    creates.append(fn)
                elif fn.startswith('update_') and fn in self.funcs:
                    updates.append(fn)
                elif fn in ('values.get',) or fn.startswith('LOG.'):
                    pass
                elif isinstance(n.func, ast.Name) and fn in self.funcs:
                    raise TranslateError('%s: unexpected call %s' % (name, fn))
        ifs = [n for n in ast.walk(f) if isinstance(n, ast.If)]
        if len(probes) != 1 or len(creates) != 1 or len(updates) != 1 or len(ifs) != 1:
            raise TranslateError('%s: not of the form probe / create / update' % name)
        # which branch creates: the test must be the probe (or its negation)
        test = ifs[0].test
        neg = isinstance(test, ast.UnaryOp) and isinstance(test.op, ast.Not)
        body_calls = {U(n.func) for b in ifs[0].body for n in ast.walk(b) if isinstance(n, ast.Call)}
        creates_in_body = creates[0] in body_calls
        if neg != creates_in_body:
            raise TranslateError('%s: creates when the probe finds a row' % name)
        cs, us = self.summary(creates[0]), self.summary(updates[0])
        if cs['kind'] != 'create' or us['kind'] != 'update' or cs['model'] != us['model'] or probes[0]['model'] != us['model']:
            raise TranslateError('%s: create/update parts do not match' % name)
        if 'insecure' in [a.arg for a in f.args.args] or f.args.kwarg:
            raise TranslateError('%s: exposes insecure/**kwargs' % name)
        return {'kind': 'create_or_update', 'model': us['model'], 'probe_q': probes[0]['q'], 'probe_sel': probes[0]['sel'],
                'q': 'QAdmin' if us['q'] == 'QAdminArg' else us['q'], 'sel': us['sel'], 'chk': us['chk'], 'forced': us['forced'] and cs['forced'],
                'create_fn': creates[0], 'update_fn': updates[0]}



# ---------------------------------------------------------------------------
# facts about _secure_query & friends

def secure_query_facts(api):
    facts = {}
    f = api.funcs.get('_secure_query')
    if f is None:
        raise TranslateError('_secure_query not found')
    body = strip_doc(f.body)
    passthrough = any(isinstance(s, ast.If) and U(s.test) == 'not issubclass(model, mb.MistralSecureModelBase)'
                      and len(s.body) == 1 and isinstance(s.body[0], ast.Return) for s in body)
    clauses = []
    for n in ast.walk(f):
        if isinstance(n, ast.Call) and U(n.func) == 'sa.or_':
            for a in n.args:
                t = U(a)
                if t == 'query_criterion':
                    continue
                clauses.append({'model.project_id == security.get_project_id()': 'own',
                                "model.scope == 'public'": 'public',
                                'model.id.in_(shared_res_ids)': 'shared'}.get(t, 'unrecognised: ' + t[:50]))
    filt = [U(n) for n in ast.walk(f) if isinstance(n, ast.Call) and isinstance(n.func, ast.Attribute)
            and n.func.attr == 'filter']
    shared_src = [U(s.value) for s in ast.walk(f) if isinstance(s, ast.Assign) and U(s.targets[0]) in ('shared_res', 'res_type', 'shared_res_ids')]
    guards = [U(s.test) for s in ast.walk(f) if isinstance(s, ast.If)]
    facts['_secure_query'] = (['nonsecure passthrough'] if passthrough else []) + ['or: ' + c for c in clauses] + \
                             ['filter: ' + x for x in filt] + ['src: ' + x for x in shared_src] + ['if: ' + g for g in guards] + \
                             ['returns: ' + U(s.value) for s in body if isinstance(s, ast.Return)]
    g = api.funcs.get('_get_accepted_resources')
    if g is None:
        raise TranslateError('_get_accepted_resources not found')
    acc = []
    for n in ast.walk(g):
        if isinstance(n, ast.Call) and U(n.func) == 'sa.and_':
            acc += [U(a) for a in n.args]
    ctor = [U(n.func) for n in ast.walk(g) if isinstance(n, ast.Call) and U(n.func) in ('_secure_query', 'b.model_query')]
    facts['_get_accepted_resources'] = ctor + acc
    rm = None
    for s in api.tree.body:
        if isinstance(s, ast.Assign) and U(s.targets[0]) == 'RESOURCE_MAPPING' and isinstance(s.value, ast.Dict):
            rm = ['%s=%s' % (U(k), U(v)) for k, v in zip(s.value.keys, s.value.values)]
    if rm is None:
        raise TranslateError('RESOURCE_MAPPING is not a dict literal')
    facts['RESOURCE_MAPPING'] = rm
    return facts


def member_facts(api):
    facts = {}
    c = api.funcs.get('_get_criterion')
    if c is None:
        raise TranslateError('_get_criterion not found')
    rows = ['params: ' + U(c.args)]

    def walk_if(stmts):
        for s in stmts:
            if isinstance(s, ast.If):
                rows.append('if ' + U(s.test))
                walk_if(s.body)
                if s.orelse:
                    rows.append('else')
                    walk_if(s.orelse)
            elif isinstance(s, ast.Return):
                rows.append('return ' + ' '.join(U(s.value).split()))
            else:
                rows.append('stmt ' + U(s)[:60])
    walk_if(strip_doc(c.body))
    facts['_get_criterion'] = rows
    for fn in MEMBER_FUNCS:
        f = api.funcs.get(fn)
        if f is None:
            raise TranslateError('%s not found' % fn)
        rows = []
        for s in strip_doc(f.body):
            if isinstance(s, ast.If) and len(s.body) == 1 and isinstance(s.body[0], ast.Raise):
                exc_name = U(s.body[0].exc.func) if isinstance(s.body[0].exc, ast.Call) else U(s.body[0].exc)
                rows.append('if %s: raise %s' % (U(s.test), exc_name))
        for n in ast.walk(f):
            if isinstance(n, ast.Call):
                fnname = U(n.func)
                if fnname == '_get_criterion':
                    rows.append(' '.join(U(n).split()))
                elif fnname in ('_secure_query', 'b.model_query'):
                    rows.append(U(n))
                elif isinstance(n.func, ast.Attribute) and n.func.attr in ('filter_by', 'first', 'all', 'delete', 'update', 'save') \
                        and not U(n).startswith('sa.'):
                    rows.append('.%s(%s)' % (n.func.attr, ', '.join(['%s=%s' % (k.arg, U(k.value)) for k in n.keywords])))
                elif fnname in ('sa.or_', 'sa.and_'):
                    rows.append(fnname)
        facts[fn] = rows
    return facts


def surface_refs(repo):
    """names of db_api functions referenced from REST controllers and expression functions"""
    out = {}
    for d in TENANT_SURFACE_DIRS:
        root = os.path.join(repo, d)
        for dp, dn, fn in os.walk(root):
            for f in fn:
                if not f.endswith('.py'):
                    continue
                rel = os.path.relpath(os.path.join(dp, f), repo)
                try:
                    tree = ast.parse(open(os.path.join(dp, f)).read())
                except SyntaxError as e:
                    raise TranslateError('%s: %s' % (rel, e))
                for n in ast.walk(tree):
                    if isinstance(n, ast.Attribute) and isinstance(n.value, ast.Name) and n.value.id in ('db_api', 'db_api_v2'):
                        out.setdefault(n.attr, set()).add(rel)
    return out


# ---------------------------------------------------------------------------

FACADE = 'mistral/db/v2/api.py'


def facade_facts(repo, api):
    """mistral/db/v2/api.py must delegate every function to the same-named backend function
    (the suite drives the backend module); the one known exception retries a secure lookup."""
    tree = ast.parse(_src(repo, FACADE))
    notes = []
    for n in tree.body:
        if not isinstance(n, ast.FunctionDef):
            continue
        calls = [c for c in ast.walk(n) if isinstance(c, ast.Call) and isinstance(c.func, ast.Attribute)
                 and isinstance(c.func.value, ast.Name) and c.func.value.id == 'IMPL']
        names = [c.func.attr for c in calls]
        other = [U(c.func) for c in ast.walk(n) if isinstance(c, ast.Call) and c not in calls]
        if names == [n.name] and not other:
            continue
        if names and set(names) == {n.name} and not other and len(names) == 2 and \
                any(k.arg == 'namespace' and U(k.value) == "''" for k in calls[1].keywords):
            notes.append("%s: retried with namespace=''" % n.name)
            continue
        raise TranslateError('facade function %s is not a plain delegation: calls %s %s' % (n.name, names, other))
    return notes


def analyse(repo):
    api = Api(repo)
    entries = []
    skipped = {'infra': [], 'nonsecure': [], 'member': [], 'private': []}
    for name in api.order:
        if name.startswith('_'):
            skipped['private'].append(name)
            continue
        s = api.summary(name)
        k = s['kind']
        if k in ('infra', 'nonsecure', 'member'):
            skipped[k].append(name)
            continue
        entries.append(dict(s, name=name, params=[a.arg for a in api.funcs[name].args.args] +
                            [a.arg for a in api.funcs[name].args.kwonlyargs]))
    refs = surface_refs(repo)
    for e in entries:
        if e['kind'] == 'internal' and e['name'] in refs:
            raise TranslateError('internal db-api function %s is referenced from the tenant surface: %s'
                                 % (e['name'], sorted(refs[e['name']])))
    for n in INTERNAL:
        if n not in api.funcs:
            raise TranslateError('internal allow-list names %s which no longer exists' % n)
    facts = {}
    facts.update(secure_query_facts(api))
    facts['check_db_obj_access'] = analyse_check_access(repo)
    facts.update(analyse_model_base(repo))
    facts.update(member_facts(api))
    facts['facade'] = facade_facts(repo, api)
    helpers = {h: api.helper_mode(h) for h in list(HELPER_SEL) + list(LIST_HELPERS) + ['_delete_all']}
    return {'entries': entries, 'skipped': skipped, 'facts': facts, 'secure_models': api.sec,
            'nonsecure_models': api.nonsec, 'hooked_models': api.hooked, 'helpers': helpers,
            'surface_refs': {k: sorted(v) for k, v in refs.items()}}


def coq_s(s):
    return '"' + s.replace('"', '""') + '"'


def coq_b(b):
    return 'true' if b else 'false'


def coq_g(chk):
    return {False: 'GNone', None: 'GNone', True: 'GAccess', 'owner': 'GOwner'}[chk]


def shape_term(e):
    k = e['kind']
    fetch = lambda q, s: '(mkFetch %s %s)' % (q, s)
    if k == 'get':
        return 'SGet %s' % fetch(e['q'], e['sel'])
    if k == 'load':
        return 'SLoad %s' % fetch(e['q'], e['sel'])
    if k == 'list':
        return 'SList %s' % e['q']
    if k == 'count':
        return 'SCount %s' % e['q']
    if k == 'create':
        return 'SCreate %s' % coq_b(e['forced'])
    if k == 'update':
        return 'SUpdate %s %s %s' % (fetch(e['q'], e['sel']), coq_g(e['chk']), coq_b(e['forced']))
    if k == 'delete_obj':
        return 'SDeleteObj %s %s %s' % (fetch(e['q'], e['sel']), coq_g(e['chk']), coq_b(e['cascade']))
    if k == 'delete_query':
        return 'SDeleteQuery %s' % fetch(e['q'], e['sel'])
    if k == 'delete_all':
        return 'SDeleteAll %s' % e['q']
    if k == 'create_or_update':
        return 'SCreateOrUpdate %s %s %s %s' % (fetch(e['probe_q'], e['probe_sel']), fetch(e['q'], e['sel']),
                                                coq_g(e['chk']), coq_b(e['forced']))
    if k == 'internal':
        return 'SInternal'
    raise TranslateError('no shape for kind %s' % k)


def translate(repo):
    a = analyse(repo)
    out = ['(* GENERATED from %s, %s, %s, %s by translate/tr_dbshapes.py on every run. Do not edit. *)' % (API, MODELS, MBASE, DBUTILS),
           'From Coq Require Import List String Bool.', 'Require Import Mistral.Model.Tenancy.',
           'Import ListNotations.', 'Open Scope string_scope.', '',
           '(* name, model, access shape of every tenant-facing db-api function on a secure model *)',
           'Definition db_shapes : list (string * model * shape) := [']
    rows = []
    internal = []
    for e in a['entries']:
        if e['kind'] == 'internal':
            internal.append(e)
            continue
        rows.append('  (%s, %s, %s)' % (coq_s(e['name']), e['model'], shape_term(e)))
    out.append(';\n'.join(rows))
    out.append('].')
    out.append('')
    out.append('(* engine/service-internal functions (not reachable with tenant-chosen arguments; the translator')
    out.append('   checked that neither mistral/api nor mistral/expressions references them) *)')
    out.append('Definition internal_functions : list string := [%s].' % '; '.join(coq_s(e['name']) for e in internal))
    out.append('Definition secure_models : list model := [%s].' % '; '.join(a['secure_models']))
    out.append('Definition hooked_models : list model := [%s].' % '; '.join(a['hooked_models']))
    out.append('')
    out.append('(* what the extractor read in the helper functions the model relies on *)')
    out.append('Definition code_facts : list (string * list string) := [')
    fr = []
    for k in sorted(a['facts']):
        fr.append('  (%s, [%s])' % (coq_s(k), '; '.join(coq_s(x) for x in a['facts'][k])))
    out.append(';\n'.join(fr))
    out.append('].')
    out.append('')
    return '\n'.join(out)
