"""Translate mistral/workflow/states.py into Gen/States.v (fail closed).

Recognised subset: module-level string constants, list / set / dict literals of
those constants, and functions whose body is a sequence of
`if <bexpr>: return <bexpr>` followed by `return <bexpr>`, where <bexpr> is
built from: True/False, NAME == NAME, NAME in <collection>, not/and/or, calls
of sibling predicates, and `NAME in DICT[NAME]` (only as a whole return
expression; a missing key is a KeyError in Python and `None` in the model).

States are modelled by one constructor per string constant plus `Invalid`,
standing for every other string: the module only ever compares its argument
with these constants, so all other strings behave alike.
"""
import ast
import os

from harness.core import TranslateError

NAME = 'States'
SRC = 'mistral/workflow/states.py'


def translate(repo):
    path = os.path.join(repo, SRC)
    tree = ast.parse(open(path).read())
    consts = []      # (pyname, string)
    colls = {}       # name -> list of pynames
    dicts = {}       # name -> list of (key, [vals])
    funcs = []

    def cname(node):
        if isinstance(node, ast.Name) and node.id in dict(consts):
            return node.id
        raise TranslateError('expected a state constant, got %s' % ast.dump(node))

    for node in tree.body:
        if isinstance(node, ast.Expr) and isinstance(node.value, ast.Constant) and isinstance(node.value.value, str):
            continue  # docstring
        if isinstance(node, ast.Assign) and len(node.targets) == 1 and isinstance(node.targets[0], ast.Name):
            name = node.targets[0].id
            v = node.value
            if isinstance(v, ast.Constant) and isinstance(v.value, str):
                consts.append((name, v.value))
            elif isinstance(v, (ast.List, ast.Set, ast.Tuple)):
                colls[name] = [cname(e) for e in v.elts]
            elif isinstance(v, ast.Dict):
                items = []
                for k, val in zip(v.keys, v.values):
                    if not isinstance(val, (ast.List, ast.Set, ast.Tuple)):
                        raise TranslateError('dict value not a list in %s' % name)
                    items.append((cname(k), [cname(e) for e in val.elts]))
                dicts[name] = items
            else:
                raise TranslateError('unsupported assignment to %s' % name)
        elif isinstance(node, ast.FunctionDef):
            funcs.append(node)
        elif isinstance(node, (ast.Import, ast.ImportFrom)):
            raise TranslateError('states.py gained an import: outside the subset')
        else:
            raise TranslateError('unsupported top-level statement %s' % type(node).__name__)

    fnames = [f.name for f in funcs]
    partial = set()

    def coll(node, params):
        if isinstance(node, ast.Name) and node.id in colls:
            return 'c_' + node.id
        if isinstance(node, (ast.List, ast.Set, ast.Tuple)):
            return '[' + '; '.join(atom(e, params) for e in node.elts) + ']'
        raise TranslateError('unsupported collection %s' % ast.dump(node))

    def atom(node, params):
        if isinstance(node, ast.Name):
            if node.id in params:
                return node.id
            if node.id in dict(consts):
                return node.id
        raise TranslateError('unsupported atom %s' % ast.dump(node))

    def bexpr(node, params):
        if isinstance(node, ast.Constant) and isinstance(node.value, bool):
            return 'true' if node.value else 'false'
        if isinstance(node, ast.UnaryOp) and isinstance(node.op, ast.Not):
            return '(negb %s)' % bexpr(node.operand, params)
        if isinstance(node, ast.BoolOp):
            op = 'orb' if isinstance(node.op, ast.Or) else 'andb'
            parts = [bexpr(v, params) for v in node.values]
            out = parts[-1]
            for p in reversed(parts[:-1]):
                out = '(%s %s %s)' % (op, p, out)
            return out
        if isinstance(node, ast.Compare) and len(node.ops) == 1:
            op, l, r = node.ops[0], node.left, node.comparators[0]
            if isinstance(op, ast.Eq):
                return '(state_eqb %s %s)' % (atom(l, params), atom(r, params))
            if isinstance(op, ast.NotEq):
                return '(negb (state_eqb %s %s))' % (atom(l, params), atom(r, params))
            if isinstance(op, ast.In) and not isinstance(r, ast.Subscript):
                return '(mem %s %s)' % (atom(l, params), coll(r, params))
            if isinstance(op, ast.NotIn) and not isinstance(r, ast.Subscript):
                return '(negb (mem %s %s))' % (atom(l, params), coll(r, params))
        if isinstance(node, ast.Call) and isinstance(node.func, ast.Name) and node.func.id in fnames \
                and not node.keywords and node.func.id not in partial:
            return '(%s %s)' % (node.func.id, ' '.join(atom(a, params) for a in node.args))
        raise TranslateError('unsupported boolean expression %s' % ast.dump(node))

    def ret(node, params):
        """returns (coq, is_partial)"""
        if isinstance(node, ast.Compare) and len(node.ops) == 1 and isinstance(node.ops[0], ast.In) \
                and isinstance(node.comparators[0], ast.Subscript):
            sub = node.comparators[0]
            if isinstance(sub.value, ast.Name) and sub.value.id in dicts:
                key = sub.slice
                return ('(match d_%s %s with Some l => Some (mem %s l) | None => None end)'
                        % (sub.value.id, atom(key, params), atom(node.left, params)), True)
            raise TranslateError('subscript of a non-dict')
        return bexpr(node, params), False

    out = []
    out.append('(* GENERATED from %s by translate/tr_states.py on every run. Do not edit. *)' % SRC)
    out.append('From Coq Require Import List Bool String.')
    out.append('Import ListNotations.')
    out.append('')
    out.append('Inductive state : Set := %s | Invalid.' % ' | '.join(n for n, _ in consts))
    out.append('')
    out.append('Definition state_eqb (a b : state) : bool :=\n  match a, b with')
    for n, _ in consts:
        out.append('  | %s, %s => true' % (n, n))
    out.append('  | _, _ => false\n  end.')
    out.append('(* Invalid stands for an arbitrary unknown string: two unknown strings need not be equal; '
               'the source never compares two non-constant values except from_state == to_state, '
               'for which is_invalid is tested first. *)')
    out.append('')
    out.append('Definition mem (x : state) (l : list state) : bool := existsb (state_eqb x) l.')
    out.append('')
    out.append('Definition state_name (s : state) : string :=\n  match s with')
    for n, v in consts:
        out.append('  | %s => "%s"' % (n, v))
    out.append('  | Invalid => "?"\n  end%string.')
    out.append('')
    out.append('Definition all_constants : list state := [%s].' % '; '.join(n for n, _ in consts))
    for name, items in colls.items():
        out.append('Definition c_%s : list state := [%s].' % (name, '; '.join(items)))
    for name, items in dicts.items():
        out.append('Definition d_%s (k : state) : option (list state) :=\n  match k with' % name)
        seen = set()
        for k, vals in items:
            if k in seen:
                raise TranslateError('duplicate dict key %s' % k)
            seen.add(k)
            out.append('  | %s => Some [%s]' % (k, '; '.join(vals)))
        out.append('  | _ => None\n  end.')
    out.append('')
    for f in funcs:
        params = [a.arg for a in f.args.args]
        if f.args.vararg or f.args.kwarg or f.args.defaults or f.args.kwonlyargs:
            raise TranslateError('unsupported signature of %s' % f.name)
        body = [s for s in f.body if not (isinstance(s, ast.Expr) and isinstance(s.value, ast.Constant))]
        if not body or not isinstance(body[-1], ast.Return):
            raise TranslateError('%s: last statement is not return' % f.name)
        conds = []
        for s in body[:-1]:
            if isinstance(s, ast.If) and not s.orelse and len(s.body) == 1 and isinstance(s.body[0], ast.Return):
                conds.append((bexpr(s.test, params), ret(s.body[0].value, params)))
            else:
                raise TranslateError('%s: unsupported statement %s' % (f.name, type(s).__name__))
        final = ret(body[-1].value, params)
        is_partial = final[1] or any(r[1] for _, r in conds)
        if is_partial:
            partial.add(f.name)

        def wrap(r):
            return r[0] if (r[1] or not is_partial) else '(Some %s)' % r[0]
        expr = wrap(final)
        for c, r in reversed(conds):
            expr = '(if %s then %s else %s)' % (c, wrap(r), expr)
        out.append('Definition %s %s : %s :=\n  %s.' % (
            f.name, ' '.join('(%s : state)' % p for p in params),
            'option bool' if is_partial else 'bool', expr))
        out.append('')
    required = ['is_valid_transition', 'is_completed', 'is_paused_or_completed', 'is_running', 'is_paused']
    for r in required:
        if r not in fnames:
            raise TranslateError('states.py no longer defines %s' % r)
    out.append('Definition gen_function_names : list string := [%s]%%string.' % '; '.join('"%s"' % f for f in fnames))
    return '\n'.join(out) + '\n'
