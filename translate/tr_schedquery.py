"""Extract from mistral/scheduler/default_scheduler.py whether DefaultScheduler.has_scheduled_jobs
answers from the in-memory job copies before asking the store -> Gen/SchedQuery.v (fail closed).

Recognised shapes of the method body:
  * no reference to `in_memory_jobs` at all                         -> query_uses_memory = false
  * a `for` loop over (a copy of) `self.in_memory_jobs` values whose body can `return True`,
    followed by the store count                                      -> query_uses_memory = true
Anything else raises TranslateError. Which variant of Model/Sched.v `has_jobs` describes the code is
then validated end to end by the correspondence suite of C13.
"""
import ast
import os

from harness.core import TranslateError

NAME = 'SchedQuery'
SRC = 'mistral/scheduler/default_scheduler.py'


def _mentions(node, attr):
    return any(isinstance(n, ast.Attribute) and n.attr == attr for n in ast.walk(node))


def translate(repo):
    tree = ast.parse(open(os.path.join(repo, SRC)).read())
    cls = [n for n in tree.body if isinstance(n, ast.ClassDef) and n.name == 'DefaultScheduler']
    if len(cls) != 1:
        raise TranslateError('class DefaultScheduler not found exactly once')
    fns = [n for n in cls[0].body if isinstance(n, ast.FunctionDef) and n.name == 'has_scheduled_jobs']
    if len(fns) != 1:
        raise TranslateError('DefaultScheduler.has_scheduled_jobs not found exactly once')
    fn = fns[0]
    if not any(isinstance(n, ast.Attribute) and n.attr == 'get_scheduled_jobs_count' for n in ast.walk(fn)):
        raise TranslateError('has_scheduled_jobs does not count rows through db_api.get_scheduled_jobs_count')
    if not _mentions(fn, 'in_memory_jobs'):
        uses = False
    else:
        # names bound from self.in_memory_jobs
        bound = set()
        for n in ast.walk(fn):
            if isinstance(n, ast.Assign) and _mentions(n.value, 'in_memory_jobs'):
                for t in n.targets:
                    if isinstance(t, ast.Name):
                        bound.add(t.id)
        loops = []
        for n in ast.walk(fn):
            if isinstance(n, ast.For):
                it = n.iter
                over_mem = _mentions(it, 'in_memory_jobs') or (isinstance(it, ast.Name) and it.id in bound)
                if over_mem:
                    loops.append(n)
        if len(loops) != 1:
            raise TranslateError('has_scheduled_jobs mentions in_memory_jobs but not as exactly one for-loop over it')
        rets = [r for r in ast.walk(loops[0]) if isinstance(r, ast.Return)]
        if not rets or not all(isinstance(r.value, ast.Constant) and r.value.value is True for r in rets):
            raise TranslateError('the in-memory loop of has_scheduled_jobs does not simply `return True`')
        uses = True
    out = ['(* GENERATED from %s by translate/tr_schedquery.py on every run. Do not edit. *)' % SRC,
           '(* does DefaultScheduler.has_scheduled_jobs answer from its in-memory job copies first? *)',
           'Definition query_uses_memory : bool := %s.' % ('true' if uses else 'false'),
           '']
    return '\n'.join(out)
