"""Extract how the specification cache is keyed and which row fields the two services that
write workflow definitions fill, into Gen/SpecCache.v (configuration of Model/SpecCache.v).
Python `ast`, fail closed.

Sources:
  mistral/lang/parser.py           get_workflow_spec_by_definition_id: cachetools.cached over its two
                                   arguments; the second one is used as key only; a miss parses row.spec
  every non-test module            the calls get_workflow_spec_by_definition_id(<row>.id, <key component>)
  mistral/services/workflows.py    _get_workflow_values (used by _create_workflow and _update_workflow)
  mistral/services/workbooks.py    _create_or_update_workflows (values of create_or_update_workflow_definition)
  mistral/db/sqlalchemy/model_base.py   updated_at = Column(DateTime, onupdate=utc_now_sec)
Fails closed when a call site keys the cache on a row field that one of the writers does not
refresh on every update (then an update would not invalidate the cached specification).
"""
import ast
import os

from harness.core import TranslateError

NAME = 'SpecCache'
FUNC = 'get_workflow_spec_by_definition_id'
FIELDS = {'updated_at': 'FUpdatedAt', 'checksum': 'FChecksum', 'spec': 'FContent', 'definition': 'FContent'}
EXPECTED_SITES = {'mistral/engine/workflows.py:start', 'mistral/engine/actions.py:schedule',
                  'mistral/services/triggers.py:create_cron_trigger', 'mistral/services/triggers.py:create_event_trigger'}


def _parse(repo, rel):
    path = os.path.join(repo, rel)
    try:
        return ast.parse(open(path).read())
    except (OSError, SyntaxError) as e:
        raise TranslateError('%s: %s' % (rel, e))


def _attr_of(node, base):
    """`<base>.<attr>` -> attr"""
    if isinstance(node, ast.Attribute) and isinstance(node.value, ast.Name) and (base is None or node.value.id == base):
        return node.value.id, node.attr
    raise TranslateError('key component is not an attribute of the definition row: %s' % ast.dump(node)[:200])


def call_sites(repo):
    """{site: [row field names]} for every call of FUNC outside the tests."""
    out = {}
    root = os.path.join(repo, 'mistral')
    for d, dirs, files in os.walk(root):
        dirs[:] = sorted(x for x in dirs if x != 'tests')
        for f in sorted(files):
            if not f.endswith('.py'):
                continue
            rel = os.path.relpath(os.path.join(d, f), repo)
            src = open(os.path.join(d, f)).read()
            if FUNC not in src:
                continue
            tree = ast.parse(src)
            for fn in ast.walk(tree):
                if not isinstance(fn, (ast.FunctionDef, ast.AsyncFunctionDef)):
                    continue
                for node in ast.walk(fn):
                    if isinstance(node, ast.Call) and isinstance(node.func, ast.Attribute) and node.func.attr == FUNC:
                        if len(node.args) != 2 or node.keywords:
                            raise TranslateError('%s:%s: unexpected arguments of %s' % (rel, fn.name, FUNC))
                        base, a0 = _attr_of(node.args[0], None)
                        if a0 != 'id':
                            raise TranslateError('%s:%s: first argument is not <row>.id' % (rel, fn.name))
                        k = node.args[1]
                        elts = k.elts if isinstance(k, ast.Tuple) else [k]
                        fields = [_attr_of(e, base)[1] for e in elts]
                        site = '%s:%s' % (rel, fn.name)
                        if site in out and out[site] != fields:
                            raise TranslateError('%s: two different keys in one function' % site)
                        out[site] = fields
    return out


def cached_function(repo):
    tree = _parse(repo, 'mistral/lang/parser.py')
    fns = [n for n in tree.body if isinstance(n, ast.FunctionDef) and n.name == FUNC]
    if len(fns) != 1:
        raise TranslateError('parser.%s not found' % FUNC)
    fn = fns[0]
    decs = [d for d in fn.decorator_list if isinstance(d, ast.Call) and isinstance(d.func, ast.Attribute) and d.func.attr == 'cached']
    if len(decs) != 1 or len(fn.decorator_list) != 1:
        raise TranslateError('parser.%s is not (only) cachetools.cached' % FUNC)
    if any(kw.arg == 'key' for kw in decs[0].keywords):
        raise TranslateError('parser.%s: custom cache key function' % FUNC)
    args = [a.arg for a in fn.args.args]
    if len(args) != 2 or fn.args.vararg or fn.args.kwarg or fn.args.kwonlyargs:
        raise TranslateError('parser.%s: expected exactly two positional parameters' % FUNC)
    used = [n.id for n in ast.walk(ast.Module(body=fn.body, type_ignores=[])) if isinstance(n, ast.Name)]
    if args[1] in used:
        raise TranslateError('parser.%s uses its key component in the body' % FUNC)
    # a miss loads the row by id and parses its `spec`
    src = ast.dump(ast.Module(body=fn.body, type_ignores=[]))
    if "attr='get_workflow_definition'" not in src or "attr='spec'" not in src or "id='get_workflow_spec'" not in src:
        raise TranslateError('parser.%s: a miss does not parse the stored row\'s spec' % FUNC)
    return args


def dict_keys_in(repo, rel, fname, must_call=None):
    tree = _parse(repo, rel)
    fns = [n for n in ast.walk(tree) if isinstance(n, ast.FunctionDef) and n.name == fname]
    if len(fns) != 1:
        raise TranslateError('%s:%s not found' % (rel, fname))
    dicts = [n for n in ast.walk(fns[0]) if isinstance(n, ast.Dict) and len(n.keys) >= 4]
    if len(dicts) != 1:
        raise TranslateError('%s:%s: expected one values dict' % (rel, fname))
    keys = []
    for k in dicts[0].keys:
        if not (isinstance(k, ast.Constant) and isinstance(k.value, str)):
            raise TranslateError('%s:%s: non-literal key in the values dict' % (rel, fname))
        keys.append(k.value)
    if must_call:
        names = {n.func.attr for n in ast.walk(fns[0]) if isinstance(n, ast.Call) and isinstance(n.func, ast.Attribute)}
        if must_call not in names:
            raise TranslateError('%s:%s does not call %s' % (rel, fname, must_call))
    return keys


def uses(repo, rel, fname, callee):
    tree = _parse(repo, rel)
    fns = [n for n in ast.walk(tree) if isinstance(n, ast.FunctionDef) and n.name == fname]
    if len(fns) != 1:
        raise TranslateError('%s:%s not found' % (rel, fname))
    return any(isinstance(n, ast.Call) and isinstance(n.func, ast.Name) and n.func.id == callee for n in ast.walk(fns[0]))


def clock_field(repo):
    tree = _parse(repo, 'mistral/db/sqlalchemy/model_base.py')
    for n in ast.walk(tree):
        if isinstance(n, ast.Assign) and len(n.targets) == 1 and isinstance(n.targets[0], ast.Name) and n.targets[0].id == 'updated_at':
            if not isinstance(n.value, ast.Call):
                break
            kws = {kw.arg: kw.value for kw in n.value.keywords}
            if 'onupdate' in kws and 'utc_now_sec' in ast.dump(kws['onupdate']) and 'default' not in kws:
                return True
    raise TranslateError('model_base.updated_at is not `onupdate=utc_now_sec` without a default')


def facts(repo):
    sites = call_sites(repo)
    if set(sites) != EXPECTED_SITES:
        raise TranslateError('call sites of %s changed: %s' % (FUNC, sorted(sites)))
    keys = {tuple(v) for v in sites.values()}
    if len(keys) != 1:
        raise TranslateError('the call sites key the cache differently: %s' % sites)
    key = list(keys.pop())
    for f in key:
        if f not in FIELDS:
            raise TranslateError('unknown key field %r' % f)
    cached_function(repo)
    wf_keys = dict_keys_in(repo, 'mistral/services/workflows.py', '_get_workflow_values')
    for fn in ('_create_workflow', '_update_workflow'):
        if not uses(repo, 'mistral/services/workflows.py', fn, '_get_workflow_values'):
            raise TranslateError('services/workflows.py:%s does not use _get_workflow_values' % fn)
    wb_keys = dict_keys_in(repo, 'mistral/services/workbooks.py', '_create_or_update_workflows',
                           must_call='create_or_update_workflow_definition')
    for ks, who in ((wf_keys, 'services/workflows.py'), (wb_keys, 'services/workbooks.py')):
        for need in ('spec', 'definition', 'name'):
            if need not in ks:
                raise TranslateError('%s does not write %r' % (who, need))
    clock_field(repo)
    return {'sites': sites, 'key': key, 'wf_keys': wf_keys, 'wb_keys': wb_keys}


def translate(repo):
    fx = facts(repo)
    # fail closed: every key field must be refreshed by BOTH writers on every update
    for f in fx['key']:
        if f == 'updated_at':
            continue        # refreshed by the DB layer on every UPDATE (one-second resolution: see the model)
        for ks, who in ((fx['wf_keys'], 'services/workflows.py'), (fx['wb_keys'], 'services/workbooks.py')):
            if f not in ks:
                raise TranslateError('the specification cache is keyed on `%s`, which %s does not write: an update '
                                     'through it would not invalidate the cached specification' % (f, who))

    def b(x):
        return 'true' if x else 'false'
    out = ['(* GENERATED by translate/tr_speccache.py from the call sites of parser.%s,' % FUNC,
           '   services/workflows.py, services/workbooks.py and model_base.py on every run. Do not edit. *)',
           'From Coq Require Import List String.', 'Require Import Mistral.Model.SpecCache.',
           'Import ListNotations.', 'Open Scope string_scope.', '',
           'Definition gen_cfg : cfg := mkCfg [%s] %s %s.' % (
               '; '.join(FIELDS[f] for f in fx['key']), b('checksum' in fx['wf_keys']), b('checksum' in fx['wb_keys'])),
           'Definition gen_sites : list (string * list field) := [%s].' % '; '.join(
               '("%s", [%s])' % (s, '; '.join(FIELDS[f] for f in v)) for s, v in sorted(fx['sites'].items())),
           'Definition gen_wf_fields : list string := [%s].' % '; '.join('"%s"' % k for k in fx['wf_keys']),
           'Definition gen_wb_fields : list string := [%s].' % '; '.join('"%s"' % k for k in fx['wb_keys']),
           '']
    return '\n'.join(out)
