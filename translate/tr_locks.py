"""Extract from the engine source which guards the "check - lock - re-check - act" critical sections really
have, into Gen/Locks.v (fail closed: a function that cannot be found, or whose critical section has a shape
this extractor does not recognise, is a TranslateError; a recognised shape with a guard missing is `false`).

  mistral/engine/tasks.py        Task.defer, WithItemsTask.on_action_complete
  mistral/engine/task_handler.py _refresh_task_state, continue_task
  mistral/db/v2/sqlalchemy/models.py  TaskExecution.__table_args__ has UniqueConstraint('unique_key')
  mistral/workflow/direct_workflow.py _get_join_unique_key / _configure_if_join
"""
import ast
import os

from harness.core import TranslateError

NAME = 'Locks'


def _parse(repo, rel):
    p = os.path.join(repo, rel)
    try:
        return ast.parse(open(p).read())
    except (OSError, SyntaxError) as e:
        raise TranslateError('%s: %s' % (rel, e))


def _func(tree, name, cls=None):
    body = tree.body
    if cls is not None:
        cs = [n for n in tree.body if isinstance(n, ast.ClassDef) and n.name == cls]
        if len(cs) != 1:
            raise TranslateError('class %s not found exactly once' % cls)
        body = cs[0].body
    fs = [n for n in body if isinstance(n, ast.FunctionDef) and n.name == name]
    if len(fs) != 1:
        raise TranslateError('function %s%s not found exactly once' % (cls + '.' if cls else '', name))
    return fs[0]


def _src(node):
    return ast.unparse(node)


def _is_call(node, dotted):
    return isinstance(node, ast.Call) and _src(node.func) == dotted


def _calls(node, dotted):
    return [n for n in ast.walk(node) if _is_call(n, dotted)]


def _lock_withs(fn):
    """`with db_api.named_lock(<expr>):` statements of a function -> [(With, lock-name source)]"""
    out = []
    for n in ast.walk(fn):
        if isinstance(n, ast.With):
            for it in n.items:
                if _is_call(it.context_expr, 'db_api.named_lock') and len(it.context_expr.args) == 1:
                    out.append((n, _src(it.context_expr.args[0])))
    return out


def _inside(node, container):
    return any(n is node for n in ast.walk(container))


def _all_inside(nodes, withs):
    return bool(nodes) and all(any(_inside(c, w) for w, _ in withs) for c in nodes)


def _returns_if(stmt, needles):
    """stmt is `if <test mentioning all needles>: return`"""
    if not isinstance(stmt, ast.If):
        return False
    t = _src(stmt.test)
    if not all(x in t for x in needles):
        return False
    return any(isinstance(s, ast.Return) for s in stmt.body)


def _probe_rearm(kind, cyclic, started):
    """'always' / 'never' are read off the syntax; a guarded re-arm is decided by EXECUTING the real Task.defer on a
    completed join execution triggered by a new task, in a definition where the join is / is not on a cycle
    (harness.suites.C04.probe_defer; the same probe is the correspondence check of Model/JoinLife.on_trigger)."""
    if kind == 'always':
        return True
    if kind == 'never':
        return False
    try:
        from harness.suites import C04
        effs = set(C04.probe_defer(st, cyclic, started=started) for st in ('SUCCESS', 'ERROR', 'CANCELLED'))
    except Exception as e:
        raise TranslateError('cannot probe Task.defer: %s: %s' % (type(e).__name__, e))
    if effs == {'rearm'}:
        return True
    if effs == {'keep'}:
        return False
    raise TranslateError('Task.defer treats completed join executions non-uniformly: %s' % sorted(effs))


def _defer_facts(tree):
    fn = _func(tree, 'defer', 'Task')
    creates = _calls(fn, 'self._create_task_execution')
    sets = _calls(fn, 'self.set_state')
    if not creates:
        raise TranslateError('Task.defer does not create the task execution')
    withs = [(w, nm) for w, nm in _lock_withs(fn) if nm == 'self.unique_key']
    locked = _all_inside(creates + sets, withs)
    recheck = False
    if locked and len(withs) == 1:
        w = withs[0][0]
        # statements of the with body in order: a re-read by unique_key (no state filter) guarded by
        # `if not self.task_ex`, then the creation guarded by `if not self.task_ex`
        reread_at = None
        create_at = None
        for k, st in enumerate(w.body):
            for c in _calls(st, 'db_api.get_task_executions'):
                kws = {kw.arg: _src(kw.value) for kw in c.keywords}
                if kws.get('unique_key') == 'self.unique_key' and 'state' not in kws \
                        and kws.get('workflow_execution_id') == 'self.wf_ex.id':
                    assigns = [a for a in ast.walk(st) if isinstance(a, ast.Assign)
                               and any(_src(t) == 'self.task_ex' for t in a.targets)]
                    if assigns and reread_at is None:
                        reread_at = k
            if create_at is None and _calls(st, 'self._create_task_execution'):
                create_at = k
                guarded = isinstance(st, ast.If) and _src(st.test) == 'not self.task_ex' and \
                    all(_inside(c, ast.Module(body=st.body, type_ignores=[])) for c in _calls(st, 'self._create_task_execution'))
                if not guarded:
                    create_at = -1
        recheck = reread_at is not None and create_at is not None and create_at > reread_at >= 0
    # what happens to an existing execution found under the lock: `elif <test>: self.set_state(states.WAITING, ...)`
    rearm = ('never', None)
    for w, _nm in withs:
        for st in ast.walk(w):
            if isinstance(st, ast.If) and _calls(ast.Module(body=st.body, type_ignores=[]), 'self._create_task_execution'):
                chain = list(st.orelse)
                while chain:
                    e = chain.pop(0)
                    if not isinstance(e, ast.If):
                        if _calls(e, 'self.set_state') or _calls(e, 'self._create_task_execution'):
                            raise TranslateError('Task.defer: unconditional change of an existing execution')
                        continue
                    chain = list(e.orelse) + chain
                    body = ast.Module(body=e.body, type_ignores=[])
                    if _calls(body, 'self._create_task_execution'):
                        raise TranslateError('Task.defer: second creation branch')
                    if not _calls(body, 'self.set_state'):
                        continue            # a branch that leaves the existing execution as it is
                    if rearm[0] != 'never':
                        raise TranslateError('Task.defer: more than one branch changes an existing execution')
                    t = e.test
                    base = ('states.is_completed(self.task_ex.state)', 'self.task_ex.state != states.WAITING')
                    if _src(t) in base:
                        rearm = ('always', _src(t))
                    elif isinstance(t, ast.BoolOp) and isinstance(t.op, ast.And) and _src(t.values[0]) in base:
                        rearm = ('guarded', _src(t))
                    else:
                        raise TranslateError('Task.defer: unrecognised test for an existing execution: %s' % _src(t))
    fast = False
    for st in fn.body:
        if isinstance(st, ast.With):
            break
        if _returns_if(st, ['self.task_ex']):
            fast = True
    return {'defer_locked': locked, 'defer_recheck': recheck, 'defer_fast_check': fast,
            # a trigger arriving after the join execution completed puts it back to WAITING:
            #   in a workflow where the join is not on a cycle / where it is (a guarded re-arm is taken to be
            #   the cycle test; the correspondence suite runs the real Task.defer on both kinds of definitions)
            'defer_rearm_acyclic': _probe_rearm(rearm[0], False, True),
            'defer_rearm_cyclic': _probe_rearm(rearm[0], True, True),
            # ... and a join execution that completed (failed) without ever starting
            'defer_rearm_unstarted': _probe_rearm(rearm[0], False, False)}


def _refresh_facts(tree):
    fn = _func(tree, '_refresh_task_state')
    acts = _calls(fn, 'continue_task') + _calls(fn, 'complete_task')
    if not acts:
        raise TranslateError('_refresh_task_state neither continues nor completes the task')
    withs = [(w, nm) for w, nm in _lock_withs(fn) if nm == 'task_ex.id']
    locked = _all_inside(acts, withs)
    recheck = False
    if locked and len(withs) == 1:
        w = withs[0][0]
        refreshed = False
        for st in w.body:
            if isinstance(st, ast.Expr) and _is_call(st.value, 'db_api.refresh') and \
                    [_src(a) for a in st.value.args] == ['task_ex']:
                refreshed = True
                continue
            if _calls(st, 'wf_ctrl.get_logical_task_state') or _calls(st, 'continue_task') or _calls(st, 'complete_task'):
                break
            if refreshed and _returns_if(st, ['states.is_completed(task_ex.state)', 'task_ex.state == states.RUNNING']):
                recheck = True
                break
    fn2 = _func(tree, 'continue_task')
    acts2 = _calls(fn2, 'task.set_state') + _calls(fn2, 'task.run')
    if len(acts2) < 2:
        raise TranslateError('continue_task does not set the state and run the task')
    cont_locked = _all_inside(acts2, _lock_withs(fn2))
    return {'refresh_locked': locked, 'refresh_recheck': recheck, 'continue_locked': cont_locked}


def _withitems_facts(tree):
    fn = _func(tree, 'on_action_complete', 'WithItemsTask')
    withs = _lock_withs(fn)
    body_calls = [n for st in fn.body for n in ast.walk(st) if isinstance(n, ast.Call)
                  and _src(n.func).startswith('self._') and not _src(n.func).startswith('self._get')]
    locked = bool(withs) and _all_inside(body_calls, withs) and all('self.task_ex.id' in nm for _, nm in withs)
    recheck = False
    if locked and len(withs) == 1:
        b = withs[0][0].body
        if len(b) >= 2 and isinstance(b[0], ast.Expr) and _is_call(b[0].value, 'db_api.refresh') \
                and [_src(a) for a in b[0].value.args] == ['self.task_ex'] and _returns_if(b[1], ['self.is_completed()']):
            recheck = True
    return {'withitems_locked': locked, 'withitems_recheck': recheck}


def _model_facts(tree):
    cs = [n for n in tree.body if isinstance(n, ast.ClassDef) and n.name == 'TaskExecution']
    if len(cs) != 1:
        raise TranslateError('models.TaskExecution not found')
    unique = False
    for st in cs[0].body:
        if isinstance(st, ast.Assign) and any(_src(t) == '__table_args__' for t in st.targets):
            if not isinstance(st.value, ast.Tuple):
                raise TranslateError('TaskExecution.__table_args__ is not a tuple literal')
            for e in st.value.elts:
                if _is_call(e, 'sa.UniqueConstraint') and [_src(a) for a in e.args] == ["'unique_key'"]:
                    unique = True
    cols = [st for st in cs[0].body if isinstance(st, ast.Assign) and any(_src(t) == 'unique_key' for t in st.targets)]
    if len(cols) != 1:
        raise TranslateError('TaskExecution.unique_key column not found')
    return {'unique_key_constraint': unique}


def _key_facts(tree):
    fn = _func(tree, '_get_join_unique_key', 'DirectWorkflowController')
    rets = [n for n in ast.walk(fn) if isinstance(n, ast.Return)]
    per_run = len(rets) == 1 and _src(rets[0].value) == "'join-task-%s-%s' % (self.wf_ex.id, cmd.task_spec.get_name())"
    fn2 = _func(tree, '_configure_if_join', 'DirectWorkflowController')
    src = _src(fn2)
    configured = 'cmd.unique_key = self._get_join_unique_key(cmd)' in src and 'cmd.wait = True' in src
    fn3 = _func(tree, '_find_next_commands_for_task', 'DirectWorkflowController')
    always = bool(_calls(fn3, 'self._configure_if_join'))
    return {'join_key_per_run_and_name': per_run and configured and always}


def translate(repo):
    facts = {}
    t = _parse(repo, 'mistral/engine/tasks.py')
    facts.update(_defer_facts(t))
    facts.update(_withitems_facts(t))
    facts.update(_refresh_facts(_parse(repo, 'mistral/engine/task_handler.py')))
    facts.update(_model_facts(_parse(repo, 'mistral/db/v2/sqlalchemy/models.py')))
    facts.update(_key_facts(_parse(repo, 'mistral/workflow/direct_workflow.py')))
    out = ['(* GENERATED from mistral/engine/tasks.py, engine/task_handler.py, db/v2/sqlalchemy/models.py,',
           '   workflow/direct_workflow.py by translate/tr_locks.py on every run. Do not edit. *)',
           'From Coq Require Import Bool.', 'Require Import Mistral.Model.JoinProto.', '']
    for k in sorted(facts):
        out.append('Definition %s : bool := %s.' % (k, 'true' if facts[k] else 'false'))
    out += ['',
            '(* Task.defer: the act is the INSERT of the join row *)',
            'Definition defer_cfg (fresh : bool) : cfg := mkCfg defer_locked defer_recheck fresh unique_key_constraint.',
            '(* _refresh_task_state: the act is WAITING -> RUNNING and the start of the action (no constraint helps) *)',
            'Definition refresh_cfg (fresh : bool) : cfg := mkCfg (refresh_locked && continue_locked) refresh_recheck fresh false.',
            '(* WithItemsTask.on_action_complete: the same protocol shape, used by C07 *)',
            'Definition withitems_cfg (fresh : bool) : cfg := mkCfg withitems_locked withitems_recheck fresh false.',
            '']
    return '\n'.join(out)
