"""Enumerate every place in mistral/lang and mistral/expressions where the TEXT of a YAML string
value is parsed a second time (json.loads, regular expressions for inline commands / parameters /
with-items / expression detection / workbook keys, the one-line policy and command forms, number
parsing of the version, `<% %>` / `{{ }}` extraction, expression validation) into Gen/Reparse.v.
Python `ast`, fail closed:
  * the set of sites must be exactly the recorded one (a new or vanished re-parse site means the
    generator of harness/suites/C14.py no longer covers the code: update both);
  * every json.loads must sit in a `try` that catches Exception (or both ValueError and
    RecursionError): json.loads raises a plain ValueError for an integer literal of more than 4300
    digits and RecursionError for deep nestings, not only JSONDecodeError.
harness/suites/C14.py (suite `reparse`) generates pathological inner texts for each site kind.
"""
import ast
import os

from harness.core import TranslateError

NAME = 'Reparse'
DIRS = ['mistral/lang', 'mistral/expressions']
RE_FUNCS = {'compile', 'match', 'search', 'findall', 'finditer', 'sub', 'split', 'fullmatch'}
PATTERN_ATTRS = {'find_expression_pattern', 'find_block_pattern'}

# kind, file:function[:detail]  -- the recorded set (checked against the AST on every run)
EXPECTED = {
    ('json', 'mistral/lang/base.py:_parse_cmd_and_input'),
    ('json', 'mistral/lang/v2/tasks.py:_get_with_items_as_dict'),
    ('regex_def', 'mistral/lang/base.py:CMD_PTRN'),
    ('regex_def', 'mistral/lang/base.py:PARAMS_PTRN'),
    ('regex_def', 'mistral/lang/parser.py:_KEY_PTRN'),
    ('regex_def', 'mistral/lang/v2/tasks.py:WITH_ITEMS_PTRN'),
    ('regex_def', 'mistral/expressions/yaql_expression.py:find_expression_pattern'),
    ('regex_def', 'mistral/expressions/jinja_expression.py:find_expression_pattern'),
    ('regex_def', 'mistral/expressions/jinja_expression.py:find_block_pattern'),
    ('regex_use', 'mistral/lang/base.py:_parse_cmd_and_input:CMD_PTRN.search'),
    ('regex_use', 'mistral/lang/base.py:_parse_cmd_and_input:re.findall'),
    ('regex_use', 'mistral/lang/parser.py:_key_of:_KEY_PTRN.match'),
    ('regex_use', 'mistral/lang/v2/tasks.py:_get_with_items_as_dict:re.match'),
    ('regex_use', 'mistral/expressions/yaql_expression.py:is_expression:find_expression_pattern.search'),
    ('regex_use', 'mistral/expressions/yaql_expression.py:find_inline_expressions:find_expression_pattern.findall'),
    ('regex_use', 'mistral/expressions/jinja_expression.py:evaluate:find_expression_pattern.findall'),
    ('regex_use', 'mistral/expressions/jinja_expression.py:is_expression:find_expression_pattern.search'),
    ('regex_use', 'mistral/expressions/jinja_expression.py:is_expression:find_block_pattern.search'),
    ('cmd', 'mistral/lang/v2/tasks.py:validate_schema'),
    ('cmd', 'mistral/lang/v2/tasks.py:_process_action_and_workflow'),
    ('cmd', 'mistral/lang/v2/actions.py:__init__'),
    ('cmd', 'mistral/lang/v2/actions.py:validate_schema'),
    ('cmd', 'mistral/lang/v2/retry_policy.py:_transform_retry_one_line'),
    ('cmd', 'mistral/lang/v2/on_clause.py:prepare_next_clause'),
    ('number', 'mistral/lang/parser.py:_get_spec_version:float'),
    ('strip', 'mistral/expressions/yaql_expression.py:validate'),
    ('strip', 'mistral/expressions/yaql_expression.py:evaluate'),
}


def _files(repo):
    for d in DIRS:
        for root, dirs, files in os.walk(os.path.join(repo, d)):
            dirs[:] = sorted(x for x in dirs if x != 'tests')
            for f in sorted(files):
                if f.endswith('.py'):
                    yield os.path.relpath(os.path.join(root, f), repo)


def _catches(handler):
    t = handler.type
    if t is None:
        return {'*'}
    elts = t.elts if isinstance(t, ast.Tuple) else [t]
    out = set()
    for e in elts:
        out.add(e.id if isinstance(e, ast.Name) else e.attr if isinstance(e, ast.Attribute) else '?')
    return out


def _broad(caught):
    return bool(caught & {'*', 'Exception', 'BaseException'}) or {'ValueError', 'RecursionError'} <= caught


class _Scan(ast.NodeVisitor):
    def __init__(self, rel):
        self.rel = rel
        self.func = ['<module>']
        self.tries = []
        self.sites = set()
        self.json_guards = {}
        self.validators = set()

    def visit_FunctionDef(self, node):
        self.func.append(node.name)
        saved, self.tries = self.tries, []
        self.generic_visit(node)
        self.tries = saved
        self.func.pop()

    def visit_Try(self, node):
        caught = set()
        for h in node.handlers:
            caught |= _catches(h)
        self.tries.append(caught)
        for n in node.body:
            self.visit(n)
        self.tries.pop()
        for n in node.handlers + node.orelse + node.finalbody:
            self.visit(n)

    def visit_Assign(self, node):
        v = node.value
        if isinstance(v, ast.Call) and isinstance(v.func, ast.Attribute) and v.func.attr == 'compile' \
                and isinstance(v.func.value, ast.Name) and v.func.value.id == 're':
            for t in node.targets:
                if isinstance(t, ast.Name):
                    self.sites.add(('regex_def', '%s:%s' % (self.rel, t.id)))
            for a in v.args:
                self.visit(a)
            return
        self.generic_visit(node)

    def visit_Call(self, node):
        f = node.func
        where = '%s:%s' % (self.rel, self.func[-1])
        if isinstance(f, ast.Attribute):
            base = f.value
            if f.attr == 'loads' and isinstance(base, ast.Name) and base.id == 'json':
                self.sites.add(('json', where))
                ok = any(_broad(c) for c in self.tries)
                self.json_guards[where] = self.json_guards.get(where, True) and ok
            elif f.attr in RE_FUNCS and isinstance(base, ast.Name) and base.id == 're':
                self.sites.add(('regex_use', '%s:re.%s' % (where, f.attr)))
            elif f.attr in ('search', 'match', 'findall', 'finditer', 'fullmatch'):
                nm = base.id if isinstance(base, ast.Name) else base.attr if isinstance(base, ast.Attribute) else None
                if nm and (nm.endswith('PTRN') or nm in PATTERN_ATTRS):
                    self.sites.add(('regex_use', '%s:%s.%s' % (where, nm, f.attr)))
            elif f.attr == '_parse_cmd_and_input':
                self.sites.add(('cmd', where))
            elif f.attr == 'strip' and len(node.args) == 1 and isinstance(node.args[0], ast.Constant) \
                    and node.args[0].value == '<%>':
                self.sites.add(('strip', where))
        elif isinstance(f, ast.Name) and f.id in ('float', 'int') and self.rel.startswith('mistral/lang'):
            self.sites.add(('number', '%s:%s' % (where, f.id)))
        self.generic_visit(node)


def scan(repo):
    sites, guards = set(), {}
    for rel in _files(repo):
        try:
            tree = ast.parse(open(os.path.join(repo, rel)).read())
        except (OSError, SyntaxError) as e:
            raise TranslateError('%s: %s' % (rel, e))
        s = _Scan(rel)
        s.visit(tree)
        sites |= s.sites
        guards.update(s.json_guards)
    return sites, guards


def translate(repo):
    sites, guards = scan(repo)
    if sites != EXPECTED:
        raise TranslateError('the places where a string value is parsed again changed: new %s, gone %s' % (
            sorted(sites - EXPECTED), sorted(EXPECTED - sites)))
    bad = sorted(w for w, ok in guards.items() if not ok)
    if bad:
        raise TranslateError('json.loads in %s is not guarded against ValueError / RecursionError (only a narrower '
                             'exception is caught): an inner literal with >4300 digits or a deep nesting escapes as an '
                             'internal error' % ', '.join(bad))
    out = ['(* GENERATED by translate/tr_reparse.py from mistral/lang and mistral/expressions on every run. Do not edit. *)',
           'From Coq Require Import List String Bool.', 'Import ListNotations.', 'Open Scope string_scope.', '',
           '(* (site, the try around json.loads catches every exception) *)',
           'Definition json_loads_sites : list (string * bool) := [%s].' % '; '.join(
               '("%s", %s)' % (w, 'true' if ok else 'false') for w, ok in sorted(guards.items())),
           'Definition reparse_sites : list (string * string) := [%s].' % '; '.join(
               '("%s", "%s")' % (k, w) for k, w in sorted(sites)), '']
    return '\n'.join(out)
