"""Extract the REST list layer of mistral into Gen/RestLists.v (Python ast, fail closed):

  * mistral/utils/rest_utils.py:get_all - the condition under which `insecure = True` is handed to the
    db-api list function, as a list of recognised disjuncts (all_projects / caller is admin / a project_id
    filter is present).  Any other disjunct, a second assignment to `insecure`, or a call of
    get_all_function that does not pass `insecure=insecure` aborts the translation.
  * mistral/api/controllers/v2/*.py - every controller method that ends in rest_utils.get_all (directly or
    through a module-level helper): the db-api list function, the policy rule enforced unconditionally, the
    condition guarding '<x>:list:all_projects', whether `all_projects` and a `project_id` filter can reach
    rest_utils.get_all.
  * mistral/policies/*.py - the default check string of every rule (admin_only / admin_or_owner), and the two
    base rules; mistral/api/access_control.py:enforce - the policy target is the caller's own project.
  * every `insecure=` keyword in mistral/api/** and mistral/expressions/** (none is expected).

`analyse(repo)` returns the same as Python data for harness/suites/C15.py.
"""
import ast
import os

from harness.core import TranslateError

NAME = 'RestLists'
REST_UTILS = 'mistral/utils/rest_utils.py'
CONTROLLERS = 'mistral/api/controllers/v2'
POLICIES = 'mistral/policies'
ACL = 'mistral/api/access_control.py'
SURFACE = ['mistral/api', 'mistral/expressions']

MODEL_OF_FN = {
    'get_workbooks': 'Workbook', 'get_workflow_definitions': 'WorkflowDefinition',
    'get_action_definitions': 'ActionDefinition', 'get_code_sources': 'CodeSource',
    'get_dynamic_action_definitions': 'DynamicActionDefinition', 'get_action_executions': 'ActionExecution',
    'get_workflow_executions': 'WorkflowExecution', 'get_task_executions': 'TaskExecution',
    'get_environments': 'Environment', 'get_cron_triggers': 'CronTrigger', 'get_event_triggers': 'EventTrigger',
}


def U(n):
    return ast.unparse(n)


def _parse(repo, rel):
    try:
        return ast.parse(open(os.path.join(repo, rel)).read())
    except (OSError, SyntaxError) as e:
        raise TranslateError('%s: %s' % (rel, e))


def insecure_condition(repo):
    tree = _parse(repo, REST_UTILS)
    fn = [n for n in tree.body if isinstance(n, ast.FunctionDef) and n.name == 'get_all']
    if len(fn) != 1:
        raise TranslateError('rest_utils.get_all not found')
    f = fn[0]
    facts = []
    params = {a.arg: d for a, d in zip(reversed(f.args.args), reversed(f.args.defaults))}
    if 'all_projects' not in params or U(params['all_projects']) != 'False' or not f.args.kwarg or f.args.kwarg.arg != 'filters':
        raise TranslateError('rest_utils.get_all: signature changed (all_projects=False, **filters expected)')
    facts.append('param all_projects=False')
    assigns = [n for n in ast.walk(f) if isinstance(n, ast.Assign) and any(U(t) == 'insecure' for t in n.targets)]
    init = [a for a in assigns if a in f.body and U(a.value) == 'False']
    if len(init) != 1:
        raise TranslateError('rest_utils.get_all: `insecure = False` initialisation not found')
    facts.append('insecure = False')
    setters = [s for s in f.body if isinstance(s, ast.If) and not s.orelse and len(s.body) == 1
               and isinstance(s.body[0], ast.Assign) and U(s.body[0]) == 'insecure = True']
    if len(setters) != 1 or len(assigns) != 2:
        raise TranslateError('rest_utils.get_all: exactly one `if ...: insecure = True` expected, found %d setters / %d assignments'
                             % (len(setters), len(assigns)))
    if f.body.index(setters[0]) < f.body.index(init[0]):
        raise TranslateError('rest_utils.get_all: insecure set before its initialisation')
    test = setters[0].test
    disj = test.values if isinstance(test, ast.BoolOp) and isinstance(test.op, ast.Or) else [test]
    conds = []
    for dn in disj:
        t = U(dn)
        c = {'all_projects': 'IAllProjects', 'auth_ctx.ctx().is_admin': 'IAdmin',
             "filters.get('project_id')": 'IFilterProjectId', "'project_id' in filters": 'IFilterProjectId'}.get(t)
        if c is None:
            raise TranslateError('rest_utils.get_all: unrecognised condition for insecure: %s' % t[:80])
        conds.append(c)
    # nothing rebinds all_projects / filters before the decision
    for n in ast.walk(f):
        if isinstance(n, ast.Assign) and any(U(t) in ('all_projects', 'filters') for t in n.targets):
            raise TranslateError('rest_utils.get_all: %s is reassigned' % U(n.targets[0]))
    calls = [n for n in ast.walk(f) if isinstance(n, ast.Call) and U(n.func) == 'get_all_function']
    extra = [n for n in ast.walk(f) if isinstance(n, ast.Call) and isinstance(n.func, ast.Name)
             and n.func.id == 'get_all_function' and n not in calls]
    rcalls = [n for n in ast.walk(f) if isinstance(n, ast.Call) and U(n.func) == 'r.call' and n.args
              and U(n.args[0]) == 'get_all_function']
    sites = calls + rcalls
    if len(sites) != 2 or extra:
        raise TranslateError('rest_utils.get_all: expected two uses of get_all_function, found %d' % len(sites))
    for c in sites:
        kw = {k.arg: U(k.value) for k in c.keywords}
        if kw.get('insecure') != 'insecure' or None not in kw or kw[None] != 'filters':
            raise TranslateError('rest_utils.get_all: get_all_function is not called with insecure=insecure, **filters')
    facts.append('get_all_function(..., insecure=insecure, **filters) x2')
    facts.append('no other assignment to insecure')
    return conds, facts


def policy_rules(repo):
    rules = {}
    base = _parse(repo, os.path.join(POLICIES, 'base.py'))
    consts = {}
    for n in base.body:
        if isinstance(n, ast.Assign) and isinstance(n.value, ast.Constant) and isinstance(n.value.value, str):
            consts[U(n.targets[0])] = n.value.value
    if consts.get('RULE_ADMIN_ONLY') != 'rule:admin_only' or consts.get('RULE_ADMIN_OR_OWNER') != 'rule:admin_or_owner':
        raise TranslateError('policies/base.py: RULE_ADMIN_ONLY / RULE_ADMIN_OR_OWNER changed')
    basefacts = []
    for n in ast.walk(base):
        if isinstance(n, ast.Call) and U(n.func) == 'policy.RuleDefault' and len(n.args) == 2 \
                and all(isinstance(a, ast.Constant) for a in n.args):
            basefacts.append('%s=%s' % (n.args[0].value, n.args[1].value))
    for fn in sorted(os.listdir(os.path.join(repo, POLICIES))):
        if not fn.endswith('.py') or fn in ('base.py', '__init__.py'):
            continue
        tree = _parse(repo, os.path.join(POLICIES, fn))
        strs = {}
        for n in tree.body:
            if isinstance(n, ast.Assign) and isinstance(n.value, ast.Constant) and isinstance(n.value.value, str):
                strs[U(n.targets[0])] = n.value.value
        for n in ast.walk(tree):
            if isinstance(n, ast.Call) and U(n.func) in ('policy.DocumentedRuleDefault', 'policy.RuleDefault'):
                kw = {k.arg: k.value for k in n.keywords}
                name, chk = kw.get('name'), kw.get('check_str')
                if name is None or chk is None:
                    raise TranslateError('%s: policy rule without name/check_str keywords' % fn)
                if isinstance(name, ast.BinOp) and isinstance(name.op, ast.Mod) and isinstance(name.left, ast.Name) \
                        and name.left.id in strs and isinstance(name.right, ast.Constant):
                    rname = strs[name.left.id] % name.right.value
                elif isinstance(name, ast.Constant):
                    rname = name.value
                else:
                    raise TranslateError('%s: unrecognised rule name %s' % (fn, U(name)))
                c = {'base.RULE_ADMIN_ONLY': 'RAdminOnly', 'base.RULE_ADMIN_OR_OWNER': 'RAdminOrOwner'}.get(U(chk))
                if c is None:
                    raise TranslateError('%s: rule %s has an unrecognised check string %s' % (fn, rname, U(chk)))
                if rname in rules:
                    raise TranslateError('policy rule %s defined twice' % rname)
                rules[rname] = c
    return rules, sorted(basefacts)


def acl_facts(repo):
    tree = _parse(repo, ACL)
    f = [n for n in tree.body if isinstance(n, ast.FunctionDef) and n.name == 'enforce']
    if not f:
        raise TranslateError('access_control.enforce not found')
    out = []
    for n in ast.walk(f[0]):
        if isinstance(n, ast.Assign) and U(n.targets[0]) == 'target_obj' and isinstance(n.value, ast.Dict):
            out.append('target_obj=' + ', '.join('%s:%s' % (U(k), U(v)) for k, v in zip(n.value.keys, n.value.values)))
        if isinstance(n, ast.Call) and U(n.func) == 'target_obj.update':
            out.append('target_obj.update(%s)' % ', '.join(U(a) for a in n.args))
        if isinstance(n, ast.Call) and U(n.func) == '_ENFORCER.authorize':
            out.append('authorize(%s)' % ', '.join([U(a) for a in n.args]))
        if isinstance(n, ast.Assign) and U(n.targets[0]) == "policy_context['is_admin']":
            out.append("policy_context['is_admin']=" + U(n.value))
    return out


def endpoints(repo, rules):
    eps = []
    d = os.path.join(repo, CONTROLLERS)
    for fn in sorted(os.listdir(d)):
        if not fn.endswith('.py'):
            continue
        rel = os.path.join(CONTROLLERS, fn)
        tree = _parse(repo, rel)
        mod = fn[:-3]
        helpers = {}
        for n in tree.body:
            if isinstance(n, ast.FunctionDef):
                c = [x for x in ast.walk(n) if isinstance(x, ast.Call) and U(x.func) == 'rest_utils.get_all']
                if c:
                    if len(c) != 1:
                        raise TranslateError('%s.%s: several rest_utils.get_all calls' % (mod, n.name))
                    helpers[n.name] = (n, c[0])
        for cls in [n for n in tree.body if isinstance(n, ast.ClassDef)]:
            for m in [n for n in cls.body if isinstance(n, ast.FunctionDef)]:
                direct = [x for x in ast.walk(m) if isinstance(x, ast.Call) and U(x.func) == 'rest_utils.get_all']
                via = [x for x in ast.walk(m) if isinstance(x, ast.Call) and isinstance(x.func, ast.Name) and x.func.id in helpers]
                if not direct and not via:
                    continue
                if len(direct) + len(via) != 1:
                    raise TranslateError('%s.%s.%s: several list calls' % (mod, cls.name, m.name))
                name = '%s.%s.%s' % (mod, cls.name, m.name)
                if direct:
                    call, filt_src = direct[0], m
                    allp_expr = [U(k.value) for k in call.keywords if k.arg == 'all_projects']
                else:
                    hf, call = helpers[via[0].func.id]
                    filt_src = m
                    allp_expr = [U(k.value) for k in call.keywords if k.arg == 'all_projects']
                    if allp_expr:
                        raise TranslateError('%s: helper passes all_projects' % name)
                if len(call.args) < 3 or not U(call.args[2]).startswith('db_api.'):
                    raise TranslateError('%s: db-api list function not recognised' % name)
                dbfn = U(call.args[2])[len('db_api.'):]
                if dbfn not in MODEL_OF_FN:
                    raise TranslateError('%s: unknown db-api list function %s' % (name, dbfn))
                if not any(k.arg is None for k in call.keywords):
                    raise TranslateError('%s: filters are not forwarded as **filters' % name)
                params = [a.arg for a in m.args.args][1:]
                pass_allp = False
                if allp_expr:
                    if allp_expr != ['all_projects'] or 'all_projects' not in params:
                        raise TranslateError('%s: all_projects=%s' % (name, allp_expr))
                    pass_allp = True
                # enforcement
                enf_uncond, enf_cond = [], []
                for s in m.body:
                    if isinstance(s, ast.Expr) and isinstance(s.value, ast.Call) and U(s.value.func) == 'acl.enforce':
                        enf_uncond.append(s.value)
                    elif isinstance(s, ast.If):
                        inner = [x for x in ast.walk(s) if isinstance(x, ast.Call) and U(x.func) == 'acl.enforce']
                        if inner:
                            if s.orelse or len(s.body) != 1 or len(inner) != 1:
                                raise TranslateError('%s: unrecognised conditional enforcement' % name)
                            enf_cond.append((U(s.test), inner[0]))
                    else:
                        for x in ast.walk(s):
                            if isinstance(x, ast.Call) and U(x.func) == 'acl.enforce':
                                raise TranslateError('%s: acl.enforce in an unrecognised position' % name)

                def rule_of(c):
                    if len(c.args) != 2 or not isinstance(c.args[0], ast.Constant) or c.keywords \
                            or U(c.args[1]) not in ('context.ctx()', 'auth_ctx.ctx()'):
                        raise TranslateError('%s: unrecognised acl.enforce(%s)' % (name, U(c)[:60]))
                    r = c.args[0].value
                    if r not in rules:
                        raise TranslateError('%s: enforces unknown rule %s' % (name, r))
                    return r
                if len(enf_uncond) != 1:
                    raise TranslateError('%s: exactly one unconditional acl.enforce expected' % name)
                base_rule = rule_of(enf_uncond[0])
                # the unconditional enforcement must precede the list call
                gate, allp_rule = 'GateNever', None
                if len(enf_cond) > 1:
                    raise TranslateError('%s: several conditional enforcements' % name)
                if enf_cond:
                    test, c = enf_cond[0]
                    gate = {'all_projects': 'GateAllp', 'all_projects or project_id': 'GateAllpOrPid',
                            'project_id or all_projects': 'GateAllpOrPid'}.get(test)
                    if gate is None:
                        raise TranslateError('%s: unrecognised gate `if %s`' % (name, test))
                    allp_rule = rule_of(c)
                # can a project_id filter reach rest_utils.get_all
                cf = [x for x in ast.walk(filt_src) if isinstance(x, ast.Call)
                      and U(x.func).endswith('create_filters_from_request_params')]
                fkeys = sorted({k.arg for x in cf for k in x.keywords if k.arg})
                raw_kwargs = m.args.kwarg is not None
                pass_pid = 'project_id' in fkeys or raw_kwargs
                if 'project_id' in fkeys and 'project_id' not in params:
                    raise TranslateError('%s: project_id filter from an unknown source' % name)
                # the enforcement must come before the data access
                order = [i for i, s in enumerate(m.body) if any(isinstance(x, ast.Call) and U(x.func) == 'acl.enforce' for x in ast.walk(s))]
                site = [i for i, s in enumerate(m.body) if any(x is (direct[0] if direct else via[0]) for x in ast.walk(s))]
                if not site or max(order) > site[0]:
                    raise TranslateError('%s: list call precedes an enforcement' % name)
                eps.append({'name': name, 'model': MODEL_OF_FN[dbfn], 'fn': dbfn, 'rule': base_rule, 'gate': gate,
                            'allp_rule': allp_rule, 'pass_allp': pass_allp, 'pass_pid': pass_pid,
                            'params': params, 'filters': fkeys, 'raw_kwargs': raw_kwargs,
                            'rule_kind': rules[base_rule], 'allp_rule_kind': rules[allp_rule] if allp_rule else 'RAdminOnly'})
    if not eps:
        raise TranslateError('no list endpoint found')
    return eps


def insecure_sites(repo):
    out = []
    for d in SURFACE:
        for dp, dn, fns in os.walk(os.path.join(repo, d)):
            for f in sorted(fns):
                if not f.endswith('.py'):
                    continue
                rel = os.path.relpath(os.path.join(dp, f), repo)
                tree = _parse(repo, rel)
                for n in ast.walk(tree):
                    if isinstance(n, ast.Call) and any(k.arg == 'insecure' for k in n.keywords):
                        out.append('%s:%d %s' % (rel, n.lineno, U(n.func)))
    return sorted(out)


def analyse(repo):
    conds, gfacts = insecure_condition(repo)
    rules, basefacts = policy_rules(repo)
    eps = endpoints(repo, rules)
    return {'insecure_cond': conds, 'endpoints': eps, 'rules': rules,
            'facts': {'rest_utils.get_all': gfacts, 'policy.base': basefacts, 'access_control.enforce': acl_facts(repo)},
            'insecure_sites': insecure_sites(repo)}


def cs(s):
    return '"' + s.replace('"', '""') + '"'


def cb(b):
    return 'true' if b else 'false'


def translate(repo):
    a = analyse(repo)
    out = ['(* GENERATED from %s, %s/*.py, %s/*.py, %s by translate/tr_restlists.py on every run. Do not edit. *)'
           % (REST_UTILS, CONTROLLERS, POLICIES, ACL),
           'From Coq Require Import List String Bool.', 'Require Import Mistral.Model.Tenancy.',
           'Import ListNotations.', 'Open Scope string_scope.', '',
           '(* rest_utils.get_all: insecure = True iff one of these holds *)',
           'Definition insecure_cond : list icond := [%s].' % '; '.join(a['insecure_cond']), '',
           '(* every controller method that lists through rest_utils.get_all *)',
           'Definition rest_lists : list (string * list_ep) := [']
    rows = []
    for e in a['endpoints']:
        rows.append('  (%s, mkListEp %s %s %s %s %s %s %s)' % (
            cs(e['name']), e['model'], cs(e['fn']), e['rule_kind'], e['gate'], e['allp_rule_kind'],
            cb(e['pass_allp']), cb(e['pass_pid'])))
    out.append(';\n'.join(rows))
    out.append('].')
    out.append('')
    out.append('Definition rest_facts : list (string * list string) := [')
    out.append(';\n'.join('  (%s, [%s])' % (cs(k), '; '.join(cs(x) for x in a['facts'][k])) for k in sorted(a['facts'])))
    out.append('].')
    out.append('')
    out.append('(* calls that pass an `insecure` keyword inside mistral/api and mistral/expressions *)')
    out.append('Definition surface_insecure_sites : list string := [%s].' % '; '.join(cs(x) for x in a['insecure_sites']))
    out.append('')
    return '\n'.join(out)
