"""Dump the JSON schemas of the Mistral spec classes (cls.get_schema(), i.e. exactly
what BaseSpec.validate_schema hands to jsonschema.validate) into Gen/Schemas.v as
ASTs of Model/Schema.v. Fail closed: any keyword / value shape outside the subset
the interpreter implements raises TranslateError.

Source: mistral/lang/types.py, mistral/lang/base.py, mistral/lang/v2/*.py (imported
from the repository under check, not parsed)."""
import fractions
import json
import os
import sys

from harness.core import TranslateError

NAME = 'Schemas'

# (module, class) of every concrete spec class that validates a schema
CLASSES = [
    ('workflows', 'WorkflowListSpec'), ('actions', 'ActionListSpec'), ('workbook', 'WorkbookSpec'),
    ('workflows', 'DirectWorkflowSpec'), ('workflows', 'ReverseWorkflowSpec'),
    ('tasks', 'DirectWorkflowTaskSpec'), ('tasks', 'ReverseWorkflowTaskSpec'),
    ('task_defaults', 'TaskDefaultsSpec'), ('policies', 'PoliciesSpec'), ('retry_policy', 'RetrySpec'),
    ('on_clause', 'OnClauseSpec'), ('publish', 'PublishSpec'), ('actions', 'ActionSpec'),
]
NAMED_PATTERNS = {'pat_word': r'^\w+$', 'pat_nonspace': r'^\S+$'}
TYPES = {'null': 'TNull', 'boolean': 'TBool', 'integer': 'TInt', 'number': 'TNum', 'string': 'TStr',
         'array': 'TArr', 'object': 'TObj'}
IGNORED = {'description'}


def cstr(s):
    return '"' + s.replace('"', '""') + '"'


def load_classes(repo):
    from mistral.db.v2 import api as _db_api  # noqa: import order (circular import otherwise)
    import importlib
    import mistral
    if not os.path.realpath(mistral.__file__).startswith(os.path.realpath(repo) + os.sep):
        raise TranslateError('mistral imported from %s, not from %s' % (mistral.__file__, repo))
    out = []
    for mod, cls in CLASSES:
        m = importlib.import_module('mistral.lang.v2.' + mod)
        if not hasattr(m, cls):
            raise TranslateError('class %s.%s not found' % (mod, cls))
        out.append((cls, getattr(m, cls)))
    return out


def collect_patterns(s, acc):
    if not isinstance(s, dict):
        raise TranslateError('schema is not a dict: %r' % (s,))
    for k, v in s.items():
        if k == 'pattern':
            acc.add(v)
        elif k == 'patternProperties':
            for p, sub in v.items():
                acc.add(p)
                collect_patterns(sub, acc)
        elif k in ('properties',):
            for sub in v.values():
                collect_patterns(sub, acc)
        elif k in ('oneOf', 'anyOf'):
            for sub in v:
                collect_patterns(sub, acc)
        elif k in ('not', 'items'):
            collect_patterns(v, acc)
        elif k == 'additionalProperties' and isinstance(v, dict):
            collect_patterns(v, acc)


def jv_of(x):
    if isinstance(x, bool):
        return '(JBool %s)' % ('true' if x else 'false')
    if isinstance(x, str):
        return '(JStr %s)' % cstr(x)
    if isinstance(x, (int, float)):
        f = fractions.Fraction(x)
        return '(JNum (%d)%%Z %d%%positive)' % (f.numerator, f.denominator)
    raise TranslateError('enum value of unsupported type: %r' % (x,))


class Emitter:
    def __init__(self, pat_id):
        self.pat_id = pat_id
        self.memo = {}
        self.defs = []

    def sub(self, s):
        key = json.dumps(s, sort_keys=True, default=repr)
        if key in self.memo:
            return self.memo[key]
        body = self.kws(s)
        name = 's_%d' % len(self.defs)
        self.defs.append('Definition %s : schema := [%s].' % (name, '; '.join(body)))
        self.memo[key] = name
        return name

    def kws(self, s):
        if not isinstance(s, dict):
            raise TranslateError('schema is not a dict: %r' % (s,))
        out = []
        for k in sorted(s):
            v = s[k]
            if k in IGNORED:
                continue
            if k == 'definitions':
                if v != {}:
                    raise TranslateError('non-empty definitions are not supported')
            elif k == 'type':
                if not isinstance(v, str) or v not in TYPES:
                    raise TranslateError('unsupported type: %r' % (v,))
                out.append('KType %s' % TYPES[v])
            elif k == 'enum':
                out.append('KEnum [%s]' % '; '.join(jv_of(x) for x in v))
            elif k in ('minLength', 'minProperties', 'maxProperties', 'minItems'):
                if not isinstance(v, int) or isinstance(v, bool) or v < 0 or (k == 'minLength' and v > 1):
                    raise TranslateError('unsupported %s: %r' % (k, v))
                out.append('%s %d' % ({'minLength': 'KMinLength', 'minProperties': 'KMinProps',
                                       'maxProperties': 'KMaxProps', 'minItems': 'KMinItems'}[k], v))
            elif k == 'minimum':
                if isinstance(v, bool) or not isinstance(v, (int, float)) or v != int(v):
                    raise TranslateError('unsupported minimum: %r' % (v,))
                out.append('KMinimum (%d)%%Z' % int(v))
            elif k == 'pattern':
                out.append('KPattern %d' % self.pat_id[v])
            elif k == 'required':
                if not all(isinstance(x, str) for x in v):
                    raise TranslateError('required: %r' % (v,))
                out.append('KRequired [%s]' % '; '.join(cstr(x) for x in sorted(v)))
            elif k == 'properties':
                out.append('KProps [%s]' % '; '.join('(%s, %s)' % (cstr(p), self.sub(v[p])) for p in v))
            elif k == 'patternProperties':
                out.append('KPatProps [%s]' % '; '.join('(%d, %s)' % (self.pat_id[p], self.sub(v[p])) for p in v))
            elif k == 'additionalProperties':
                names = '[%s]' % '; '.join(cstr(p) for p in s.get('properties', {}))
                pats = '[%s]' % '; '.join(str(self.pat_id[p]) for p in s.get('patternProperties', {}))
                if v is True:
                    continue
                if v is False:
                    out.append('KAddl %s %s None' % (names, pats))
                elif isinstance(v, dict):
                    out.append('KAddl %s %s (Some %s)' % (names, pats, self.sub(v)))
                else:
                    raise TranslateError('additionalProperties: %r' % (v,))
            elif k == 'items':
                if not isinstance(v, dict):
                    raise TranslateError('items must be a schema')
                out.append('KItems %s' % self.sub(v))
            elif k == 'uniqueItems':
                if v is True:
                    out.append('KUnique')
                elif v is not False:
                    raise TranslateError('uniqueItems: %r' % (v,))
            elif k in ('oneOf', 'anyOf'):
                if not isinstance(v, list):
                    raise TranslateError('%s must be a list' % k)
                out.append('%s [%s]' % ('KOneOf' if k == 'oneOf' else 'KAnyOf', '; '.join(self.sub(x) for x in v)))
            elif k == 'not':
                out.append('KNot %s' % self.sub(v))
            else:
                raise TranslateError('unsupported JSON-schema keyword %r' % k)
        return out


def schemas(repo):
    """[(class name, schema dict)] in CLASSES order - also used by the suite."""
    return [(n, c.get_schema()) for n, c in load_classes(repo)]


def pattern_ids(scs):
    pats = set()
    for _, s in scs:
        collect_patterns(s, pats)
    return {p: i for i, p in enumerate(sorted(pats))}


def translate(repo):
    if repo not in sys.path and os.path.realpath(repo) not in [os.path.realpath(p) for p in sys.path if p]:
        sys.path.insert(0, repo)
    scs = schemas(repo)
    pat_id = pattern_ids(scs)
    em = Emitter(pat_id)
    tops = [(n, em.sub(s)) for n, s in scs]
    out = ['(* GENERATED from the spec classes of mistral/lang/v2 (cls.get_schema()) by translate/tr_schemas.py',
           '   on every run. Do not edit. *)',
           'From Coq Require Import List String ZArith.',
           'Require Import Mistral.Model.Jv Mistral.Model.Schema.',
           'Import ListNotations.', 'Open Scope string_scope.', '',
           'Definition patterns : list (nat * string) := [%s].' % '; '.join(
               '(%d, %s)' % (i, cstr(p)) for p, i in sorted(pat_id.items(), key=lambda x: x[1])), '']
    for name, pat in sorted(NAMED_PATTERNS.items()):
        if pat not in pat_id:
            raise TranslateError('pattern %r no longer occurs in the schemas' % pat)
        out.append('Definition %s : nat := %d.' % (name, pat_id[pat]))
    out.append('')
    out += em.defs
    out.append('')
    for n, d in tops:
        out.append('Definition S_%s : schema := %s.' % (n, d))
    out.append('')
    return '\n'.join(out)
