(* Proofs about Model/EnvTree.v over the translated Gen/EnvSites.v (property C09, environment clause). *)
From Coq Require Import List Bool String Arith Lia.
Require Import Mistral.Gen.EnvSites Mistral.Model.EnvTree.
Import ListNotations.
Open Scope string_scope.

(* ------------------------------------------------------------------ *)
(* the translated get_workflow_environment_dict on the executions of a tree *)

(* a root execution reads its own params *)
Lemma env_dict_root : forall i E, get_workflow_environment_dict (mk_root i E) = Some E.
Proof. intros i E. reflexivity. Qed.

(* an execution with a root id reads whatever the linked execution reads *)
Lemma env_dict_linked : forall i p rid r,
  get_workflow_environment_dict (mkExec i p (Some rid) (Some r)) = get_workflow_environment_dict r.
Proof. intros i p rid r. reflexivity. Qed.

(* invariant of a tree: below the root every execution carries a root id and the link to THE root *)
Lemma in_tree_link : forall root d e,
  ex_root_id root = None -> ex_root root = None ->
  in_tree root d e ->
  (d = 0 /\ e = root) \/
  (0 < d /\ ex_root e = Some root /\ ex_root_id e = Some (ex_ident root)).
Proof.
  intros root d e Hid Hlk H.
  induction H as [|d p i own Hp IH].
  - left. split; reflexivity.
  - right. split; [lia|].
    destruct IH as [[_ ->]|[_ [Hr Hi]]]; unfold spawn; cbn [ex_root ex_root_id].
    + rewrite Hid, Hlk. split; reflexivity.
    + rewrite Hr, Hi. split; reflexivity.
Qed.

(* every execution of the tree, at every depth, reads the root's environment through the translated function *)
Lemma env_dict_in_tree : forall i E d e,
  in_tree (mk_root i E) d e -> get_workflow_environment_dict e = Some E.
Proof.
  intros i E d e H.
  destruct (in_tree_link (mk_root i E) d e eq_refl eq_refl H) as [[_ ->]|[_ [Hr Hi]]].
  - apply env_dict_root.
  - destruct e as [j p rid lk]. cbn [ex_root ex_root_id] in Hr, Hi. subst rid lk.
    rewrite env_dict_linked. apply env_dict_root.
Qed.

(* every descendant records the same root (the id the model's link stands for) *)
Lemma root_id_in_tree : forall i E d e,
  in_tree (mk_root i E) (S d) e -> ex_root_id e = Some i /\ ex_root e = Some (mk_root i E).
Proof.
  intros i E d e H.
  destruct (in_tree_link (mk_root i E) (S d) e eq_refl eq_refl H) as [[Hd _]|[_ [Hr Hi]]]; [discriminate|].
  split; assumption.
Qed.

(* ------------------------------------------------------------------ *)
(* the translated site list *)

Lemma sites_all_root_true : sites_all_root = true.
Proof. vm_compute. reflexivity. Qed.

Lemma site_is_root : forall s, In s env_sites -> env_exempt s = false -> site_env s = EnvOfRoot.
Proof.
  intros s Hin Hex.
  pose proof sites_all_root_true as H. unfold sites_all_root in H.
  rewrite forallb_forall in H. specialize (H s Hin). rewrite Hex in H. cbn [orb] in H.
  destruct (site_env s); try discriminate. reflexivity.
Qed.

(* MAIN: every tree depth, every node, every site that is supposed to see the environment *)
Lemma env_root_everywhere : forall i E d e s,
  in_tree (mk_root i E) d e -> In s env_sites -> env_exempt s = false ->
  env_seen s e = Some E.
Proof.
  intros i E d e s Ht Hin Hex. unfold env_seen. rewrite (site_is_root s Hin Hex).
  exact (env_dict_in_tree i E d e Ht).
Qed.

(* the node reached along a path of calls is in the tree, at depth = number of calls *)
Lemma path_in_tree : forall root steps d cur,
  in_tree root d cur -> in_tree root (d + List.length steps) (path cur steps).
Proof.
  intros root steps. induction steps as [|[i own] r IH]; intros d cur H; cbn [path List.length].
  - rewrite Nat.add_0_r. exact H.
  - replace (d + S (List.length r)) with (S d + List.length r) by lia. apply IH. apply it_child. exact H.
Qed.

Lemma node_at_in_tree : forall E steps, in_tree (mk_root 0 E) (List.length steps) (node_at E steps).
Proof. intros E steps. unfold node_at. apply (path_in_tree (mk_root 0 E) steps 0). apply it_root. Qed.

Lemma env_root_on_paths : forall E steps s,
  In s env_sites -> env_exempt s = false -> env_seen s (node_at E steps) = Some E.
Proof. intros E steps s. apply (env_root_everywhere 0 E (List.length steps)). apply node_at_in_tree. Qed.

(* every evaluate caller takes its context from a listed site *)
Lemma uses_resolved_true : uses_resolved = true.
Proof. vm_compute. reflexivity. Qed.

Lemma uses_have_sites : forall u, In u env_uses -> exists s, In s env_sites /\ site_name s = snd u.
Proof.
  intros u Hin. pose proof uses_resolved_true as H. unfold uses_resolved in H.
  rewrite forallb_forall in H. specialize (H u Hin). rewrite existsb_exists in H.
  destruct H as [s [Hs He]]. exists s. split; [exact Hs|]. apply String.eqb_eq. exact He.
Qed.

(* ------------------------------------------------------------------ *)
(* a site that reads the execution's own params (what the shortcut `{'__env': wf_ex.params.get('env', {})}`
   does) sees the child's own environment - {} unless the caller passed one - in every descendant *)

Lemma own_params_site_sees_own : forall s p j own,
  site_env s = EnvOwnParams -> env_seen s (spawn p j own) = Some own.
Proof. intros s p j own Hs. unfold env_seen. rewrite Hs. reflexivity. Qed.

Lemma own_params_site_refuted : forall s i E d p j,
  site_env s = EnvOwnParams -> E <> [] -> in_tree (mk_root i E) d p ->
  in_tree (mk_root i E) (S d) (spawn p j []) /\ env_seen s (spawn p j []) = Some [] /\
  env_seen s (spawn p j []) <> Some E.
Proof.
  intros s i E d p j Hs HE Hp. split; [apply it_child; exact Hp|].
  rewrite (own_params_site_sees_own s p j [] Hs). split; [reflexivity|].
  intro H. injection H as H. apply HE. symmetry. exact H.
Qed.

Lemma own_params_site_refuted_ex :
  exists s E steps, site_env s = EnvOwnParams /\ List.length steps = 1 /\
                    env_seen s (node_at E steps) = Some [] /\ env_seen s (node_at E steps) <> Some E.
Proof.
  exists (mkSite "vars" "mistral/workflow/data_flow.py" "add_workflow_variables_to_context" EnvOwnParams),
         [("region", "eu-west")], [(1, [])].
  repeat split; try reflexivity. vm_compute. discriminate.
Qed.

(* likewise a site without an environment layer sees none, at any depth *)
Lemma no_env_site_sees_none : forall s e, site_env s = EnvNone -> env_seen s e = None.
Proof. intros s e Hs. unfold env_seen. rewrite Hs. reflexivity. Qed.

(* non-vacuity: the translated list has the sites the engine's expressions go through, none of them exempt;
   a depth-3 tree whose middle caller passes its own environment *)
Definition nv_E : env := [("region", "eu-west"); ("tok", "ROOT")].
Definition nv_steps : list (nat * env) := [(1, []); (2, [("tok", "MID")]); (3, [])].

Lemma env_nonvacuous :
  (forall n, In n ["data_flow.add_workflow_variables_to_context"; "data_flow.publish_variables";
                   "data_flow.evaluate_workflow_output"; "tasks.Task.get_expression_context";
                   "tasks.RegularTask._get_target"; "actions.RegularAction.schedule";
                   "direct_workflow.DirectWorkflowController._find_next_tasks"] ->
             exists s, In s env_sites /\ site_name s = n /\ env_exempt s = false /\
                       env_seen s (node_at nv_E nv_steps) = Some nv_E) /\
  ex_params_env (node_at nv_E nv_steps) = Some [] /\
  ex_params_env (node_at nv_E [(1, []); (2, [("tok", "MID")])]) = Some [("tok", "MID")] /\
  List.length env_uses >= 10.
Proof.
  split; [|repeat split; vm_compute; lia].
  assert (Hb : forallb (fun n => existsb (fun s => String.eqb (site_name s) n && negb (env_exempt s)) env_sites)
                 ["data_flow.add_workflow_variables_to_context"; "data_flow.publish_variables";
                  "data_flow.evaluate_workflow_output"; "tasks.Task.get_expression_context";
                  "tasks.RegularTask._get_target"; "actions.RegularAction.schedule";
                  "direct_workflow.DirectWorkflowController._find_next_tasks"] = true) by (vm_compute; reflexivity).
  rewrite forallb_forall in Hb. intros n Hn. specialize (Hb n Hn). rewrite existsb_exists in Hb.
  destruct Hb as [s [Hs Hc]]. apply andb_true_iff in Hc. destruct Hc as [Hname Hex].
  apply String.eqb_eq in Hname. apply negb_true_iff in Hex.
  exists s. repeat split; try assumption. apply env_root_on_paths; assumption.
Qed.
