(* "A join starts at most once per run however many branches trigger it" (C04), at the level of the whole
   engine model, for EVERY program, state, id order and event list without operator reruns:

     a task execution never gets a second action execution - unless it is a join that lies on a cycle of the
     workflow graph (there Task.defer deliberately re-arms it for the next iteration).

   The invariant K: every action execution belongs to an existing task execution; a task execution that has
   an action execution is RUNNING or completed (never IDLE / WAITING again) and has exactly one; no rerun
   request is anywhere (backlog, pending messages, post-commit operations); refresh jobs name existing task
   executions.  It is carried through the mutually recursive dispatch (commands free of rerun requests) and
   through every event.  The only places an action execution is created are the start of an IDLE task, the
   refresh of a task that is neither RUNNING nor completed, and the rerun path; the only place a task
   execution goes back to WAITING is Task.defer, which for a join off every cycle requires that it has no
   action execution.  *)
From Coq Require Import List Bool Arith Lia.
Require Import Mistral.Gen.States Mistral.Model.PySort Mistral.Model.Engine.
Require Import Mistral.Proofs.StatesProofs Mistral.Proofs.EngineMutual Mistral.Proofs.EngineSafety
               Mistral.Proofs.EngineMore Mistral.Proofs.EngineLive Mistral.Proofs.EngineAffected.
Import ListNotations.

Definition nacts (s : st) (tid : nat) : nat := length (filter (fun a => Nat.eqb (a_task a) tid) (acts s)).
(* the task executions the statement is about: all but joins on a cycle *)
Definition guarded (sp : spec) (r : trow) : bool := negb (t_unique r && can_be_reentered sp (t_name r)).

Definition Qc (c : cmd) : bool := match c with CRunExisting _ _ true => false | _ => true end.
Definition Qo (n : nat) (o : op) : bool :=
  match o with OStartTask _ _ true _ => false | OSchedRefresh t => Nat.ltb t n | _ => true end.
Definition Qi (n : nat) (i : item) : bool :=
  match i with
  | IStartTask _ _ true _ => false
  | IRefresh t => Nat.ltb t n
  | IPtq ops => forallb (Qo n) ops
  | _ => true
  end.

Record K (sp : spec) (t : tx) : Prop := {
  K_acts : forall a, In a (acts (fst t)) -> a_task a < length (tasks (fst t));
  K_once : forall tid r, nth_error (tasks (fst t)) tid = Some r -> guarded sp r = true ->
           nacts (fst t) tid <= 1 /\
           (0 < nacts (fst t) tid -> t_state r = RUNNING \/ is_completed (t_state r) = true);
  K_bl : Forall (fun c => Qc c = true) (backlog (fst t));
  K_pend : forallb (Qi (length (tasks (fst t)))) (pend (fst t)) = true;
  K_ops : forallb (Qo (length (tasks (fst t)))) (snd t) = true
}.

(* ------------------------------------------------------------ small facts *)
Lemma Qo_mono n m o : n <= m -> Qo n o = true -> Qo m o = true.
Proof. intros H. destruct o as [? ? r ?| | |t]; simpl; auto. intros Q. apply Nat.ltb_lt in Q. apply Nat.ltb_lt. lia. Qed.

Lemma Qos_mono n m ops : n <= m -> forallb (Qo n) ops = true -> forallb (Qo m) ops = true.
Proof. intros H Q. rewrite forallb_forall in *. intros o Ho. apply (Qo_mono n m o H). apply Q, Ho. Qed.

Lemma Qi_mono n m i : n <= m -> Qi n i = true -> Qi m i = true.
Proof.
  intros H. destruct i as [? ? r ?| | |ops|t]; simpl; auto.
  - apply Qos_mono. exact H.
  - intros Q. apply Nat.ltb_lt in Q. apply Nat.ltb_lt. lia.
Qed.

Lemma Qis_mono n m l : n <= m -> forallb (Qi n) l = true -> forallb (Qi m) l = true.
Proof. intros H Q. rewrite forallb_forall in *. intros o Ho. apply (Qi_mono n m o H). apply Q, Ho. Qed.

Lemma nacts_zero s tid : (forall a, In a (acts s) -> a_task a < length (tasks s)) -> length (tasks s) <= tid -> nacts s tid = 0.
Proof.
  intros H Hl. unfold nacts. assert (E : filter (fun a => Nat.eqb (a_task a) tid) (acts s) = []).
  { induction (acts s) as [|a l IH]; [reflexivity|]. simpl.
    assert (Ea : Nat.eqb (a_task a) tid = false) by (apply Nat.eqb_neq; specialize (H a (or_introl eq_refl)); lia).
    rewrite Ea. apply IH. intros b Hb. apply H. right. exact Hb. }
  rewrite E. reflexivity.
Qed.

Lemma has_execs_nacts s tid : has_execs s tid = false -> nacts s tid = 0.
Proof.
  unfold has_execs, nacts. induction (acts s) as [|a l IH]; [reflexivity|]. simpl. destruct (Nat.eqb (a_task a) tid); [discriminate|]. exact IH.
Qed.

Lemma nth_error_set_nth {A} : forall (l : list A) k x j, nth_error (set_nth k x l) j =
  if Nat.eqb j k then (if Nat.ltb k (length l) then Some x else None) else nth_error l j.
Proof.
  induction l as [|a l IH]; intros k x j.
  - destruct k; simpl; destruct j; simpl; try reflexivity; destruct (Nat.eqb _ _); reflexivity.
  - destruct k as [|k]; destruct j as [|j]; simpl; try reflexivity.
    rewrite IH. change (Nat.ltb (S k) (S (length l))) with (Nat.ltb k (length l)). reflexivity.
Qed.

Lemma get_task_upd s tid r : tid < length (tasks s) -> get_task (upd_task s tid r) tid = r.
Proof.
  intros H. unfold get_task, upd_task. cbn [tasks]. apply nth_error_nth. rewrite nth_error_set_nth, Nat.eqb_refl.
  apply Nat.ltb_lt in H. rewrite H. reflexivity.
Qed.

Lemma find_first_some (p : trow -> bool) : forall l i k, find_first_aux l p i = Some k ->
  i <= k /\ k < i + length l /\ p (nth (k - i) l dummy_trow) = true.
Proof.
  induction l as [|r l IH]; intros i k H; simpl in H; [discriminate|].
  destruct (p r) eqn:Ep.
  - injection H as <-. split; [lia|]. split; [simpl; lia|]. rewrite Nat.sub_diag. exact Ep.
  - apply IH in H. destruct H as [H1 [H2 H3]]. split; [lia|]. split; [simpl; lia|].
    replace (k - i) with (S (k - S i)) by lia. exact H3.
Qed.

Lemma find_join_exec_spec s name ow tid : find_join_exec s name ow = Some tid ->
  tid < length (tasks s) /\ t_name (get_task s tid) = name /\ t_unique (get_task s tid) = true.
Proof.
  unfold find_join_exec. intros H. apply find_first_some in H. destruct H as [_ [H2 H3]]. rewrite Nat.sub_0_r in H3.
  split; [lia|]. unfold get_task. apply andb_true_iff in H3. destruct H3 as [H3 _]. apply andb_true_iff in H3. destruct H3 as [Hn Hu].
  apply Nat.eqb_eq in Hn. split; assumption.
Qed.

(* a state that differs in task-execution fields other than the ones K reads *)
Lemma K_same_rows sp t t' :
  acts (fst t') = acts (fst t) -> backlog (fst t') = backlog (fst t) -> pend (fst t') = pend (fst t) -> snd t' = snd t ->
  length (tasks (fst t')) = length (tasks (fst t)) ->
  (forall tid r', nth_error (tasks (fst t')) tid = Some r' -> exists r, nth_error (tasks (fst t)) tid = Some r /\
      guarded sp r = guarded sp r' /\
      (guarded sp r' = true -> t_state r' = t_state r \/ (nacts (fst t) tid = 0) \/ t_state r' = RUNNING \/ is_completed (t_state r') = true)) ->
  K sp t -> K sp t'.
Proof.
  intros Ha Hb Hp Ho Hl Hr [K1 K2 K3 K4 K5]. constructor.
  - rewrite Ha, Hl. exact K1.
  - intros tid r' Hn Hg. destruct (Hr tid r' Hn) as [r [Hn0 [Eg Hs]]]. specialize (Hs Hg). rewrite <- Eg in Hg.
    destruct (K2 tid r Hn0 Hg) as [Q1 Q2]. unfold nacts in *. rewrite Ha. split; [exact Q1|].
    intros Hpos. destruct Hs as [E|[E|E]]; [rewrite E; apply Q2, Hpos|lia|exact E].
  - rewrite Hb. exact K3.
  - rewrite Hp, Hl. exact K4.
  - rewrite Ho, Hl. exact K5.
Qed.

(* ------------------------------------------------------------ the transaction transformers *)
Section Tx.
Variable sp : spec.

Lemma K_backlog_push t c : Qc c = true -> K sp t -> K sp (backlog_push t c).
Proof.
  intros Hc [K1 K2 K3 K4 K5]. constructor; try assumption. cbn. apply Forall_app. split; [exact K3|]. constructor; [exact Hc|constructor].
Qed.

Lemma K_backlog_clear t : K sp t -> K sp (set_backlog (fst t) [], snd t).
Proof. intros [K1 K2 K3 K4 K5]. constructor; try assumption. constructor. Qed.

Lemma K_add_ops t ops : forallb (Qo (length (tasks (fst t)))) ops = true -> K sp t -> K sp (fst t, snd t ++ ops).
Proof. intros Ho [K1 K2 K3 K4 K5]. constructor; try assumption. cbn [snd fst]. rewrite forallb_app, K5, Ho. reflexivity. Qed.

Lemma K_add_task t r : t_state r = IDLE \/ t_state r = WAITING -> K sp t -> K sp (add_task (fst t) r, snd t).
Proof.
  intros Hs [K1 K2 K3 K4 K5]. constructor; cbn [fst snd add_task tasks acts backlog pend]; rewrite ?app_length; cbn [length].
  - intros a Ha. specialize (K1 a Ha). lia.
  - intros tid r0 Hn Hg. destruct (Nat.lt_ge_cases tid (length (tasks (fst t)))) as [Hl|Hl].
    + rewrite nth_error_app1 in Hn by exact Hl. exact (K2 tid r0 Hn Hg).
    + assert (E : nacts (add_task (fst t) r) tid = 0) by (apply (nacts_zero (fst t) tid K1 Hl)).
      change (nacts (add_task (fst t) r) tid) with (nacts (fst t) tid) in *. rewrite E. split; [lia|]. intros Q. lia.
  - exact K3.
  - apply (Qis_mono (length (tasks (fst t)))); [lia|exact K4].
  - apply (Qos_mono (length (tasks (fst t)))); [lia|exact K5].
Qed.

Lemma K_upd_task t tid r' :
  (tid < length (tasks (fst t)) -> guarded sp r' = guarded sp (get_task (fst t) tid) /\
     (guarded sp r' = true ->
      t_state r' = t_state (get_task (fst t) tid) \/ nacts (fst t) tid = 0 \/ t_state r' = RUNNING \/ is_completed (t_state r') = true)) ->
  K sp t -> K sp (upd_task (fst t) tid r', snd t).
Proof.
  intros H. apply K_same_rows; cbn [fst snd upd_task tasks acts backlog pend]; try reflexivity.
  - apply set_nth_length.
  - intros k r0 Hn. rewrite nth_error_set_nth in Hn. destruct (Nat.eqb k tid) eqn:Ek.
    + apply Nat.eqb_eq in Ek. subst k. destruct (Nat.ltb tid (length (tasks (fst t)))) eqn:El; [|discriminate]. injection Hn as <-.
      apply Nat.ltb_lt in El. destruct (H El) as [Eg Hs]. exists (get_task (fst t) tid). split.
      * unfold get_task. apply List.nth_error_nth'. exact El.
      * split; [symmetry; exact Eg|exact Hs].
    + exists r0. split; [exact Hn|]. split; [reflexivity|intros _; left; reflexivity].
Qed.

Lemma K_task_set_state t tid x :
  (tid < length (tasks (fst t)) -> guarded sp (get_task (fst t) tid) = true -> nacts (fst t) tid = 0 \/ x = RUNNING \/ is_completed x = true) ->
  K sp t -> K sp (task_set_state (fst t) tid x, snd t).
Proof.
  intros H. unfold task_set_state. apply K_upd_task. intros Hl. split; [reflexivity|]. cbn [t_set_state t_state].
  intros Hg. destruct (H Hl Hg) as [E|[E|E]]; auto.
Qed.

Lemma K_defer t name trig : K sp t ->
  K sp (fst (fst (defer sp (fst t) name trig)), snd t) /\
  snd (fst (defer sp (fst t) name trig)) < length (tasks (fst (fst (defer sp (fst t) name trig)))).
Proof.
  intros Hk. unfold defer.
  destruct (find_join_exec (fst t) name true) as [tid|] eqn:E1.
  { destruct (find_join_exec_spec _ _ _ _ E1) as [Hl _]. cbn [fst snd]. split; [destruct t; exact Hk|exact Hl]. }
  destruct (find_join_exec (fst t) name false) as [tid|] eqn:E2.
  - destruct (find_join_exec_spec _ _ _ _ E2) as [Hl [Hn Hu]].
    destruct (is_completed (t_state (get_task (fst t) tid)) && _) eqn:Ec; cbn [fst snd].
    + split; [|unfold task_set_state, upd_task; cbn [tasks]; rewrite set_nth_length; exact Hl].
      apply K_task_set_state; [|exact Hk]. intros _ Hg. left.
      apply andb_true_iff in Ec. destruct Ec as [_ Ec]. apply orb_true_iff in Ec. destruct Ec as [Ec|Ec].
      * apply andb_true_iff in Ec. destruct Ec as [Ec _]. apply negb_true_iff in Ec. apply has_execs_nacts. exact Ec.
      * apply andb_true_iff in Ec. destruct Ec as [Ec _]. unfold guarded in Hg. rewrite Hu, Hn, Ec in Hg. discriminate Hg.
    + split; [destruct t; exact Hk|exact Hl].
  - cbn [fst snd]. split; [|cbn [add_task tasks]; rewrite app_length; simpl; lia]. apply K_add_task; [right; reflexivity|exact Hk].
Qed.

Lemma K_run_task t name waiting trig : K sp t -> K sp (run_task_cmd sp t name waiting trig).
Proof.
  intros Hk. unfold run_task_cmd. destruct waiting.
  - destruct (K_defer t name trig Hk) as [Hd Hl]. destruct (defer sp (fst t) name trig) as [[s1 tid] chk]. cbn [fst snd] in *.
    apply (K_add_ops (s1, snd t)); [|exact Hd]. cbn [fst]. rewrite forallb_app. destruct chk; reflexivity.
  - apply (K_add_ops (add_task (fst t) _, snd t)); [reflexivity|]. apply K_add_task; [left; reflexivity|exact Hk].
Qed.

Lemma K_run_existing t tid reset : K sp t -> K sp (run_existing_cmd t tid reset false).
Proof.
  intros Hk. unfold run_existing_cmd. rewrite !andb_false_r. cbn [andb]. apply (K_add_ops t); [reflexivity|exact Hk].
Qed.

Lemma K_hdr t s1 : hdr_only (fst t) s1 -> K sp t -> K sp (s1, snd t).
Proof.
  intros [->|[x ->]] Hk; [destruct t; exact Hk|]. destruct Hk as [K1 K2 K3 K4 K5]. constructor; assumption.
Qed.
End Tx.

Lemma set_workflow_state_hdr s x s1 : set_workflow_state s x = Some s1 -> hdr_only s s1.
Proof.
  unfold set_workflow_state. destruct (is_completed x); [apply stop_workflow_hdr|].
  destruct (is_paused x); [apply pause_workflow_hdr|discriminate].
Qed.

Section Disp.
Variable sp : spec.

Lemma to_cmd_Qc tid nx : Forall (fun c => Qc c = true) (map (to_cmd sp tid) nx).
Proof. apply Forall_forall. intros c Hc. apply in_map_iff in Hc. destruct Hc as [p [<- _]]. unfold to_cmd. destruct (fst p); reflexivity. Qed.

Lemma K_pre t tid x : is_completed x = true -> K sp t ->
  match complete_pre sp t tid x with
  | PreIgnored t1 | PreRaised t1 => K sp t1
  | PreCmds t1 cmds => K sp t1 /\ Forall (fun c => Qc c = true) cmds
  end.
Proof.
  intros Hx Hk. unfold complete_pre. destruct (_ && _); [exact Hk|].
  assert (H1 : K sp (task_set_state (fst t) tid x, snd t)).
  { apply K_task_set_state; [|exact Hk]. intros _ _. right. right. exact Hx. }
  set (s1 := task_set_state (fst t) tid x) in *.
  destruct (if is_completed (wf_state s1) then Some [] else find_next_tasks sp (get_task s1 tid)) as [nx|]; [|exact H1].
  cbv zeta.
  set (r2 := mkTrow _ x _ _ _ _ _ _ _).
  assert (H2 : K sp (upd_task s1 tid r2, snd t)).
  { apply (K_upd_task sp (s1, snd t)); [|exact H1]. intros _. split; [reflexivity|]. intros _. right. right. right. exact Hx. }
  destruct (is_paused (wf_state (upd_task s1 tid r2))); [exact H2|].
  split; [|apply to_cmd_Qc].
  assert (H3 : K sp (upd_task (upd_task s1 tid r2) tid (t_set_processed r2 true), snd t)).
  { apply (K_upd_task sp (upd_task s1 tid r2, snd t)); [|exact H2]. cbn [fst]. intros Hl.
    rewrite get_task_upd by (unfold upd_task in Hl; cbn [tasks] in Hl; rewrite set_nth_length in Hl; exact Hl).
    split; [reflexivity|]. intros _. right. right. right. exact Hx. }
  destruct (negb _); [|exact H3]. apply (K_add_ops sp (_, snd t)); [reflexivity|exact H3].
Qed.

Lemma rearrange_Qc l : Forall (fun c => Qc c = true) l -> Forall (fun c => Qc c = true) (rearrange l).
Proof. intros H. rewrite Forall_forall in *. intros c Hc. apply H. apply rearrange_incl. exact Hc. Qed.

Lemma dispatch_K : forall fuel,
  (forall t cmds, Forall (fun c => Qc c = true) cmds -> K sp t -> K sp (fst (process_cmds sp fuel t cmds))) /\
  (forall t cmds, Forall (fun c => Qc c = true) cmds -> K sp t -> K sp (fst (dispatch sp fuel t cmds))) /\
  (forall t tid x, is_completed x = true -> K sp t -> K sp (fst (complete_task sp fuel t tid x))).
Proof.
  induction fuel as [|f [IHp [IHd IHc]]].
  - split; [|split]; intros; [rewrite process_cmds_eq|rewrite dispatch_eq|rewrite complete_task_eq]; assumption.
  - assert (Hp : forall t cmds, Forall (fun c => Qc c = true) cmds -> K sp t -> K sp (fst (process_cmds sp (S f) t cmds))).
    { intros t cmds Hq Hk. rewrite process_cmds_eq. destruct cmds as [|c rest]; [exact Hk|]. cbv zeta.
      inversion Hq as [|? ? Hc Hrest]; subst.
      destruct (is_completed (wf_state (fst t))) eqn:Ec; [exact Hk|].
      destruct (state_eqb (wf_state (fst t)) PAUSED) eqn:Ep.
      - apply IHp; [exact Hrest|apply K_backlog_push; assumption].
      - destruct c as [name e waiting trig|tid reset rerun|tid|x|].
        + apply IHp; [exact Hrest|apply K_run_task; exact Hk].
        + destruct rerun; [discriminate Hc|]. apply IHp; [exact Hrest|apply K_run_existing; exact Hk].
        + specialize (IHc t tid SKIPPED eq_refl Hk).
          destruct (complete_task sp f t tid SKIPPED) as [t2 fl] eqn:Ect. cbn [fst] in IHc.
          destruct fl; [apply IHp; assumption|exact IHc].
        + destruct (set_workflow_state (fst t) x) as [s1|] eqn:Es; [|exact Hk].
          apply IHp; [exact Hrest|]. apply K_hdr; [apply (set_workflow_state_hdr _ _ _ Es)|exact Hk].
        + apply IHp; assumption. }
    split; [|split].
    + exact Hp.
    + intros t cmds Hq Hk. rewrite dispatch_eq. cbv zeta. destruct (backlog (fst t)) as [|b bl] eqn:Eb.
      * apply IHp; [apply rearrange_Qc; exact Hq|exact Hk].
      * assert (Hb : Forall (fun c => Qc c = true) (b :: bl)) by (rewrite <- Eb; apply (K_bl _ _ Hk)).
        pose proof (IHp (set_backlog (fst t) [], snd t) (rearrange (b :: bl)) (rearrange_Qc _ Hb) (K_backlog_clear sp t Hk)) as H1.
        destruct (process_cmds sp f (set_backlog (fst t) [], snd t) (rearrange (b :: bl))) as [t1 fl] eqn:E1.
        cbn [fst] in H1. destruct fl; [apply IHp; [apply rearrange_Qc; exact Hq|exact H1]|exact H1].
    + intros t tid x Hx Hk. rewrite complete_task_eq. pose proof (K_pre t tid x Hx Hk) as Hpre.
      destruct (complete_pre sp t tid x) as [t1|t1|t1 cmds]; cbn [fst]; try exact Hpre.
      destruct Hpre as [H1 H2]. apply IHd; assumption.
Qed.
End Disp.

(* ------------------------------------------------------------ the events *)
Section Step.
Variable sp : spec.

Lemma K_commit t : K sp t -> K sp (commit t, []).
Proof.
  intros [K1 K2 K3 K4 K5]. unfold commit. destruct (snd t) as [|o ops] eqn:Eo.
  - constructor; try assumption; reflexivity.
  - constructor; cbn [fst snd add_pend tasks acts backlog pend]; try assumption; try reflexivity.
    rewrite forallb_app, K4. assert (E : Qi (length (tasks (fst t))) (IPtq (o :: ops)) = true) by exact K5.
    change (forallb (Qi (length (tasks (fst t)))) [IPtq (o :: ops)]) with (Qi (length (tasks (fst t))) (IPtq (o :: ops)) && true).
    rewrite E. reflexivity.
Qed.

Lemma find_last_range s n k : find_last_by_name s n = Some k -> k < length (tasks s).
Proof.
  unfold find_last_by_name. destruct (find_last_by_name_aux (tasks s) n 0 None) as [[j u]|] eqn:E; [|discriminate].
  intros H. injection H as <-. apply find_last_aux_name in E. destruct E as [E|[_ [E _]]]; [discriminate|]. lia.
Qed.

Lemma affected_walk_range s : forall f work visited acc,
  (forall x, In x acc -> x < length (tasks s)) -> forall x, In x (affected_walk f sp s work visited acc) -> x < length (tasks s).
Proof.
  induction f as [|f IH]; intros work visited acc Ha; [exact Ha|]. cbn [affected_walk].
  destruct work as [|n rest]; [exact Ha|]. destruct (mem_nat n visited); [apply IH; exact Ha|].
  destruct (if is_join sp n then find_last_by_name s n else None) as [tid|] eqn:Ej; [|apply IH; exact Ha].
  apply IH. destruct (mem_nat tid acc); [exact Ha|]. intros x Hx. apply in_app_or in Hx. destruct Hx as [Hx|[<-|[]]]; [apply Ha, Hx|].
  destruct (is_join sp n); [|discriminate]. apply (find_last_range s n tid Ej).
Qed.

Lemma affected_range s name x : In x (affected sp s name) -> x < length (tasks s).
Proof. unfold affected. apply affected_walk_range. intros ? []. Qed.

Lemma K_check_affected t tid : K sp t -> K sp (check_affected sp t tid).
Proof.
  intros Hk. unfold check_affected. destruct (negb _); [exact Hk|]. destruct (is_completed (wf_state (fst t))); [exact Hk|].
  apply (K_add_ops sp t); [|exact Hk]. rewrite forallb_forall. intros o Ho. apply in_map_iff in Ho. destruct Ho as [x [<- Hx]].
  cbn [Qo]. apply Nat.ltb_lt. apply (affected_range _ _ _ Hx).
Qed.

Lemma K_force_fail t tid : K sp t -> K sp (force_fail (fst t) tid, snd t).
Proof.
  intros Hk. unfold force_fail. cbv zeta.
  set (r' := t_set_state _ ERROR).
  assert (H1 : K sp (upd_task (fst t) tid r', snd t)).
  { apply K_upd_task; [|exact Hk]. intros Hl. split.
    - unfold r', get_task. rewrite (nth_indep _ _ dummy_trow) by exact Hl. reflexivity.
    - intros _. right. right. right. reflexivity. }
  destruct (fail_workflow (upd_task (fst t) tid r')) as [s2|] eqn:E; [|exact H1].
  apply fail_workflow_inv in E. apply (K_hdr sp (upd_task (fst t) tid r', snd t)); [|exact H1].
  destruct E as [->| ->]; [left; reflexivity|right; exists ERROR; reflexivity].
Qed.

Lemma nacts_add s a tid : nacts (add_act s a) tid = nacts s tid + (if Nat.eqb (a_task a) tid then 1 else 0).
Proof. unfold nacts, add_act. cbn [acts]. rewrite filter_app, app_length. cbn [filter]. destruct (Nat.eqb (a_task a) tid); reflexivity. Qed.

(* RegularTask._schedule_actions for a task execution that is RUNNING and has no action execution yet *)
Lemma K_schedule t tid : tid < length (tasks (fst t)) ->
  (guarded sp (get_task (fst t) tid) = true -> nacts (fst t) tid = 0) ->
  t_state (get_task (fst t) tid) = RUNNING ->
  K sp t -> K sp (schedule_action t tid).
Proof.
  intros Hl H0 Hr [K1 K2 K3 K4 K5]. unfold schedule_action. constructor; cbn [fst snd add_act tasks acts backlog pend].
  - intros a Ha. apply in_app_or in Ha. destruct Ha as [Ha|[<-|[]]]; [apply K1, Ha|exact Hl].
  - intros k r Hn Hg. change (mkSt _ _ _ _ _ _ _ _) with (add_act (fst t) (mkArow tid RUNNING false)). rewrite nacts_add. cbn [a_task].
    destruct (K2 k r Hn Hg) as [Q1 Q2]. destruct (Nat.eqb tid k) eqn:Ek.
    + apply Nat.eqb_eq in Ek. subst k.
      assert (Er : get_task (fst t) tid = r) by (unfold get_task; apply nth_error_nth; exact Hn). rewrite Er in *.
      rewrite (H0 Hg). split; [lia|]. intros _. left. exact Hr.
    + rewrite Nat.add_0_r. split; assumption.
  - exact K3.
  - exact K4.
  - rewrite forallb_app, K5. reflexivity.
Qed.

Lemma nacts_reset s tid reset k : nacts (reset_actions s tid reset) k = nacts s k.
Proof.
  unfold nacts, reset_actions. cbn [acts]. induction (acts s) as [|a l IH]; [reflexivity|]. cbn [map filter].
  destruct (Nat.eqb (a_task a) tid && _); cbn [a_task]; destruct (Nat.eqb (a_task a) k); cbn [length]; rewrite IH; reflexivity.
Qed.

Lemma K_reset_actions t tid reset : K sp t -> K sp (reset_actions (fst t) tid reset, snd t).
Proof.
  intros [K1 K2 K3 K4 K5]. constructor; cbn [fst snd reset_actions tasks backlog pend]; try assumption.
  - intros a Ha. cbn [acts] in Ha. apply in_map_iff in Ha. destruct Ha as [b [<- Hb]]. destruct (_ && _); cbn [a_task]; apply K1, Hb.
  - intros k r Hn Hg. change (mkSt _ _ _ _ _ _ _ _) with (reset_actions (fst t) tid reset). rewrite nacts_reset. exact (K2 k r Hn Hg).
Qed.

(* _run_new of an IDLE task / the refresh of a task that is neither RUNNING nor completed *)
Lemma K_start_new t tid : tid < length (tasks (fst t)) ->
  t_state (get_task (fst t) tid) <> RUNNING -> is_completed (t_state (get_task (fst t) tid)) = false ->
  K sp t -> K sp (schedule_action (task_set_state (fst t) tid RUNNING, snd t) tid).
Proof.
  intros Hl Hnr Hnc Hk.
  assert (H0 : guarded sp (get_task (fst t) tid) = true -> nacts (fst t) tid = 0).
  { intros Hg. destruct (K_once _ _ Hk tid (get_task (fst t) tid)) as [_ Q]; [unfold get_task; apply List.nth_error_nth'; exact Hl|exact Hg|].
    destruct (Nat.eq_dec (nacts (fst t) tid) 0) as [E|E]; [exact E|]. destruct Q as [Q|Q]; [lia|contradiction|congruence]. }
  apply K_schedule; cbn [fst].
  - unfold task_set_state, upd_task. cbn [tasks]. rewrite set_nth_length. exact Hl.
  - unfold task_set_state. rewrite get_task_upd by exact Hl. intros Hg. apply H0. exact Hg.
  - unfold task_set_state. rewrite get_task_upd by exact Hl. reflexivity.
  - apply K_task_set_state; [|exact Hk]. intros _ _. right. left. reflexivity.
Qed.

Definition KS (s : st) : Prop := K sp (s, []).

Lemma KS_frame s s' : tasks s' = tasks s -> acts s' = acts s -> backlog s' = backlog s ->
  forallb (Qi (length (tasks s))) (pend s') = true -> KS s -> KS s'.
Proof.
  intros Ht Ha Hb Hp [K1 K2 K3 K4 K5]. constructor; cbn [fst snd] in *; rewrite ?Ht, ?Ha, ?Hb; try assumption.
  intros k r Hn Hg. unfold nacts. rewrite Ha. exact (K2 k r Hn Hg).
Qed.

Lemma KS_start_task s tid f x : KS s -> KS (fst (do_start_task sp s tid f false x)).
Proof.
  intros Hk. unfold do_start_task. destruct (Nat.leb (length (tasks s)) tid) eqn:El; [exact Hk|]. apply Nat.leb_gt in El.
  assert (Hidle : is_idle (t_state (get_task s tid)) = true ->
                  t_state (get_task s tid) <> RUNNING /\ is_completed (t_state (get_task s tid)) = false).
  { unfold is_idle. intros E. destruct (t_state (get_task s tid)); try discriminate E. split; [discriminate|reflexivity]. }
  destruct f; cbn [negb andb fst].
  - destruct (is_idle (t_state (get_task s tid))) eqn:Ei; cbn [fst]; apply K_commit, K_check_affected; [|exact Hk].
    destruct (Hidle eq_refl) as [H1 H2]. apply (K_start_new (s, []) tid El H1 H2 Hk).
  - destruct (is_idle (t_state (get_task s tid))) eqn:Ei; cbn [negb fst].
    + apply K_commit, K_check_affected. destruct (Hidle eq_refl) as [H1 H2]. apply (K_start_new (s, []) tid El H1 H2 Hk).
    + apply K_commit. apply (K_add_ops sp (s, [])); [reflexivity|exact Hk].
Qed.

Lemma nacts_upd_act s aid a k : aid < length (acts s) -> a_task a = a_task (get_act s aid) -> nacts (upd_act s aid a) k = nacts s k.
Proof.
  unfold nacts, upd_act, get_act. cbn [acts]. generalize (acts s). intros l. revert aid.
  induction l as [|b l IH]; intros aid Hl Ha; [simpl in Hl; lia|].
  destruct aid as [|aid]; cbn [set_nth filter nth] in *.
  - rewrite Ha. destruct (Nat.eqb (a_task b) k); reflexivity.
  - destruct (Nat.eqb (a_task b) k); cbn [length]; rewrite (IH aid) by (try (simpl in Hl; lia); exact Ha); reflexivity.
Qed.

Lemma KS_upd_act s aid a : aid < length (acts s) -> a_task a = a_task (get_act s aid) -> KS s -> KS (upd_act s aid a).
Proof.
  intros Hl Ha [K1 K2 K3 K4 K5]. constructor; cbn [fst snd upd_act tasks backlog pend] in *; try assumption.
  - intros b Hb. unfold upd_act in Hb. cbn [acts fst] in Hb. apply In_nth_error in Hb. destruct Hb as [j Hj]. rewrite nth_error_set_nth in Hj.
    destruct (Nat.eqb j aid); [destruct (Nat.ltb aid (length (acts s))); [|discriminate]; injection Hj as <-; rewrite Ha; apply K1; unfold get_act; apply nth_In; exact Hl|].
    apply K1. eapply nth_error_In; exact Hj.
  - intros k r Hn Hg. change (mkSt _ _ _ _ _ _ _ _) with (upd_act s aid a). rewrite (nacts_upd_act s aid a k Hl Ha). exact (K2 k r Hn Hg).
Qed.

Lemma KS_result s aid res : KS s -> KS (fst (do_result sp s aid res)).
Proof.
  intros Hk. unfold do_result. destruct (Nat.leb (length (acts s)) aid) eqn:El; [exact Hk|]. apply Nat.leb_gt in El.
  destruct (is_completed (a_state (get_act s aid))); [exact Hk|]. cbv zeta.
  set (s1 := upd_act s aid _).
  assert (H1 : KS s1) by (apply KS_upd_act; [exact El|reflexivity|exact Hk]).
  assert (Hx : is_completed (state_of_outcome res) = true) by (destruct res; reflexivity).
  pose proof (proj2 (proj2 (dispatch_K sp (FUEL sp s1))) (s1, []) (a_task (get_act s aid)) (state_of_outcome res) Hx H1) as H.
  destruct (complete_task sp (FUEL sp s1) (s1, []) (a_task (get_act s aid)) (state_of_outcome res)) as [t1 fl]. cbn [fst] in H.
  destruct fl; cbn [fst].
  - apply K_commit, K_check_affected, H.
  - apply K_commit. apply (K_force_fail t1). exact H.
Qed.

Lemma KS_refresh s tid : tid < length (tasks s) -> KS s -> KS (fst (do_refresh sp s tid)).
Proof.
  intros Hl Hk. unfold do_refresh. cbv zeta.
  destruct (is_completed (t_state (get_task s tid))) eqn:Ec; [exact Hk|]. cbn [orb].
  destruct (state_eqb (t_state (get_task s tid)) RUNNING) eqn:Er; [exact Hk|].
  destruct (is_completed (wf_state s)); [exact Hk|].
  set (r1 := t_set_trig _ _). set (s1 := upd_task s tid r1).
  assert (H1 : KS s1).
  { apply (K_upd_task sp (s, [])); [|exact Hk]. intros _. split; [reflexivity|]. intros _. left. reflexivity. }
  assert (Hl1 : tid < length (tasks s1)) by (unfold s1, upd_task; cbn [tasks]; rewrite set_nth_length; exact Hl).
  assert (Eg : get_task s1 tid = r1) by (apply get_task_upd; exact Hl).
  unfold refresh_body. destruct (state_eqb (logical_state sp s tid) RUNNING).
  - cbn [fst]. apply K_commit, K_check_affected.
    apply (K_schedule (reset_actions (task_set_state s1 tid RUNNING) tid false, []) tid); cbn [fst].
    + unfold task_set_state, upd_task, reset_actions. cbn [tasks]. rewrite set_nth_length. exact Hl1.
    + change (get_task (reset_actions (task_set_state s1 tid RUNNING) tid false) tid) with (get_task (task_set_state s1 tid RUNNING) tid).
      unfold task_set_state. rewrite get_task_upd by exact Hl1. rewrite nacts_reset. intros Hg.
      change (nacts (upd_task s1 tid (t_set_state (get_task s1 tid) RUNNING)) tid) with (nacts s tid).
      destruct (K_once _ _ Hk tid (get_task s tid)) as [_ Q]; [unfold get_task; apply List.nth_error_nth'; exact Hl|rewrite Eg in Hg; exact Hg|].
      destruct (Nat.eq_dec (nacts s tid) 0) as [E|E]; [exact E|]. cbn [fst] in Q. destruct Q as [Q|Q]; [lia| |congruence].
      rewrite Q in Er. discriminate Er.
    + change (get_task (reset_actions (task_set_state s1 tid RUNNING) tid false) tid) with (get_task (task_set_state s1 tid RUNNING) tid).
      unfold task_set_state. rewrite get_task_upd by exact Hl1. reflexivity.
    + apply (K_reset_actions (task_set_state s1 tid RUNNING, [])). apply (K_task_set_state sp (s1, [])); [|exact H1]. intros _ _. right. left. reflexivity.
  - destruct (state_eqb (logical_state sp s tid) ERROR); [|exact H1].
    pose proof (proj2 (proj2 (dispatch_K sp (FUEL sp s1))) (s1, []) tid ERROR eq_refl H1) as H.
    destruct (complete_task sp (FUEL sp s1) (s1, []) tid ERROR) as [t1 fl]. cbn [fst] in H.
    destruct fl; cbn [fst].
    + apply K_commit, K_check_affected, H.
    + apply K_commit. apply (K_force_fail t1). exact H.
Qed.

Lemma KS_add_pend s i : Qi (length (tasks s)) i = true -> KS s -> KS (add_pend s i).
Proof.
  intros Hi Hk. apply (KS_frame s); try reflexivity; [|exact Hk]. pose proof (K_pend _ _ Hk) as Hp. cbn [fst] in Hp.
  cbn [add_pend pend]. rewrite forallb_app, Hp. cbn [forallb]. rewrite Hi. reflexivity.
Qed.

Lemma KS_hdr s s1 : hdr_only s s1 -> KS s -> KS s1.
Proof. intros H Hk. apply (K_hdr sp (s, []) s1 H Hk). Qed.

Lemma KS_run_ops ops : forall s, forallb (Qo (length (tasks s))) ops = true -> KS s -> KS (run_ops sp s ops).
Proof.
  induction ops as [|o ops IH]; intros s Ho Hk; [exact Hk|]. cbn [forallb] in Ho. apply andb_true_iff in Ho. destruct Ho as [Ho Hos].
  cbn [run_ops]. destruct o as [tid f r x|aid| |tid].
  - apply IH; [exact Hos|]. apply KS_add_pend; [|exact Hk]. destruct r; [discriminate Ho|reflexivity].
  - apply IH; [exact Hos|]. apply KS_add_pend; [reflexivity|exact Hk].
  - destruct (check_and_complete s) as [s'|] eqn:E; [|apply IH; assumption].
    pose proof (check_and_complete_hdr _ _ E) as Hh. apply IH; [rewrite (hdr_only_ntasks _ _ Hh); exact Hos|apply (KS_hdr s); assumption].
  - destruct (has_refresh_job s tid); [apply IH; assumption|]. apply IH; [exact Hos|]. apply KS_add_pend; [exact Ho|exact Hk].
Qed.
End Step.

Lemma remove_first_split' f : forall l it rest, remove_first f l = Some (it, rest) ->
  exists pre post, l = pre ++ it :: post /\ rest = pre ++ post.
Proof.
  induction l as [|i l IH]; intros it rest H; simpl in H; [discriminate|].
  destruct (f i).
  - injection H as <- <-. exists [], l. split; reflexivity.
  - destruct (remove_first f l) as [[y r']|] eqn:E; [|discriminate]. injection H as <- <-.
    destruct (IH _ _ eq_refl) as [pre [post [E1 E2]]]. exists (i :: pre), post. rewrite E1, E2. split; reflexivity.
Qed.

Lemma remove_nth_ptq_split' : forall l n ops rest, remove_nth_ptq n l = Some (ops, rest) ->
  exists pre post, l = pre ++ IPtq ops :: post /\ rest = pre ++ post.
Proof.
  induction l as [|i l IH]; intros n ops rest H; simpl in H; [discriminate|].
  assert (Hgen : forall n', match remove_nth_ptq n' l with Some (o, r') => Some (o, i :: r') | None => None end = Some (ops, rest) ->
            exists pre post, i :: l = pre ++ IPtq ops :: post /\ rest = pre ++ post).
  { intros n' Hn. destruct (remove_nth_ptq n' l) as [[o r']|] eqn:E; [|discriminate]. injection Hn as <- <-.
    destruct (IH _ _ _ E) as [pre [post [E1 E2]]]. exists (i :: pre), post. rewrite E1, E2. split; reflexivity. }
  destruct i; try (apply (Hgen n); exact H).
  destruct n as [|k]; [|apply (Hgen k); exact H].
  injection H as <- <-. exists [], l. split; reflexivity.
Qed.

Section Events.
Variable sp : spec.

(* taking one pending item out *)
Lemma KS_take s pre it post : pend s = pre ++ it :: post -> KS sp s ->
  KS sp (set_pend s (pre ++ post)) /\ Qi (length (tasks s)) it = true.
Proof.
  intros Hp Hk. pose proof (K_pend _ _ Hk) as H. cbn [fst] in H. rewrite Hp, forallb_app in H. apply andb_true_iff in H.
  destruct H as [H1 H2]. cbn [forallb] in H2. apply andb_true_iff in H2. destruct H2 as [H2 H3]. split; [|exact H2].
  apply (KS_frame sp s); try reflexivity; [|exact Hk]. cbn [set_pend pend]. rewrite forallb_app, H1, H3. reflexivity.
Qed.

Lemma K_mark_processed t : K sp t -> K sp (mark_processed (fst t), snd t).
Proof.
  apply K_same_rows; cbn [fst snd mark_processed tasks acts backlog pend]; try reflexivity.
  - apply map_length.
  - intros tid r' Hn. rewrite nth_error_map in Hn. destruct (nth_error (tasks (fst t)) tid) as [r|]; [|discriminate].
    cbn in Hn. injection Hn as <-. exists r. split; [reflexivity|]. destruct (_ && _); split; try reflexivity; intros _; left; reflexivity.
Qed.

Lemma KS_waiting_refresh s : KS sp s -> KS sp (schedule_waiting_refresh s).
Proof.
  intros Hk. unfold schedule_waiting_refresh.
  assert (G : forall l acc, (forall p, In p l -> fst p < length (tasks s)) -> tasks acc = tasks s -> KS sp acc ->
             KS sp (fold_left (fun acc p => if state_eqb (t_state (snd p)) WAITING && negb (has_refresh_job acc (fst p))
                                         then add_pend acc (IRefresh (fst p)) else acc) l acc)).
  { induction l as [|p l IH]; intros acc Hl Ht Ha; [exact Ha|]. cbn [fold_left]. apply IH.
    - intros q Hq. apply Hl. right. exact Hq.
    - destruct (_ && _); [cbn [add_pend tasks]|]; exact Ht.
    - destruct (_ && _); [|exact Ha]. apply KS_add_pend; [|exact Ha]. cbn [Qi]. rewrite Ht. apply Nat.ltb_lt. apply Hl. left. reflexivity. }
  apply G; [|reflexivity|exact Hk]. intros [k r] Hin. apply in_combine_l in Hin. apply in_seq in Hin. cbn [fst]. lia.
Qed.

Lemma tasks_waiting_refresh s : tasks (schedule_waiting_refresh s) = tasks s.
Proof.
  unfold schedule_waiting_refresh.
  assert (G : forall l acc, tasks (fold_left (fun acc p => if state_eqb (t_state (snd p)) WAITING && negb (has_refresh_job acc (fst p))
                                                       then add_pend acc (IRefresh (fst p)) else acc) l acc) = tasks acc).
  { induction l as [|p l IH]; intros acc; [reflexivity|]. cbn [fold_left]. rewrite IH. destruct (_ && _); reflexivity. }
  apply G.
Qed.

Lemma K_continue t cmds : Forall (fun c => Qc c = true) cmds -> K sp t ->
  K sp (fst (continue_workflow sp t cmds)).
Proof.
  intros Hq Hk. unfold continue_workflow.
  assert (H : K sp (fst (continue_workflow_cmds sp t cmds))).
  { unfold continue_workflow_cmds.
    set (cm := filter _ cmds).
    assert (Hcm : Forall (fun c => Qc c = true) cm).
    { apply Forall_forall. intros c Hc. apply filter_In in Hc. destruct Hc as [Hc _]. rewrite Forall_forall in Hq. apply Hq, Hc. }
    pose proof (K_mark_processed t Hk) as Hm.
    assert (Hd : K sp (fst (dispatch sp (FUEL sp (mark_processed (fst t))) (mark_processed (fst t), snd t) cm)))
      by (apply (proj1 (proj2 (dispatch_K sp _))); assumption).
    destruct cm as [|c0 cs]; [|exact Hd]. destruct (backlog (mark_processed (fst t))) as [|b bl]; [|exact Hd].
    destruct (check_and_complete (mark_processed (fst t))) as [s1|] eqn:E; cbn [fst]; [|exact Hm].
    apply (K_hdr sp (mark_processed (fst t), snd t)); [apply check_and_complete_hdr; exact E|exact Hm]. }
  destruct (continue_workflow_cmds sp t cmds) as [t1 fl]. cbn [fst] in H. destruct fl; [|exact H]. cbn [fst].
  destruct H as [K1 K2 K3 K4 K5].
  assert (Hs : KS sp (fst t1)) by (constructor; try assumption; reflexivity).
  pose proof (KS_waiting_refresh (fst t1) Hs) as [W1 W2 W3 W4 W5].
  pose proof (tasks_waiting_refresh (fst t1)) as Et.
  constructor; cbn [fst snd] in *; try assumption. rewrite Et. exact K5.
Qed.

Definition once_ev (e : ev) : bool :=
  match e with
  | ERerun _ _ => false
  | EDup (IStartTask _ _ true _) => false
  | _ => true
  end.

Definition KSI (s : st) : Prop :=
  (wf_created s = false /\ tasks s = [] /\ acts s = [] /\ pend s = [] /\ backlog s = []) \/ (wf_created s = true /\ KS sp s).

Lemma created_commit t : wf_created (commit t) = wf_created (fst t).
Proof. unfold commit. destruct (snd t); reflexivity. Qed.

Lemma more_Qc : forall (unproc : list (nat * trow)) more,
  fold_right (fun p acc => match acc, find_next_tasks sp (snd p) with
                           | Some l, Some m => Some (map (to_cmd sp (fst p)) m ++ l)
                           | _, _ => None end) (Some []) unproc = Some more ->
  Forall (fun c => Qc c = true) more.
Proof.
  induction unproc as [|p l IH]; intros more Em; cbn [fold_right] in Em.
  - injection Em as <-. constructor.
  - destruct (fold_right _ (Some []) l) as [l0|]; [|discriminate].
    destruct (find_next_tasks sp (snd p)) as [m|]; [|discriminate]. injection Em as <-.
    apply Forall_app. split; [apply to_cmd_Qc|apply IH; reflexivity].
Qed.

Lemma KS_step s e : once_ev e = true -> wf_created s = true -> KS sp s -> KS sp (fst (step sp s e)).
Proof.
  intros He Hc Hk.
  destruct e as [|i|n| | |x|tid reset|tid|i|]; cbn [step]; rewrite ?Hc; cbn [negb fst]; try exact Hk.
  - (* EFire *)
    destruct (remove_first (item_eqb i) (pend s)) as [[it rest]|] eqn:Er; [|exact Hk].
    destruct (remove_first_split' _ _ _ _ Er) as [pre [post [Hp ->]]].
    destruct (KS_take s pre it post Hp Hk) as [K0 Hit]. cbv zeta.
    destruct it as [tid f r x|aid|aid res|ops|tid].
    + destruct r; [discriminate Hit|]. apply KS_start_task; exact K0.
    + cbn [fst]. apply KS_add_pend; [reflexivity|].
      apply (KS_frame sp (set_pend s (pre ++ post))); try reflexivity; [|exact K0]. apply (K_pend _ _ K0).
    + pose proof (KS_result sp (set_pend s (pre ++ post)) aid res K0) as H.
      destruct (do_result sp (set_pend s (pre ++ post)) aid res) as [s1 o]. cbn [fst] in *.
      destruct o; cbn [fst]; try exact K0; exact H.
    + exact Hk.
    + cbn [Qi] in Hit. apply Nat.ltb_lt in Hit. apply KS_refresh; [exact Hit|exact K0].
  - (* EFirePtq *)
    destruct (remove_nth_ptq n (pend s)) as [[ops rest]|] eqn:Er; [|exact Hk].
    destruct (remove_nth_ptq_split' _ _ _ _ Er) as [pre [post [Hp ->]]].
    destruct (KS_take s pre (IPtq ops) post Hp Hk) as [K0 Hit]. cbn [fst].
    apply KS_run_ops; [exact Hit|exact K0].
  - (* EPause *)
    destruct (pause_workflow s) as [s1|] eqn:E; cbn [fst]; [|exact Hk].
    apply (KS_hdr sp s); [apply pause_workflow_hdr; exact E|exact Hk].
  - (* EResume *)
    destruct (negb (is_paused_or_idle (wf_state s))); [exact Hk|].
    destruct (wf_set_state s RUNNING) as [s1|] eqn:E; [|exact Hk].
    pose proof (wf_set_state_hdr _ _ _ E) as Hh. cbv zeta.
    destruct (fold_right _ (Some []) _) as [more|] eqn:Em; [|exact Hk].
    match goal with |- context [continue_workflow sp (s1, []) (?idle ++ more)] => set (idl := idle) end.
    assert (Hq : Forall (fun c => Qc c = true) (idl ++ more)).
    { apply Forall_app. split.
      - apply Forall_forall. intros c Hc0. apply in_flat_map in Hc0. destruct Hc0 as [p [_ Hc0]].
        destruct (is_idle _); [destruct Hc0 as [<-|[]]; reflexivity|destruct Hc0].
      - exact (more_Qc _ _ Em). }
    pose proof (K_continue (s1, []) (idl ++ more) Hq (KS_hdr sp s s1 Hh Hk)) as H.
    destruct (continue_workflow sp (s1, []) (idl ++ more)) as [t1 fl]. cbn [fst] in H.
    destruct fl; cbn [fst]; [apply K_commit; exact H|exact Hk].
  - (* EStop *)
    destruct (stop_workflow s x) as [s1|] eqn:E; cbn [fst]; [|exact Hk].
    apply (KS_hdr sp s); [apply (stop_workflow_hdr _ _ _ E)|exact Hk].
  - discriminate He.
  - (* ESkipTask *)
    destruct (Nat.leb (length (tasks s)) tid); [exact Hk|].
    destruct (state_eqb (wf_state s) PAUSED); [exact Hk|].
    destruct (wf_set_state s RUNNING) as [s1|] eqn:E; [|exact Hk].
    pose proof (wf_set_state_hdr _ _ _ E) as Hh. cbv zeta.
    set (s2 := upd_task s1 tid _).
    assert (H2 : KS sp s2).
    { apply (K_upd_task sp (s1, [])); [|apply (KS_hdr sp s s1 Hh Hk)]. intros _. split; [reflexivity|]. intros _. left. reflexivity. }
    assert (Hq : Forall (fun c => Qc c = true) [CSkip tid]) by (constructor; [reflexivity|constructor]).
    pose proof (K_continue (s2, []) [CSkip tid] Hq H2) as H.
    destruct (continue_workflow sp (s2, []) [CSkip tid]) as [t1 fl]. cbn [fst] in H.
    destruct fl; cbn [fst]; [apply K_commit, K_check_affected; exact H|exact Hk].
  - (* EDup *)
    destruct i as [tid f r x|aid|aid res|ops|tid]; cbn [fst]; try exact Hk.
    + destruct r; [discriminate He|]. apply KS_start_task; exact Hk.
    + pose proof (KS_result sp s aid res Hk) as H.
      destruct (do_result sp s aid res) as [s1 o]. cbn [fst] in *. destruct o; cbn [fst]; try exact Hk; exact H.
Qed.

Theorem KSI_step s e : once_ev e = true -> KSI s -> KSI (fst (step sp s e)).
Proof.
  intros He [[Hc [Ht [Ha [Hp Hb]]]]|[Hc Hk]].
  - (* before the start *)
    destruct e as [|i|n| | |x|tid reset|tid|i|]; cbn [step]; rewrite ?Hc; cbn [negb fst]; try (left; repeat split; assumption).
    + (* EStart *)
      set (s0 := mkSt true RUNNING [] [] [] [] (pend s) (uids s)).
      assert (K0 : K sp (s0, [])).
      { constructor; cbn [fst snd s0 tasks acts backlog pend]; try reflexivity.
        - intros a [].
        - intros tid r Hn. destruct tid; discriminate Hn.
        - constructor.
        - rewrite Hp. reflexivity. }
      set (cmds := map (fun n => CRunTask n OnSuccess false None) (start_tasks sp)).
      assert (Hq : Forall (fun c => Qc c = true) cmds).
      { apply Forall_forall. intros c Hc0. apply in_map_iff in Hc0. destruct Hc0 as [n [<- _]]. reflexivity. }
      pose proof (proj1 (proj2 (dispatch_K sp (FUEL sp s0))) (s0, []) cmds Hq K0) as H.
      pose proof (proj1 (proj2 (EngineWf.dispatch_M sp (FUEL sp s0))) (s0, []) cmds) as HM.
      destruct (dispatch sp (FUEL sp s0) (s0, []) cmds) as [t1 fl]. cbn [fst] in H, HM.
      destruct fl; [|left; repeat split; assumption].
      destruct (check_and_complete (fst t1)) as [s2|] eqn:E; cbn [fst]; [|left; repeat split; assumption].
      pose proof (check_and_complete_hdr _ _ E) as Hh. right. split.
      * rewrite created_commit. cbn [fst]. destruct HM as [HM _]. cbn [fst] in HM. destruct Hh as [->|[y ->]]; exact HM.
      * apply K_commit. apply (K_hdr sp t1 s2 Hh H).
    + (* EFire *) rewrite Hp. cbn. left. repeat split; assumption.
    + (* EFirePtq *) rewrite Hp. cbn. left. repeat split; assumption.
    + (* EDup *)
      destruct i as [tid f r x|aid|aid res|ops|tid]; cbn [fst]; try (left; repeat split; assumption).
      * unfold do_start_task. rewrite Ht. cbn. left. repeat split; assumption.
      * unfold do_result. rewrite Ha. cbn. left. repeat split; assumption.
  - right. split; [apply EngineWf.created_monotone; exact Hc|apply KS_step; assumption].
Qed.
End Events.

(* ------------------------------------------------------------ the theorems *)
Lemma KSI_steps sp evs : forall s, forallb once_ev evs = true -> KSI sp s -> KSI sp (steps sp s evs).
Proof.
  induction evs as [|e evs IH]; intros s He Hi; [exact Hi|].
  cbn [forallb] in He. apply andb_true_iff in He. destruct He as [He1 He2].
  unfold steps. cbn [fold_left]. apply IH; [exact He2|apply KSI_step; assumption].
Qed.

(* no task execution - other than a join on a cycle - ever has two action executions, in any run without reruns *)
Theorem once_per_run sp u evs :
  forallb once_ev evs = true ->
  forall tid r, nth_error (tasks (run sp u evs)) tid = Some r -> guarded sp r = true ->
  nacts (run sp u evs) tid <= 1.
Proof.
  intros He tid r Hn Hg.
  assert (Hi : KSI sp (run sp u evs)).
  { rewrite run_steps. apply KSI_steps; [exact He|]. left. repeat split; reflexivity. }
  destruct Hi as [[_ [Ht _]]|[_ Hk]].
  - rewrite Ht in Hn. destruct tid; discriminate Hn.
  - exact (proj1 (K_once _ _ Hk tid r Hn Hg)).
Qed.

(* in the words of the property: a join that is not on a cycle starts at most once per run, however many
   branches trigger it, in whatever order messages, jobs, duplicates, pauses and resumes arrive *)
Corollary join_starts_at_most_once sp u evs :
  forallb once_ev evs = true ->
  forall tid r, nth_error (tasks (run sp u evs)) tid = Some r ->
  is_join sp (t_name r) = true -> can_be_reentered sp (t_name r) = false ->
  nacts (run sp u evs) tid <= 1.
Proof.
  intros He tid r Hn _ Hc. apply (once_per_run sp u evs He tid r Hn). unfold guarded. rewrite Hc, andb_false_r. reflexivity.
Qed.

(* 0 and 1 both route to the partial join 2 (join: one), which routes to 3; both branches trigger it, the second
   after it has completed: one action execution; with every message delivered twice on the way *)
Definition once_demo : spec :=
  [ mkTspec JNone [(TTask 2, GTrue)] [] [] [] [OOk];
    mkTspec JNone [(TTask 2, GTrue)] [] [] [] [OOk];
    mkTspec JOne [(TTask 3, GTrue)] [] [] [] [OOk];
    mkTspec JNone [] [] [] [] [OOk] ].

Definition dup_all (evs : list ev) : list ev :=
  flat_map (fun e => match e with
                     | EFire (IStartTask t f r x) => [e; EDup (IStartTask t f r x)]
                     | EFire (IResult a o) => [e; EDup (IResult a o)]
                     | _ => [e]
                     end) evs.

Example once_demo_ok :
  let evs := dup_all (EStart :: drain_evs once_demo (fst (step once_demo init EStart)) 100) in
  let s := run once_demo [] evs in
  forallb once_ev evs = true /\ can_be_reentered once_demo 2 = false /\ is_join once_demo 2 = true /\
  map t_name (tasks s) = [1; 0; 2; 3] /\ map t_state (tasks s) = [SUCCESS; SUCCESS; SUCCESS; SUCCESS] /\
  map (nacts s) [0; 1; 2; 3] = [1; 1; 1; 1] /\ wf_state s = SUCCESS /\ pend s = [] /\
  (* the join was triggered by both branches *)
  t_trig (get_task s 2) = [1; 0] /\ length evs = 33.
Proof. vm_compute. repeat split; try discriminate. Qed.

(* the exclusion is needed: a join on a cycle (0 -> join 1 -> 2 -> join 1 ...) is deliberately started again on
   the next iteration, its one task execution then has two action executions *)
Definition cyc_demo : spec :=
  [ mkTspec JNone [(TTask 1, GTrue)] [] [] [] [OOk];
    mkTspec JOne [(TTask 2, GTrue)] [] [] [] [OOk; OOk];
    mkTspec JNone [(TTask 1, GTrue)] [] [] [] [OOk; OErr] ].

Example cycle_join_runs_again :
  let evs := EStart :: drain_evs cyc_demo (fst (step cyc_demo init EStart)) 100 in
  let s := run cyc_demo [] evs in
  forallb once_ev evs = true /\ can_be_reentered cyc_demo 1 = true /\
  map t_name (tasks s) = [0; 1; 2; 2] /\ map (guarded cyc_demo) (tasks s) = [true; false; true; true] /\
  map (nacts s) [0; 1; 2; 3] = [1; 2; 1; 1] /\ pend s = [].
Proof. vm_compute. repeat split. Qed.
