(* Proofs about Model/Slice.v (property C14): the workbook slicer returns the
   member as written when no earlier line reads `name:`; and a counterexample
   without that hypothesis (a task named like a later workflow). *)
From Coq Require Import List String Ascii Bool Arith Lia.
Require Import Mistral.Model.Slice.
Import ListNotations.
Open Scope string_scope.

Lemma is_ws_space : is_ws " " = true.
Proof. reflexivity. Qed.

Lemma lead_ws_pad k s : lead_ws (pad k ++ s) = k + lead_ws s.
Proof. induction k as [|k IH]; simpl; [reflexivity|]. rewrite IH. reflexivity. Qed.

Lemma drop_pad_add k n s : drop (k + n) (pad k ++ s) = drop n s.
Proof. induction k as [|k IH]; simpl; auto. Qed.

Lemma drop_pad k s : drop k (pad k ++ s) = s.
Proof. rewrite <- (Nat.add_0_r k) at 1. rewrite drop_pad_add. reflexivity. Qed.

Lemma lstrip_pad k s : lstrip (pad k ++ s) = lstrip s.
Proof. unfold lstrip. rewrite lead_ws_pad, drop_pad_add. reflexivity. Qed.

Lemma strip_pad k s : strip (pad k ++ s) = strip s.
Proof. unfold strip. rewrite lstrip_pad. reflexivity. Qed.

Lemma append_nonempty s t : t <> "" -> is_empty (s ++ t) = false.
Proof. intros H. destruct s; simpl; [destruct t; [congruence|reflexivity]|reflexivity]. Qed.

Lemma rstrip_colon s : rstrip (s ++ ":") = s ++ ":".
Proof.
  induction s as [|c r IH]; [reflexivity|].
  simpl. rewrite IH. rewrite append_nonempty by discriminate. reflexivity.
Qed.

Lemma lstrip_lead0 s : lead_ws s = 0 -> lstrip s = s.
Proof. intros H. unfold lstrip. rewrite H. reflexivity. Qed.

Lemma strip_item k name :
  lead_ws (name ++ ":") = 0 -> strip (pad k ++ name ++ ":") = name ++ ":".
Proof.
  intros H. rewrite strip_pad. unfold strip. rewrite lstrip_lead0 by exact H.
  apply rstrip_colon.
Qed.

Lemma after_section_app sec header secline rest :
  no_line_contains sec header = true -> contains sec secline = true ->
  after_section sec (header ++ secline :: rest) = Some rest.
Proof.
  intros Hh Hs. induction header as [|l header IH]; cbn [app after_section].
  - rewrite Hs. reflexivity.
  - unfold no_line_contains in Hh. cbn [forallb] in Hh. apply andb_true_iff in Hh.
    destruct Hh as [Hl Hr]. apply negb_true_iff in Hl. rewrite Hl. apply IH. exact Hr.
Qed.

Lemma find_item_app item before l rest :
  no_line_is item before = true -> String.eqb item (strip l) = true ->
  find_item item (before ++ l :: rest) = Some (lead_ws l, lstrip l, rest).
Proof.
  intros Hb Hl. induction before as [|b before IH]; cbn [app find_item].
  - rewrite Hl. reflexivity.
  - unfold no_line_is in Hb. cbn [forallb] in Hb. apply andb_true_iff in Hb.
    destruct Hb as [H1 H2]. apply negb_true_iff in H1. rewrite H1. apply IH. exact H2.
Qed.

(* what ends the member: nothing, or a line that is not deeper than the member name *)
Definition tail_ok (k : nat) (after : list string) : Prop :=
  match after with [] => True | a :: _ => ends_member k a = true end.

Lemma body_stops k after : tail_ok k after -> body k after = [].
Proof.
  destruct after as [|a r]; [reflexivity|]. unfold tail_ok, ends_member.
  intros H. apply andb_true_iff in H. destruct H as [H H3].
  apply andb_true_iff in H. destruct H as [H1 H2].
  apply negb_true_iff in H1. apply negb_true_iff in H2.
  cbn [body]. rewrite H1, H2.
  apply Nat.leb_le in H3. destruct (Nat.ltb k (lead_ws a)) eqn:E; [|reflexivity].
  apply Nat.ltb_lt in E. lia.
Qed.

Lemma body_member k bs after :
  forallb body_line_ok bs = true -> tail_ok k after ->
  body k (map (indent_line k) bs ++ after) = bs.
Proof.
  intros Hbs Ht. induction bs as [|b bs IH]; cbn [map app].
  - apply body_stops. exact Ht.
  - cbn [forallb] in Hbs. apply andb_true_iff in Hbs. destruct Hbs as [Hb Hbs].
    specialize (IH Hbs).
    remember (map (indent_line k) bs ++ after)%list as rest eqn:Erest.
    cbn [body]. unfold indent_line.
    destruct (is_empty (strip b)) eqn:Eb.
    + rewrite Eb. rewrite IH. reflexivity.
    + rewrite strip_pad, Eb. rewrite lead_ws_pad.
      destruct (starts_hash (strip b)) eqn:Eh.
      * assert (Hlt : Nat.ltb (k + lead_ws b) k = false) by (apply Nat.ltb_ge; lia).
        rewrite Hlt, drop_pad, IH. reflexivity.
      * unfold body_line_ok in Hb. rewrite Eb, Eh in Hb. cbn [orb] in Hb.
        apply Nat.ltb_lt in Hb.
        assert (Hlt : Nat.ltb k (k + lead_ws b) = true) by (apply Nat.ltb_lt; lia).
        rewrite Hlt, drop_pad, IH. reflexivity.
Qed.

(* Faithful slicing: in a text  header / section line / earlier lines / member at
   indentation k / rest, the slicer returns exactly the member (name line and body,
   de-indented by k) PROVIDED no earlier line of the section reads `name:` and the
   section name does not occur in the header. *)
Theorem slice_faithful :
  forall sec header secline before k m after,
    no_line_contains sec header = true ->
    contains sec secline = true ->
    no_line_is (m_name m ++ ":") before = true ->
    lead_ws (m_name m ++ ":") = 0 ->
    forallb body_line_ok (m_body m) = true ->
    tail_ok k after ->
    slice sec (m_name m ++ ":")
          (header ++ secline :: before ++ render_member k m ++ after)
    = Some (finish ((m_name m ++ ":") :: m_body m)).
Proof.
  intros sec header secline before k m after Hh Hs Hb Hn Hbody Ht.
  unfold slice, slice_lines. rewrite (after_section_app _ _ _ _ Hh Hs).
  unfold render_member. rewrite <- app_comm_cons.
  rewrite (find_item_app (m_name m ++ ":") before (pad k ++ m_name m ++ ":")).
  - cbn [option_map]. rewrite lead_ws_pad, Hn, Nat.add_0_r.
    rewrite lstrip_pad, (lstrip_lead0 _ Hn).
    rewrite (body_member k (m_body m) after Hbody Ht). reflexivity.
  - exact Hb.
  - rewrite (strip_item k _ Hn). apply String.eqb_refl.
Qed.

(* The same statement without the hypothesis on earlier lines is false: a task
   of an earlier workflow that is named like a later workflow is returned instead. *)
Definition f3_header := ["version: '2.0'"; "name: wb"].
Definition f3_before := ["  wf1:"; "    tasks:"; "      wf2:"; "        action: std.noop"].
Definition f3_member := mkMember "wf2" ["  tasks:"; "    t:"; "      action: std.echo output=1"].

Theorem slice_refuted :
  exists sec header secline before k m after,
    no_line_contains sec header = true /\
    contains sec secline = true /\
    lead_ws (m_name m ++ ":") = 0 /\
    forallb body_line_ok (m_body m) = true /\
    tail_ok k after /\
    slice sec (m_name m ++ ":")
          (header ++ secline :: before ++ render_member k m ++ after)
    = Some (finish ["wf2:"; "  action: std.noop"]) /\
    finish ["wf2:"; "  action: std.noop"] <> finish ((m_name m ++ ":") :: m_body m).
Proof.
  exists "workflows:", f3_header, "workflows:", f3_before, 2, f3_member, [].
  repeat split; try reflexivity. vm_compute. discriminate.
Qed.

(* The slicer raises (ValueError in the code) exactly when no line contains the section name. *)
Theorem slice_defined_iff : forall sec item lines,
  slice sec item lines <> None <-> existsb (contains sec) lines = true.
Proof.
  intros sec item lines. unfold slice, slice_lines.
  induction lines as [|l r IH]; cbn [after_section existsb].
  - split; [intros H; exfalso; apply H; reflexivity|discriminate].
  - destruct (contains sec l); cbn [orb].
    + split; [reflexivity|discriminate].
    + exact IH.
Qed.
