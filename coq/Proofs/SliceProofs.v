(* Proofs about Model/Slice.v (property C14): the workbook slicer (as repaired by
   fix 1e28c643) returns the member as written, whatever deeper lines (tasks, inputs,
   texts) the earlier members contain; the witnesses of the old defect as regression facts. *)
From Coq Require Import List String Ascii Bool Arith Lia.
Require Import Mistral.Model.Slice.
Import ListNotations.
Open Scope string_scope.

Lemma is_ws_space : is_ws " " = true.
Proof. reflexivity. Qed.

Lemma lead_ws_pad k s : lead_ws (pad k ++ s) = k + lead_ws s.
Proof. induction k as [|k IH]; simpl; [reflexivity|]. rewrite IH. reflexivity. Qed.

Lemma drop_pad_add k n s : drop (k + n) (pad k ++ s) = drop n s.
Proof. induction k as [|k IH]; simpl; auto. Qed.

Lemma drop_pad k s : drop k (pad k ++ s) = s.
Proof. rewrite <- (Nat.add_0_r k) at 1. rewrite drop_pad_add. reflexivity. Qed.

Lemma lstrip_pad k s : lstrip (pad k ++ s) = lstrip s.
Proof. unfold lstrip. rewrite lead_ws_pad, drop_pad_add. reflexivity. Qed.

Lemma strip_pad k s : strip (pad k ++ s) = strip s.
Proof. unfold strip. rewrite lstrip_pad. reflexivity. Qed.

Lemma append_nonempty s t : t <> "" -> is_empty (s ++ t) = false.
Proof. intros H. destruct s; simpl; [destruct t; [congruence|reflexivity]|reflexivity]. Qed.

Lemma rstrip_colon s : rstrip (s ++ ":") = s ++ ":".
Proof.
  induction s as [|c r IH]; [reflexivity|].
  simpl. rewrite IH. rewrite append_nonempty by discriminate. reflexivity.
Qed.

Lemma lstrip_lead0 s : lead_ws s = 0 -> lstrip s = s.
Proof. intros H. unfold lstrip. rewrite H. reflexivity. Qed.

Lemma strip_item k name :
  lead_ws (name ++ ":") = 0 -> strip (pad k ++ name ++ ":") = name ++ ":".
Proof.
  intros H. rewrite strip_pad. unfold strip. rewrite lstrip_lead0 by exact H.
  apply rstrip_colon.
Qed.

(* what ends the member: nothing, or a line that is not deeper than the member name *)
Definition tail_ok (k : nat) (after : list string) : Prop :=
  match after with [] => True | a :: _ => ends_member k a = true end.

Lemma body_stops k after : tail_ok k after -> body k after = [].
Proof.
  destruct after as [|a r]; [reflexivity|]. unfold tail_ok, ends_member.
  intros H. apply andb_true_iff in H. destruct H as [H H3].
  apply andb_true_iff in H. destruct H as [H1 H2].
  apply negb_true_iff in H1. apply negb_true_iff in H2.
  cbn [body]. rewrite H1, H2.
  apply Nat.leb_le in H3. destruct (Nat.ltb k (lead_ws a)) eqn:E; [|reflexivity].
  apply Nat.ltb_lt in E. lia.
Qed.

Lemma body_member k bs after :
  forallb body_line_ok bs = true -> tail_ok k after ->
  body k (map (indent_line k) bs ++ after) = bs.
Proof.
  intros Hbs Ht. induction bs as [|b bs IH]; cbn [map app].
  - apply body_stops. exact Ht.
  - cbn [forallb] in Hbs. apply andb_true_iff in Hbs. destruct Hbs as [Hb Hbs].
    specialize (IH Hbs).
    remember (map (indent_line k) bs ++ after)%list as rest eqn:Erest.
    cbn [body]. unfold indent_line.
    destruct (is_empty (strip b)) eqn:Eb.
    + rewrite Eb. rewrite IH. reflexivity.
    + rewrite strip_pad, Eb. rewrite lead_ws_pad.
      destruct (starts_hash (strip b)) eqn:Eh.
      * assert (Hlt : Nat.ltb (k + lead_ws b) k = false) by (apply Nat.ltb_ge; lia).
        rewrite Hlt, drop_pad, IH. reflexivity.
      * unfold body_line_ok in Hb. rewrite Eb, Eh in Hb. cbn [orb] in Hb.
        apply Nat.ltb_lt in Hb.
        assert (Hlt : Nat.ltb k (k + lead_ws b) = true) by (apply Nat.ltb_lt; lia).
        rewrite Hlt, drop_pad, IH. reflexivity.
Qed.


Lemma is_content_pad k s : is_content (pad k ++ s) = is_content s.
Proof. unfold is_content. rewrite strip_pad. reflexivity. Qed.

Lemma key_of_pad k s x : lead_ws s = 0 -> key_of s = Some x -> key_of (pad k ++ s) = Some x.
Proof.
  intros H0 Hk. unfold key_of in *. rewrite lstrip_pad.
  destruct (key_main (lstrip s)) as [y|] eqn:E; [exact Hk|].
  unfold key_blank in Hk. rewrite H0 in Hk. discriminate.
Qed.

Lemma key_is_pad k s : lead_ws s = 0 -> key_of s = Some s -> key_is (pad k ++ s) s = true.
Proof.
  intros H0 Hk. unfold key_is. rewrite (key_of_pad k s s H0 Hk). apply String.eqb_refl.
Qed.

Lemma indent_is_eq o k t : indent_is o k = true -> o = Some t -> t = k.
Proof. intros H ->. simpl in H. apply Nat.eqb_eq in H. exact H. Qed.

(* first loop *)
Lemma find_section_app sec top header secline rest acc :
  (acc = Some top \/ (acc = None /\ indent_is (first_indent header) top = true)) ->
  forallb (fun l => negb (is_content l) || negb (key_is l sec && Nat.eqb (lead_ws l) top)) header = true ->
  is_content secline = true -> key_is secline sec = true -> lead_ws secline = top ->
  find_section sec acc (header ++ secline :: rest) = Some (top, rest).
Proof.
  intros Hacc Hh Hc Hk Hl. revert acc Hacc.
  induction header as [|l header IH]; intros acc Hacc; cbn [app find_section].
  - rewrite Hc. cbn [negb]. rewrite Hk.
    assert (Ht : match acc with Some t => t | None => lead_ws secline end = top)
      by (destruct Hacc as [->|[-> _]]; [reflexivity|exact Hl]).
    rewrite Ht, Hl, Nat.eqb_refl. reflexivity.
  - cbn [forallb] in Hh. apply andb_true_iff in Hh. destruct Hh as [Hl1 Hh].
    destruct (is_content l) eqn:Ec; cbn [negb].
    + cbn [negb orb] in Hl1.
      assert (Ht : match acc with Some t => t | None => lead_ws l end = top).
      { destruct Hacc as [->|[-> Hi]]; [reflexivity|].
        cbn [first_indent] in Hi. rewrite Ec in Hi. simpl in Hi. apply Nat.eqb_eq in Hi. exact Hi. }
      rewrite Ht. apply negb_true_iff in Hl1. rewrite Hl1.
      apply (IH Hh). left. reflexivity.
    + apply (IH Hh). destruct Hacc as [->|[-> Hi]]; [left; reflexivity|right; split; [reflexivity|]].
      cbn [first_indent] in Hi. rewrite Ec in Hi. exact Hi.
Qed.

(* second loop *)
Lemma find_member_app item top k before mline rest acc :
  (acc = Some k \/ (acc = None /\ indent_is (first_indent before) k = true)) ->
  forallb (fun l => negb (is_content l) ||
                    (Nat.ltb top (lead_ws l) && negb (key_is l item && Nat.eqb (lead_ws l) k))) before = true ->
  is_content mline = true -> key_is mline item = true -> lead_ws mline = k -> top < k ->
  find_member item top acc (before ++ mline :: rest) = Found k (lstrip mline) rest.
Proof.
  intros Hacc Hb Hc Hk Hl Hlt. revert acc Hacc.
  induction before as [|l before IH]; intros acc Hacc; cbn [app find_member].
  - rewrite Hc. cbn [negb]. rewrite Hl.
    assert (Hle : Nat.leb k top = false) by (apply Nat.leb_gt; exact Hlt). rewrite Hle, Hk.
    assert (Ht : match acc with Some m => m | None => k end = k) by (destruct Hacc as [->|[-> _]]; reflexivity).
    rewrite Ht, Nat.eqb_refl. reflexivity.
  - cbn [forallb] in Hb. apply andb_true_iff in Hb. destruct Hb as [Hl1 Hb].
    destruct (is_content l) eqn:Ec; cbn [negb].
    + cbn [negb orb] in Hl1. apply andb_true_iff in Hl1. destruct Hl1 as [Hdeep Hnot].
      apply Nat.ltb_lt in Hdeep.
      assert (Hle : Nat.leb (lead_ws l) top = false) by (apply Nat.leb_gt; exact Hdeep). rewrite Hle.
      assert (Ht : match acc with Some m => m | None => lead_ws l end = k).
      { destruct Hacc as [->|[-> Hi]]; [reflexivity|].
        cbn [first_indent] in Hi. rewrite Ec in Hi. simpl in Hi. apply Nat.eqb_eq in Hi. exact Hi. }
      rewrite Ht. apply negb_true_iff in Hnot. rewrite Hnot.
      apply (IH Hb). left. reflexivity.
    + apply (IH Hb). destruct Hacc as [->|[-> Hi]]; [left; reflexivity|right; split; [reflexivity|]].
      cbn [first_indent] in Hi. rewrite Ec in Hi. exact Hi.
Qed.

(* Faithful slicing, new algorithm: in a text  header / section line at the top indentation /
   earlier lines of the section / member at indentation k / rest, the slicer returns exactly
   the member (name line and body, de-indented by k).  The earlier lines may contain ANY deeper
   lines - a task named like the member, texts mentioning the section name - the only
   requirements are the shape of a YAML mapping: they are inside the section (deeper than the
   section key), the members among them are at indentation k, and none of these is the key
   `name:` itself (duplicate keys). *)
Theorem slice_faithful :
  forall sec header secline before top k m after,
    header_ok sec top header = true ->
    is_content secline = true -> key_is secline sec = true -> lead_ws secline = top ->
    before_ok (m_name m ++ ":") top k before = true ->
    top < k ->
    is_content (m_name m ++ ":") = true ->
    lead_ws (m_name m ++ ":") = 0 ->
    key_of (m_name m ++ ":") = Some (m_name m ++ ":") ->
    forallb body_line_ok (m_body m) = true ->
    tail_ok k after ->
    slice sec (m_name m ++ ":")
          (header ++ secline :: before ++ render_member k m ++ after)
    = Some (finish ((m_name m ++ ":") :: m_body m)).
Proof.
  intros sec header secline before top k m after Hh Hsc Hsk Hsl Hb Hlt Hmc Hm0 Hmk Hbody Ht.
  unfold header_ok in Hh. apply andb_true_iff in Hh. destruct Hh as [Hh1 Hh2].
  unfold before_ok in Hb. apply andb_true_iff in Hb. destruct Hb as [Hb1 Hb2].
  unfold slice, slice_lines.
  rewrite (find_section_app sec top header secline _ None (or_intror (conj eq_refl Hh1)) Hh2 Hsc Hsk Hsl).
  unfold render_member. rewrite <- app_comm_cons.
  rewrite (find_member_app (m_name m ++ ":") top k before (pad k ++ m_name m ++ ":") _ None
             (or_intror (conj eq_refl Hb1)) Hb2).
  - cbn [option_map]. rewrite lstrip_pad, (lstrip_lead0 _ Hm0).
    rewrite (body_member k (m_body m) after Hbody Ht). reflexivity.
  - rewrite is_content_pad. exact Hmc.
  - apply key_is_pad; assumption.
  - rewrite lead_ws_pad, Hm0. apply Nat.add_0_r.
  - exact Hlt.
Qed.

(* The documents on which the slicer of the unrepaired code returned a wrong text
   (a task named like a later workflow; a quoted member name; `workflows :`; the section
   name inside a description) are now cut correctly. *)
Definition f3_lines := ["version: '2.0'"; "name: wb"; "workflows:"; "  wf1:"; "    tasks:"; "      wf2:";
                        "        action: std.noop"; "  wf2:"; "    tasks:"; "      t:"; "        action: std.echo output=1"].
Definition quoted_lines := ["version: '2.0'"; "name: wb"; "description: 'my workflows: are here'"; "workflows :";
                            "  'wf1' : # c"; "    tasks:"; "      t:"; "        action: std.noop"; "actions:"; "  wf1: {base: std.noop}"].

Theorem slice_regression :
  slice "workflows:" "wf2:" f3_lines = Some (finish ["wf2:"; "  tasks:"; "    t:"; "      action: std.echo output=1"]) /\
  slice "workflows:" "wf1:" quoted_lines = Some (finish ["'wf1' : # c"; "  tasks:"; "    t:"; "      action: std.noop"]) /\
  slice "actions:" "wf1:" quoted_lines = Some (finish ["wf1: {base: std.noop}"]).
Proof. vm_compute. auto. Qed.

(* The slicer raises (ValueError in the code) exactly when no content line is the section key at
   the top indentation; in particular never when such a line exists. *)
Theorem slice_defined : forall sec item header secline rest top,
  header_ok sec top header = true ->
  is_content secline = true -> key_is secline sec = true -> lead_ws secline = top ->
  slice sec item (header ++ secline :: rest) <> None.
Proof.
  intros sec item header secline rest top Hh Hc Hk Hl.
  unfold header_ok in Hh. apply andb_true_iff in Hh. destruct Hh as [Hh1 Hh2].
  unfold slice, slice_lines.
  rewrite (find_section_app sec top header secline rest None (or_intror (conj eq_refl Hh1)) Hh2 Hc Hk Hl).
  discriminate.
Qed.
