(* Proofs about Model/Sched.v (default scheduler protocol): history invariant `good`
   (not early, only committed jobs run, rolled back jobs never run). *)
From Coq Require Import List NArith Bool Arith Lia ZifyBool ZifyNat ZifyN Permutation.
Require Import Mistral.Model.Sched Mistral.Proofs.SchedLists.
Import ListNotations.
Open Scope N_scope.

(* ---- store operations ---- *)

Lemma opt_eqb_eq : forall a b, opt_eqb a b = true <-> a = b.
Proof.
  destruct a, b; simpl; split; intros H; try discriminate; auto.
  - apply N.eqb_eq in H. congruence.
  - inversion H. apply N.eqb_refl.
Qed.

Lemma row_matches_spec : forall j e r, row_matches j e r = true <-> rid r = j /\ rcap r = e.
Proof.
  intros. unfold row_matches. rewrite andb_true_iff, Nat.eqb_eq, opt_eqb_eq. tauto.
Qed.

Lemma cas_some : forall s j e t s', cas s j e t = Some s' ->
  (exists r, In r s /\ rid r = j /\ rcap r = e) /\
  s' = map (fun r => if row_matches j e r then mkRow (rid r) (rexec r) (Some t) (rkey r) else r) s.
Proof.
  unfold cas. intros s j e t s' H.
  destruct (existsb (row_matches j e) s) eqn:E; try discriminate.
  inversion H; subst. split; auto.
  apply existsb_exists in E. destruct E as [r [Hr Hm]]. apply row_matches_spec in Hm.
  exists r. tauto.
Qed.

Lemma cas_none : forall s j e t, cas s j e t = None -> forall r, In r s -> rid r = j -> rcap r <> e.
Proof.
  unfold cas. intros s j e t H r Hr Hj He.
  destruct (existsb (row_matches j e) s) eqn:E; try discriminate.
  assert (existsb (row_matches j e) s = true) as X.
  { apply existsb_exists. exists r. split; auto. apply row_matches_spec. auto. }
  congruence.
Qed.

Lemma cas_ids : forall s j e t s', cas s j e t = Some s' -> map rid s' = map rid s.
Proof.
  intros s j e t s' H. apply cas_some in H. destruct H as [_ H]. subst.
  rewrite map_map. apply map_ext. intros r. destruct (row_matches j e r); auto.
Qed.

(* every row after a cas comes from a row before it: same id, execute_at, key *)
Lemma cas_In : forall s j e t s' r', cas s j e t = Some s' -> In r' s' ->
  exists r, In r s /\ rid r' = rid r /\ rexec r' = rexec r /\ rkey r' = rkey r /\
            ((r' = r /\ ~ (rid r = j /\ rcap r = e)) \/ (rid r = j /\ rcap r = e /\ rcap r' = Some t)).
Proof.
  intros s j e t s' r' H Hin. apply cas_some in H. destruct H as [_ H]. subst.
  apply in_map_iff in Hin. destruct Hin as [r [Hr Hin]]. exists r. split; auto.
  destruct (row_matches j e r) eqn:E; subst; simpl.
  - apply row_matches_spec in E. intuition.
  - repeat split; auto. left. split; auto. intro X. apply row_matches_spec in X. congruence.
Qed.

(* every row before a cas has an image after it *)
Lemma cas_In_fwd : forall s j e t s' r, cas s j e t = Some s' -> In r s ->
  (~ (rid r = j /\ rcap r = e) /\ In r s') \/
  (rid r = j /\ rcap r = e /\ In (mkRow (rid r) (rexec r) (Some t) (rkey r)) s').
Proof.
  intros s j e t s' r H Hin. apply cas_some in H. destruct H as [_ H]. subst.
  destruct (row_matches j e r) eqn:E.
  - right. pose proof E as E'. apply row_matches_spec in E'. destruct E' as [E1 E2].
    repeat split; auto. apply in_map_iff. exists r. rewrite E. auto.
  - left. split. intro X. apply row_matches_spec in X. congruence.
    apply in_map_iff. exists r. rewrite E. auto.
Qed.

Lemma del_row_In : forall s j r, In r (del_row s j) <-> In r s /\ rid r <> j.
Proof.
  intros. unfold del_row. rewrite filter_In, negb_true_iff, Nat.eqb_neq. tauto.
Qed.

Lemma has_row_true : forall s j, has_row s j = true <-> exists r, In r s /\ rid r = j.
Proof.
  intros. unfold has_row. rewrite existsb_exists. split; intros [r [H1 H2]]; exists r; split; auto.
  apply Nat.eqb_eq; auto. apply Nat.eqb_eq; auto.
Qed.

Lemma has_row_false : forall s j, has_row s j = false -> forall r, In r s -> rid r <> j.
Proof.
  intros s j H r Hr Hj. assert (has_row s j = true) as X. { apply has_row_true. eauto. } congruence.
Qed.

Lemma eligible_spec : forall c t r, eligible c t r = true <->
  rexec r + pickup c < t /\ (forall x, rcap r = Some x -> x + timeout c <= t).
Proof.
  intros. unfold eligible. rewrite andb_true_iff, N.ltb_lt. destruct (rcap r).
  - rewrite N.leb_le. split; intros [H1 H2]; split; auto. intros x Hx. inversion Hx; subst; auto.
  - split; intros [H1 H2]; split; auto. intros; discriminate.
Qed.

Lemma candidates_In : forall c t ord s r, In r (candidates c t ord s) -> In r s /\ eligible c t r = true.
Proof.
  unfold candidates. intros c t ord s r H. apply In_take in H. apply In_isort in H.
  apply filter_In in H. auto.
Qed.

Lemma candidates_all : forall c t ord s r, batch c = None -> In r s -> eligible c t r = true ->
  In r (candidates c t ord s).
Proof.
  unfold candidates. intros c t ord s r Hb Hr He. rewrite Hb. simpl.
  apply In_isort. apply filter_In. auto.
Qed.

Lemma NoDup_map_filter : forall {A B} (f : A -> B) (g : A -> bool) l, NoDup (map f l) -> NoDup (map f (filter g l)).
Proof.
  intros. eapply Sub_NoDup. 2: exact H. apply Sub_map. apply Sub_filter.
Qed.

Lemma del_row_ids : forall s j, NoDup (map rid s) -> NoDup (map rid (del_row s j)).
Proof. intros. unfold del_row. apply NoDup_map_filter. auto. Qed.

(* ---- holders of a state ---- *)

Notation F := (flat_map pjobs).

Lemma perm_F_nth : forall k (P : list poll) p, nth_error P k = Some p ->
  Permutation (F P) (pjobs p ++ F (remove_nth k P)).
Proof.
  intros k P p H. apply perm_nth in H. apply (Permutation_flat_map pjobs) in H. exact H.
Qed.

Lemma perm_F_set : forall k (P : list poll) p p', nth_error P k = Some p ->
  Permutation (F (set_nth k p' P)) (pjobs p' ++ F (remove_nth k P)).
Proof.
  intros k P p p' H. eapply perm_set_nth with (y := p') in H.
  apply (Permutation_flat_map pjobs) in H. exact H.
Qed.

Lemma perm_F_put : forall k (P : list poll) p p', nth_error P k = Some p ->
  Permutation (F (put_poll k p' P)) (pjobs p' ++ F (remove_nth k P)).
Proof.
  intros k P p p' H. unfold put_poll. destruct (finished p') eqn:E.
  - unfold finished in E. destruct (psel p'); try discriminate. destruct (pjobs p'); try discriminate.
    simpl. apply Permutation_refl.
  - eapply perm_F_set; eauto.
Qed.

(* holders seen from poll k / worker k: that thread's jobs first, then everybody else's *)
Definition others_p (st : state) (k : nat) : list holder :=
  map wh (workers st) ++ F (remove_nth k (polls st)).
Definition others_w (st : state) (k : nat) : list holder :=
  map wh (remove_nth k (workers st)) ++ F (polls st).

Lemma holders_poll : forall st k p, nth_error (polls st) k = Some p ->
  Permutation (holders st) (pjobs p ++ others_p st k).
Proof.
  intros st k p H. unfold holders, others_p.
  eapply perm_trans. apply Permutation_app_head. eapply perm_F_nth; eauto.
  rewrite !app_assoc. apply Permutation_app_tail. apply Permutation_app_comm.
Qed.

Lemma holders_put : forall W k (P : list poll) p p', nth_error P k = Some p ->
  Permutation (map wh W ++ F (put_poll k p' P)) (pjobs p' ++ (map wh W ++ F (remove_nth k P))).
Proof.
  intros W k P p p' H.
  eapply perm_trans. apply Permutation_app_head. eapply perm_F_put; eauto.
  rewrite !app_assoc. apply Permutation_app_tail. apply Permutation_app_comm.
Qed.

Lemma holders_worker : forall st k w, nth_error (workers st) k = Some w ->
  Permutation (holders st) (wh w :: others_w st k).
Proof.
  intros st k w H. unfold holders, others_w.
  apply perm_nth in H. apply (Permutation_map wh) in H. simpl in H.
  change (wh w :: map wh (remove_nth k (workers st)) ++ F (polls st))
    with ((wh w :: map wh (remove_nth k (workers st))) ++ F (polls st)).
  apply Permutation_app_tail. exact H.
Qed.

Lemma holders_set_worker : forall (W : list worker) k w w' (P : list poll), nth_error W k = Some w ->
  Permutation (map wh (set_nth k w' W) ++ F P) (wh w' :: (map wh (remove_nth k W) ++ F P)).
Proof.
  intros W k w w' P H. eapply perm_set_nth with (y := w') in H. apply (Permutation_map wh) in H. simpl in H.
  change (wh w' :: map wh (remove_nth k W) ++ F P) with ((wh w' :: map wh (remove_nth k W)) ++ F P).
  apply Permutation_app_tail. exact H.
Qed.

Lemma F_app : forall (P Q : list poll), F (P ++ Q) = F P ++ F Q.
Proof. intros. apply flat_map_app. Qed.

(* ---- the history invariant ---- *)

Definition sched_at (st : state) (j : jid) (e : N) : Prop :=
  exists s d, In (mkJ j s d) (jobs st) /\ e = s + d.
Definition due (st : state) (j : jid) : Prop :=
  exists s d, In (mkJ j s d) (jobs st) /\ s + d <= now st.
Definition ready (st : state) (j : jid) : Prop := In j (committed st) /\ due st j.

Record good (st : state) : Prop := mkGood {
  g_jobs : map jj (jobs st) = seq 0 (next st);
  g_store_sched : forall r, In r (store st) -> sched_at st (rid r) (rexec r);
  g_pend_sched : forall tx r, In (tx, r) (pend st) -> sched_at st (rid r) (rexec r);
  g_heap : forall i j e, In (i, j, e) (heap st) -> sched_at st j e;
  g_pool : forall i j, In (i, j) (pool st) -> due st j;
  g_hold : forall h, In h (holders st) -> ready st (hj h);
  g_cand : forall p cd, In p (polls st) -> In cd (psel p) -> ready st (cj cd);
  g_log : forall e, In e (log st) ->
          In (ej e) (committed st) /\ exists s d, In (mkJ (ej e) s d) (jobs st) /\ s + d <= et e;
  g_store_comm : forall r, In r (store st) -> In (rid r) (committed st);
  g_pend_fresh : forall tx r, In (tx, r) (pend st) ->
          ~ In (rid r) (committed st) /\ ~ In (rid r) (rolled st) /\ (rid r < next st)%nat;
  g_ids : forall j, In j (committed st) \/ In j (rolled st) -> (j < next st)%nat;
  g_nodup_store : NoDup (map rid (store st));
  g_nodup_pend : NoDup (map (fun p => rid (snd p)) (pend st));
  g_disj : forall j, In j (rolled st) -> ~ In j (committed st)
}.

Lemma good_init : good init.
Proof.
  constructor; simpl; try (intros; tauto); try constructor.
Qed.

Lemma tx_rows_In : forall tx p r, In r (tx_rows tx p) <-> In (tx, r) p.
Proof.
  intros. unfold tx_rows. rewrite in_map_iff. split.
  - intros [[t r'] [H1 H2]]. simpl in H1. subst. apply filter_In in H2. destruct H2 as [H2 H3].
    simpl in H3. apply Nat.eqb_eq in H3. subst. auto.
  - intros H. exists (tx, r). split; auto. apply filter_In. split; auto. simpl. apply Nat.eqb_refl.
Qed.

Lemma tx_others_In : forall tx p t r, In (t, r) (tx_others tx p) <-> In (t, r) p /\ t <> tx.
Proof.
  intros. unfold tx_others. rewrite filter_In. simpl. rewrite negb_true_iff, Nat.eqb_neq. tauto.
Qed.

Lemma due_mono : forall st st' j, jobs st' = jobs st -> now st <= now st' -> due st j -> due st' j.
Proof.
  unfold due. intros st st' j Hj Hn [s [d [H1 H2]]]. exists s, d. rewrite Hj. split; auto. lia.
Qed.

Ltac gsimpl := unfold ready, due, sched_at in *; simpl in *.

Lemma seq_last : forall n, seq 0 (S n) = seq 0 n ++ [n].
Proof. intros. rewrite seq_S. reflexivity. Qed.

Lemma good_step : forall c st s, good st -> good (step c st s).
Proof.
  intros c st s G. destruct G.
  destruct s; simpl.
  - (* Tick *)
    constructor; gsimpl; auto.
    + intros i j Hin. destruct (g_pool0 i j Hin) as [s [dd [H1 H2]]]. exists s, dd. split; auto. lia.
    + intros h Hin. destruct (g_hold0 h Hin) as [Hc [s [dd [H1 H2]]]]. split; auto. exists s, dd. split; auto. lia.
    + intros p cd Hp Hc. destruct (g_cand0 p cd Hp Hc) as [Hcm [s [dd [H1 H2]]]]. split; auto. exists s, dd. split; auto. lia.
  - (* Persist *)
    constructor; gsimpl.
    + change (0%nat :: seq 1 (next st)) with (seq 0 (S (next st))). rewrite map_app, g_jobs0, seq_last. reflexivity.
    + intros r Hr. destruct (g_store_sched0 r Hr) as [s [dd [H1 H2]]]. exists s, dd. rewrite in_app_iff. auto.
    + intros tx0 r Hr. apply in_app_iff in Hr. destruct Hr as [Hr|Hr].
      * destruct (g_pend_sched0 tx0 r Hr) as [s [dd [H1 H2]]]. exists s, dd. rewrite in_app_iff. auto.
      * simpl in Hr. destruct Hr as [Hr|[]]. inversion Hr; subst. simpl.
        exists (now st), delay. rewrite in_app_iff. simpl. auto.
    + intros i0 j e Hin. apply in_app_iff in Hin. destruct Hin as [Hin|Hin].
      * destruct (g_heap0 i0 j e Hin) as [s [dd [H1 H2]]]. exists s, dd. rewrite in_app_iff. auto.
      * simpl in Hin. destruct Hin as [Hin|[]]. inversion Hin; subst.
        exists (now st), delay. rewrite in_app_iff. simpl. auto.
    + intros i0 j Hin. destruct (g_pool0 i0 j Hin) as [s [dd [H1 H2]]]. exists s, dd. rewrite in_app_iff. auto.
    + intros h Hin. destruct (g_hold0 h Hin) as [Hc [s [dd [H1 H2]]]]. split; auto. exists s, dd. rewrite in_app_iff. auto.
    + intros p cd Hp Hc. destruct (g_cand0 p cd Hp Hc) as [Hcm [s [dd [H1 H2]]]]. split; auto. exists s, dd. rewrite in_app_iff. auto.
    + intros e Hin. destruct (g_log0 e Hin) as [Hc [s [dd [H1 H2]]]]. split; auto. exists s, dd. rewrite in_app_iff. auto.
    + auto.
    + intros tx0 r Hr. apply in_app_iff in Hr. destruct Hr as [Hr|Hr].
      * destruct (g_pend_fresh0 tx0 r Hr) as [H1 [H2 H3]]. repeat split; auto.
      * simpl in Hr. destruct Hr as [Hr|[]]. inversion Hr; subst. simpl.
        repeat split; try lia; intro X; [assert (next st < next st)%nat by (apply g_ids0; auto)
                                       | assert (next st < next st)%nat by (apply g_ids0; auto)]; lia.
    + intros j Hj. apply g_ids0 in Hj. lia.
    + auto.
    + rewrite map_app. simpl. apply NoDup_app_intro; auto.
      * constructor; auto. constructor.
      * intros x Hx [Hy|[]]. subst. apply in_map_iff in Hx. destruct Hx as [[t r] [E Hin]]. simpl in E.
        destruct (g_pend_fresh0 t r Hin) as [_ [_ H3]]. lia.
    + auto.
  - (* Commit *)
    constructor; gsimpl; auto.
    + intros r Hr. apply in_app_iff in Hr. destruct Hr as [Hr|Hr]; auto.
      apply tx_rows_In in Hr. eauto.
    + intros t r Hr. apply tx_others_In in Hr. destruct Hr. eauto.
    + intros h Hin. destruct (g_hold0 h Hin) as [Hc Hd]. split; auto. rewrite in_app_iff. auto.
    + intros p cd Hp Hc. destruct (g_cand0 p cd Hp Hc) as [Hcm Hd]. split; auto. rewrite in_app_iff. auto.
    + intros e Hin. destruct (g_log0 e Hin) as [Hc Hd]. split; auto. rewrite in_app_iff. auto.
    + intros r Hr. rewrite in_app_iff. apply in_app_iff in Hr. destruct Hr as [Hr|Hr]; auto.
      right. apply in_map. auto.
    + intros t r Hr. apply tx_others_In in Hr. destruct Hr as [Hr Hne].
      destruct (g_pend_fresh0 t r Hr) as [H1 [H2 H3]]. repeat split; auto.
      rewrite in_app_iff. intros [X|X]; auto.
      apply in_map_iff in X. destruct X as [r' [E Hr']]. apply tx_rows_In in Hr'.
      assert ((t, r) = (tx, r')) as Q.
      { eapply (NoDup_map_inj (fun p => rid (snd p))); eauto. }
      inversion Q; subst; auto.
    + intros j [Hj|Hj]; auto. apply in_app_iff in Hj. destruct Hj as [Hj|Hj]; auto.
      apply in_map_iff in Hj. destruct Hj as [r [E Hr]]. apply tx_rows_In in Hr. subst.
      destruct (g_pend_fresh0 tx r Hr) as [_ [_ H3]]. auto.
    + rewrite map_app. apply NoDup_app_intro; auto.
      * unfold tx_rows. rewrite map_map. apply NoDup_map_filter. auto.
      * intros x Hx Hy. apply in_map_iff in Hx. destruct Hx as [r [E Hr]]. apply g_store_comm0 in Hr.
        apply in_map_iff in Hy. destruct Hy as [r' [E' Hr']]. apply tx_rows_In in Hr'.
        destruct (g_pend_fresh0 tx r' Hr') as [H1 _]. congruence.
    + unfold tx_others. apply NoDup_map_filter. auto.
    + intros j Hj. rewrite in_app_iff. intros [X|X]. eapply g_disj0; eauto.
      apply in_map_iff in X. destruct X as [r [E Hr]]. apply tx_rows_In in Hr. subst.
      destruct (g_pend_fresh0 tx r Hr) as [_ [H2 _]]. auto.
  - (* Rollback *)
    constructor; gsimpl; auto.
    + intros t r Hr. apply tx_others_In in Hr. destruct Hr. eauto.
    + intros t r Hr. apply tx_others_In in Hr. destruct Hr as [Hr Hne].
      destruct (g_pend_fresh0 t r Hr) as [H1 [H2 H3]]. repeat split; auto.
      rewrite in_app_iff. intros [X|X]; auto.
      apply in_map_iff in X. destruct X as [r' [E Hr']]. apply tx_rows_In in Hr'.
      assert ((t, r) = (tx, r')) as Q.
      { eapply (NoDup_map_inj (fun p => rid (snd p))); eauto. }
      inversion Q; subst; auto.
    + intros j [Hj|Hj]; auto. apply in_app_iff in Hj. destruct Hj as [Hj|Hj]; auto.
      apply in_map_iff in Hj. destruct Hj as [r [E Hr]]. apply tx_rows_In in Hr. subst.
      destruct (g_pend_fresh0 tx r Hr) as [_ [_ H3]]. auto.
    + unfold tx_others. apply NoDup_map_filter. auto.
    + intros j Hj. apply in_app_iff in Hj. destruct Hj as [Hj|Hj]; auto.
      apply in_map_iff in Hj. destruct Hj as [r [E Hr]]. apply tx_rows_In in Hr. subst.
      destruct (g_pend_fresh0 tx r Hr) as [H1 _]. auto.
  - (* Dispatch *)
    constructor; gsimpl; auto.
    + intros i0 j e Hin. apply filter_In in Hin. destruct Hin. eauto.
    + intros i0 j Hin. apply in_app_iff in Hin. destruct Hin as [Hin|Hin]; eauto.
      apply in_map_iff in Hin. destruct Hin as [[[i1 j1] e1] [E Hin]]. simpl in E. inversion E; subst.
      apply In_isort in Hin. apply filter_In in Hin. destruct Hin as [Hin Hd].
      simpl in Hd. apply andb_true_iff in Hd. destruct Hd as [_ Hd].
      destruct (g_heap0 _ _ _ Hin) as [s [dd [H1 H2]]]. exists s, dd. split; auto. lia.
  - (* MemStart *)
    destruct (nth_error (pool st) k) as [[i j]|] eqn:E; [|constructor; auto].
    pose proof (nth_error_In _ _ E) as Hpool.
    destruct (cas (store st) j None (now st)) as [s'|] eqn:C.
    + pose proof (cas_ids _ _ _ _ _ C) as Hids.
      destruct (cas_some _ _ _ _ _ C) as [[r0 [Hr0 [Hj0 _]]] _].
      constructor; gsimpl; auto.
      * intros r Hr. destruct (cas_In _ _ _ _ _ _ C Hr) as [r1 [H1 [H2 [H3 _]]]]. rewrite H2, H3. auto.
      * intros i0 j1 Hin. apply In_remove_nth in Hin. eauto.
      * intros h Hin. unfold holders in Hin. simpl in Hin. rewrite map_app in Hin. simpl in Hin.
        rewrite !in_app_iff in Hin. simpl in Hin.
        destruct Hin as [[Hin|[Hin|[]]]|Hin].
        -- apply g_hold0. unfold holders. rewrite in_app_iff. auto.
        -- subst h. simpl. split. subst j. apply g_store_comm0; auto. eapply g_pool0; eauto.
        -- apply g_hold0. unfold holders. rewrite in_app_iff. auto.
      * intros r Hr. destruct (cas_In _ _ _ _ _ _ C Hr) as [r1 [H1 [H2 _]]]. rewrite H2. auto.
      * rewrite Hids. auto.
    + constructor; gsimpl; auto.
      intros i0 j1 Hin. apply In_remove_nth in Hin. eauto.
  - (* MemInvoke *)
    destruct (nth_error (workers st) k) as [[i [j cp [|]]]|] eqn:E; try (constructor; auto; fail).
    assert (ready st j) as Hrdy.
    { apply (g_hold0 (mkH j cp PInv)). unfold holders. rewrite in_app_iff. left.
      apply in_map_iff. exists (mkW i (mkH j cp PInv)). split; auto. eapply nth_error_In; eauto. }
    constructor; gsimpl; auto.
    + intros h Hin. unfold holders in Hin. simpl in Hin.
      eapply Permutation_in in Hin. 2: eapply holders_set_worker; eauto.
      simpl in Hin. destruct Hin as [Hin|Hin].
      * subst h. simpl. exact Hrdy.
      * apply g_hold0. eapply Permutation_in. apply Permutation_sym. eapply holders_worker; eauto.
        right. exact Hin.
    + intros e Hin. apply in_app_iff in Hin. destruct Hin as [Hin|Hin]; auto.
      simpl in Hin. destruct Hin as [Hin|[]]. subst e. simpl. exact Hrdy.
  - (* MemDelete *)
    destruct (nth_error (workers st) k) as [[i [j cp [|]]]|] eqn:E; try (constructor; auto; fail).
    constructor; gsimpl; auto.
    + intros r Hr. apply del_row_In in Hr. destruct Hr. auto.
    + intros h Hin. apply g_hold0. eapply Permutation_in. apply Permutation_sym. eapply holders_worker; eauto.
      right. exact Hin.
    + intros r Hr. apply del_row_In in Hr. destruct Hr. auto.
    + apply del_row_ids. auto.
  - (* PollSelect *)
    destruct (existsb (fun p => Nat.eqb (pi p) i) (polls st)); [constructor; auto|].
    destruct (candidates c (now st) ord (store st)) as [|r0 cs] eqn:C; [constructor; auto|].
    constructor; gsimpl; auto.
    + intros h Hin. apply g_hold0. unfold holders in *. simpl in Hin. rewrite F_app in Hin. simpl in Hin.
      rewrite app_nil_r in Hin. exact Hin.
    + intros p cd Hp Hc. apply in_app_iff in Hp. destruct Hp as [Hp|Hp]; eauto.
      simpl in Hp. destruct Hp as [Hp|[]]. subst p.
      assert (In cd (map (fun r => mkCand (rid r) (rcap r)) (r0 :: cs))) as Hc' by exact Hc. clear Hc.
      apply in_map_iff in Hc'. destruct Hc' as [r [Ec Hr]]. subst cd. simpl.
      rewrite <- C in Hr. apply candidates_In in Hr. destruct Hr as [Hr He].
      apply eligible_spec in He. destruct He as [He _].
      split. apply g_store_comm0; auto.
      destruct (g_store_sched0 r Hr) as [s [dd [H1 H2]]]. exists s, dd. split; auto. lia.
  - (* PollCapture *)
    destruct (nth_error (polls st) k) as [[i [|cd rest] js]|] eqn:E; try (constructor; auto; fail).
    pose proof (nth_error_In _ _ E) as Hp0.
    assert (ready st (cj cd)) as Hrdy. { eapply g_cand0; eauto. simpl. auto. }
    destruct (cas (store st) (cj cd) (cexp cd) (now st)) as [s'|] eqn:C.
    + pose proof (cas_ids _ _ _ _ _ C) as Hids.
      constructor; gsimpl; auto.
      * intros r Hr. destruct (cas_In _ _ _ _ _ _ C Hr) as [r1 [H1 [H2 [H3 _]]]]. rewrite H2, H3. auto.
      * intros h Hin. unfold holders in Hin. simpl in Hin.
        eapply Permutation_in in Hin. 2: eapply holders_put; eauto. simpl in Hin.
        rewrite !in_app_iff in Hin. simpl in Hin.
        destruct Hin as [[Hin|[Hin|[]]]|[Hin|Hin]].
        -- apply g_hold0. eapply Permutation_in. apply Permutation_sym. eapply holders_poll; eauto.
           simpl. rewrite in_app_iff. auto.
        -- subst h. simpl. exact Hrdy.
        -- apply g_hold0. unfold holders. rewrite in_app_iff. auto.
        -- apply g_hold0. eapply Permutation_in. apply Permutation_sym. eapply holders_poll; eauto.
           unfold others_p. rewrite !in_app_iff. auto.
      * intros p cd0 Hp Hc. unfold put_poll in Hp. destruct (finished _).
        -- apply In_remove_nth in Hp. eauto.
        -- apply In_set_nth in Hp. destruct Hp as [Hp|Hp]; eauto. subst p. simpl in Hc.
           eapply g_cand0; eauto. simpl. auto.
      * intros r Hr. destruct (cas_In _ _ _ _ _ _ C Hr) as [r1 [H1 [H2 _]]]. rewrite H2. auto.
      * rewrite Hids. auto.
    + constructor; gsimpl; auto.
      * intros h Hin. unfold holders in Hin. simpl in Hin.
        eapply Permutation_in in Hin. 2: eapply holders_put; eauto. simpl in Hin.
        apply g_hold0. eapply Permutation_in. apply Permutation_sym. eapply holders_poll; eauto.
        simpl. exact Hin.
      * intros p cd0 Hp Hc. unfold put_poll in Hp. destruct (finished _).
        -- apply In_remove_nth in Hp. eauto.
        -- apply In_set_nth in Hp. destruct Hp as [Hp|Hp]; eauto. subst p. simpl in Hc.
           eapply g_cand0; eauto. simpl. auto.
  - (* PollInvoke *)
    destruct (nth_error (polls st) k) as [[i [|cd rest] [|[j cp [|]] js]]|] eqn:E; try (constructor; auto; fail).
    pose proof (nth_error_In _ _ E) as Hp0.
    assert (ready st j) as Hrdy.
    { apply (g_hold0 (mkH j cp PInv)). eapply Permutation_in. apply Permutation_sym. eapply holders_poll; eauto.
      simpl. auto. }
    constructor; gsimpl; auto.
    + intros h Hin. unfold holders in Hin. simpl in Hin.
      eapply Permutation_in in Hin.
      2: { apply Permutation_app_head. eapply perm_F_set; eauto. }
      simpl in Hin. rewrite !in_app_iff in Hin. simpl in Hin.
      destruct Hin as [Hin|[Hin|Hin]].
      * apply g_hold0. unfold holders. rewrite in_app_iff. auto.
      * subst h. simpl. exact Hrdy.
      * apply g_hold0. eapply Permutation_in. apply Permutation_sym. eapply holders_poll; eauto.
        simpl. right. unfold others_p. rewrite !in_app_iff in *. tauto.
    + intros p cd0 Hp Hc. apply In_set_nth in Hp. destruct Hp as [Hp|Hp]; eauto. subst p. simpl in Hc. tauto.
    + intros e Hin. apply in_app_iff in Hin. destruct Hin as [Hin|Hin]; auto.
      simpl in Hin. destruct Hin as [Hin|[]]. subst e. simpl. exact Hrdy.
  - (* PollDelete *)
    destruct (nth_error (polls st) k) as [[i [|cd rest] [|[j cp [|]] js]]|] eqn:E; try (constructor; auto; fail).
    pose proof (nth_error_In _ _ E) as Hp0.
    destruct (has_row (store st) j) eqn:Hr.
    + constructor; gsimpl; auto.
      * intros r Hr'. apply del_row_In in Hr'. destruct Hr'. auto.
      * intros h Hin. unfold holders in Hin. simpl in Hin.
        eapply Permutation_in in Hin. 2: eapply holders_put; eauto. simpl in Hin.
        apply g_hold0. eapply Permutation_in. apply Permutation_sym. eapply holders_poll; eauto.
        simpl. right. exact Hin.
      * intros p cd0 Hp Hc. unfold put_poll in Hp. destruct (finished _).
        -- apply In_remove_nth in Hp. eauto.
        -- apply In_set_nth in Hp. destruct Hp as [Hp|Hp]; eauto. subst p. simpl in Hc. tauto.
      * intros r Hr'. apply del_row_In in Hr'. destruct Hr'. auto.
      * apply del_row_ids. auto.
    + constructor; gsimpl; auto.
      * intros h Hin. apply g_hold0. eapply Permutation_in. apply Permutation_sym. eapply holders_poll; eauto.
        rewrite in_app_iff. right. exact Hin.
      * intros p cd0 Hp Hc. apply In_remove_nth in Hp. eauto.
  - (* Crash *)
    constructor; gsimpl; auto.
    + intros i0 j e Hin. apply filter_In in Hin. destruct Hin. eauto.
    + intros i0 j Hin. apply filter_In in Hin. destruct Hin. eauto.
    + intros h Hin. apply g_hold0. unfold holders in *. simpl in Hin. rewrite in_app_iff in *.
      destruct Hin as [Hin|Hin].
      * left. apply in_map_iff in Hin. destruct Hin as [w [E Hw]]. apply filter_In in Hw. destruct Hw.
        apply in_map_iff. eauto.
      * right. apply in_flat_map in Hin. destruct Hin as [p [Hp Hh]]. apply filter_In in Hp. destruct Hp.
        apply in_flat_map. eauto.
    + intros p cd Hp Hc. apply filter_In in Hp. destruct Hp. eauto.
  - (* Query *)
    constructor; gsimpl; auto.
Qed.

Lemma good_run : forall c steps st, good st -> good (run c steps st).
Proof.
  unfold run. induction steps; simpl; intros st G; auto. apply IHsteps. apply good_step. auto.
Qed.

Lemma jobs_unique : forall st j s d s' d', good st ->
  In (mkJ j s d) (jobs st) -> In (mkJ j s' d') (jobs st) -> s = s' /\ d = d'.
Proof.
  intros st j s d s' d' G H1 H2.
  assert (mkJ j s d = mkJ j s' d') as E.
  { eapply (NoDup_map_inj jj); eauto. rewrite (g_jobs _ G). apply seq_NoDup. }
  inversion E; auto.
Qed.

(* never before its delay has elapsed *)
Lemma not_early : forall c steps e, In e (log (run c steps init)) ->
  exists s d, In (mkJ (ej e) s d) (jobs (run c steps init)) /\ s + d <= et e.
Proof.
  intros c steps e H. pose proof (good_run c steps init good_init) as G.
  destruct (g_log _ G e H) as [_ X]. exact X.
Qed.

Lemma only_committed_run : forall c steps e, In e (log (run c steps init)) ->
  In (ej e) (committed (run c steps init)).
Proof.
  intros c steps e H. pose proof (good_run c steps init good_init) as G.
  destruct (g_log _ G e H) as [X _]. exact X.
Qed.

Lemma rollback_never_runs : forall c steps j, In j (rolled (run c steps init)) ->
  forall e, In e (log (run c steps init)) -> ej e <> j.
Proof.
  intros c steps j Hj e He E. pose proof (good_run c steps init good_init) as G.
  apply (g_disj _ G j Hj). subst j. destruct (g_log _ G e He) as [X _]. exact X.
Qed.

(* ---- at most once ---- *)

(* what holds between the committed rows, the threads holding captured jobs and the log *)
Record once (S : list row) (H : list holder) (L : list entry) : Prop := mkOnce {
  o_uniq : NoDup (map hj H);
  o_owns : forall h, In h H -> exists r, In r S /\ rid r = hj h /\ rcap r = Some (hc h);
  o_done : forall e h, In e L -> In h H -> hj h = ej e -> hp h = PDel;
  o_held : forall e r, In e L -> In r S -> rid r = ej e -> exists h, In h H /\ hj h = ej e;
  o_log : NoDup (map ej L)
}.

Lemma once_perm : forall S H H' L, Permutation H H' -> once S H L -> once S H' L.
Proof.
  intros S H H' L P [O1 O2 O3 O4 O5]. constructor; auto.
  - eapply Permutation_NoDup. apply Permutation_map. exact P. exact O1.
  - intros h Hin. apply O2. eapply Permutation_in. apply Permutation_sym. exact P. exact Hin.
  - intros e h He Hh. apply O3; auto. eapply Permutation_in. apply Permutation_sym. exact P. exact Hh.
  - intros e r He Hr Hj. destruct (O4 e r He Hr Hj) as [h [Hh1 Hh2]]. exists h. split; auto.
    eapply Permutation_in; eauto.
Qed.

Lemma row_by_id : forall (S : list row) r r', NoDup (map rid S) -> In r S -> In r' S -> rid r = rid r' -> r = r'.
Proof. intros. eapply (NoDup_map_inj rid); eauto. Qed.

(* a successful compare-and-swap by a thread that nobody competes with *)
Lemma once_capture : forall S H L j e t S',
  NoDup (map rid S) -> once S H L -> cas S j e t = Some S' ->
  (forall h, In h H -> hj h <> j) ->
  once S' (mkH j t PInv :: H) L.
Proof.
  intros S H L j e t S' Hn [O1 O2 O3 O4 O5] C Hfree.
  destruct (cas_some _ _ _ _ _ C) as [[r0 [Hr0 [Hj0 He0]]] _].
  assert (forall e0, In e0 L -> ej e0 <> j) as Hnolog.
  { intros e0 He0' Ej. destruct (O4 e0 r0 He0' Hr0) as [h [Hh1 Hh2]]. congruence.
    apply (Hfree h Hh1). congruence. }
  constructor; auto.
  - simpl. constructor; auto. intro X. apply in_map_iff in X. destruct X as [h [E Hh]]. apply (Hfree h Hh E).
  - intros h [Hh|Hh].
    + subst h. simpl. destruct (cas_In_fwd _ _ _ _ _ r0 C Hr0) as [[X _]|[_ [_ X]]].
      * exfalso. apply X. auto.
      * eexists. split. exact X. simpl. auto.
    + destruct (O2 h Hh) as [r [Hr [E1 E2]]].
      destruct (cas_In_fwd _ _ _ _ _ r C Hr) as [[_ X]|[X _]].
      * exists r. auto.
      * exfalso. apply (Hfree h Hh). congruence.
  - intros e0 h He0' [Hh|Hh] Ej.
    + subst h. simpl in Ej. exfalso. apply (Hnolog e0 He0'). auto.
    + eapply O3; eauto.
  - intros e0 r He0' Hr Ej.
    destruct (cas_In _ _ _ _ _ _ C Hr) as [r1 [Hr1 [E1 _]]].
    destruct (O4 e0 r1 He0' Hr1) as [h [Hh1 Hh2]]. congruence.
    exists h. simpl. auto.
Qed.

Lemma once_invoke : forall S R L j cp t i,
  once S (mkH j cp PInv :: R) L -> once S (mkH j cp PDel :: R) (L ++ [mkE j t i]).
Proof.
  intros S R L j cp t i [O1 O2 O3 O4 O5].
  simpl in O1. inversion O1 as [|x l Hnotin Hnd]; subst.
  assert (forall e0, In e0 L -> ej e0 <> j) as Hnolog.
  { intros e0 He0 Ej. assert (PInv = PDel) as X. { apply (O3 e0 (mkH j cp PInv)); simpl; auto. } discriminate. }
  constructor.
  - simpl. constructor; auto.
  - intros h [Hh|Hh].
    + subst h. simpl. apply (O2 (mkH j cp PInv)). simpl. auto.
    + apply O2. simpl. auto.
  - intros e0 h He0 [Hh|Hh] Ej.
    + subst h. reflexivity.
    + apply in_app_iff in He0. destruct He0 as [He0|[He0|[]]].
      * eapply O3; eauto. simpl. auto.
      * subst e0. simpl in Ej. exfalso. apply Hnotin. rewrite <- Ej. apply in_map. auto.
  - intros e0 r He0 Hr Ej. apply in_app_iff in He0. destruct He0 as [He0|[He0|[]]].
    + destruct (O4 e0 r He0 Hr Ej) as [h [[Hh|Hh] Hh2]].
      * subst h. simpl in Hh2. exfalso. apply (Hnolog e0 He0). auto.
      * exists h. simpl. auto.
    + subst e0. simpl in *. exists (mkH j cp PDel). simpl. auto.
  - rewrite map_app. simpl. apply NoDup_app_intro; auto.
    + constructor; auto. constructor.
    + intros x Hx [Hy|[]]. subst x. apply in_map_iff in Hx. destruct Hx as [e0 [E He0]].
      apply (Hnolog e0 He0 E).
Qed.

Lemma once_delete : forall S R L j cp ph,
  once S (mkH j cp ph :: R) L -> once (del_row S j) R L.
Proof.
  intros S R L j cp ph [O1 O2 O3 O4 O5].
  simpl in O1. inversion O1 as [|x l Hnotin Hnd]; subst.
  constructor; auto.
  - intros h Hh. destruct (O2 h) as [r [Hr [E1 E2]]]. simpl; auto.
    exists r. split; auto. apply del_row_In. split; auto. rewrite E1. intro X. apply Hnotin. rewrite <- X.
    apply in_map. auto.
  - intros e h He Hh Ej. eapply O3; eauto. simpl. auto.
  - intros e r He Hr Ej. apply del_row_In in Hr. destruct Hr as [Hr Hne].
    destruct (O4 e r He Hr Ej) as [h [[Hh|Hh] Hh2]].
    + subst h. simpl in Hh2. congruence.
    + eauto.
Qed.

(* threads disappear (crash): fine as long as no invoked-but-undeleted job is lost *)
Lemma once_drop : forall S H H' L,
  once S H L -> Sub H' H -> (forall h, In h H -> hp h = PDel -> In h H') -> once S H' L.
Proof.
  intros S H H' L [O1 O2 O3 O4 O5] Hs Hkeep. constructor; auto.
  - eapply Sub_NoDup. apply Sub_map. exact Hs. exact O1.
  - intros h Hh. apply O2. eapply Sub_In; eauto.
  - intros e h He Hh. apply O3; auto. eapply Sub_In; eauto.
  - intros e r He Hr Ej. destruct (O4 e r He Hr Ej) as [h [Hh1 Hh2]]. exists h. split; auto.
    apply Hkeep; auto. eapply O3; eauto.
Qed.

Lemma once_grow : forall S H L rs,
  once S H L -> (forall r e, In r rs -> In e L -> rid r <> ej e) -> once (S ++ rs) H L.
Proof.
  intros S H L rs [O1 O2 O3 O4 O5] Hnew. constructor; auto.
  - intros h Hh. destruct (O2 h Hh) as [r [Hr X]]. exists r. rewrite in_app_iff. auto.
  - intros e r He Hr Ej. apply in_app_iff in Hr. destruct Hr as [Hr|Hr]; eauto.
    exfalso. eapply Hnew; eauto.
Qed.

(* the hypothesis of "exactly once": whoever captured a job deletes it before the
   capture timeout expires, and no process dies between invoking a job and deleting it *)
Definition timely (c : cfg) (st : state) : Prop :=
  forall h, In h (holders st) -> now st < hc h + timeout c.

Definition crash_safe (st : state) (s : ev) : Prop :=
  match s with
  | Crash i => (forall w, In w (workers st) -> wi w = i -> hp (wh w) = PInv) /\
               (forall p h, In p (polls st) -> pi p = i -> In h (pjobs p) -> hp h = PInv)
  | _ => True
  end.

Fixpoint along (c : cfg) (steps : list ev) (st : state) : Prop :=
  match steps with
  | [] => True
  | s :: rest => timely c st /\ crash_safe st s /\ along c rest (step c st s)
  end.

Record once_inv (c : cfg) (st : state) : Prop := mkOI {
  oi_once : once (store st) (holders st) (log st);
  oi_cand : forall p cd e, In p (polls st) -> In cd (psel p) -> cexp cd = Some e -> e + timeout c <= now st
}.

Lemma once_init : forall c, once_inv c init.
Proof.
  intros. constructor; simpl; try tauto. constructor; simpl; try tauto; constructor.
Qed.

Lemma once_step : forall c st s, good st -> timely c st -> crash_safe st s ->
  once_inv c st -> once_inv c (step c st s).
Proof.
  intros c st s G T CS [O A].
  pose proof (g_nodup_store _ G) as Hn.
  destruct s; simpl.
  - (* Tick *) constructor; simpl; auto. intros p cd e Hp Hc He. pose proof (A p cd e Hp Hc He). lia.
  - (* Persist *) constructor; simpl; auto.
  - (* Commit *)
    constructor; simpl; auto. apply once_grow; auto.
    intros r e Hr He E. apply tx_rows_In in Hr.
    destruct (g_pend_fresh _ G tx r Hr) as [X _]. apply X. rewrite E. apply (g_log _ G e He).
  - (* Rollback *) constructor; simpl; auto.
  - (* Dispatch *) constructor; simpl; auto.
  - (* MemStart *)
    destruct (nth_error (pool st) k) as [[i j]|] eqn:E; [|constructor; auto].
    destruct (cas (store st) j None (now st)) as [s'|] eqn:C.
    + constructor; simpl; auto.
      eapply once_perm with (H := mkH j (now st) PInv :: holders st).
      { unfold holders. simpl. rewrite map_app. simpl. rewrite <- app_assoc. simpl.
        apply Permutation_middle. }
      eapply once_capture; eauto.
      intros h Hh Ej.
      destruct (o_owns _ _ _ O h Hh) as [r [Hr [E1 E2]]].
      destruct (cas_some _ _ _ _ _ C) as [[r0 [Hr0 [Hj0 He0]]] _].
      assert (r = r0) by (eapply row_by_id; eauto; congruence). subst r0. congruence.
    + constructor; simpl; auto.
  - (* MemInvoke *)
    destruct (nth_error (workers st) k) as [[i [j cp [|]]]|] eqn:E; try (constructor; auto; fail).
    constructor; simpl; auto.
    eapply once_perm.
    { apply Permutation_sym. unfold holders. simpl. eapply holders_set_worker; eauto. }
    simpl. apply once_invoke.
    eapply once_perm. 2: exact O. eapply holders_worker in E. exact E.
  - (* MemDelete *)
    destruct (nth_error (workers st) k) as [[i [j cp [|]]]|] eqn:E; try (constructor; auto; fail).
    constructor; simpl; auto.
    change (map wh (remove_nth k (workers st)) ++ flat_map pjobs (polls st)) with (others_w st k).
    eapply once_delete. eapply once_perm. 2: exact O. eapply holders_worker in E. exact E.
  - (* PollSelect *)
    destruct (existsb (fun p => Nat.eqb (pi p) i) (polls st)); [constructor; auto|].
    destruct (candidates c (now st) ord (store st)) as [|r0 cs] eqn:C; [constructor; auto|].
    constructor; simpl.
    + unfold holders. simpl. rewrite F_app. simpl. rewrite app_nil_r. exact O.
    + intros p cd e Hp Hc He. apply in_app_iff in Hp. destruct Hp as [Hp|Hp]; eauto.
      simpl in Hp. destruct Hp as [Hp|[]]. subst p.
      assert (In cd (map (fun r => mkCand (rid r) (rcap r)) (r0 :: cs))) as Hc' by exact Hc. clear Hc.
      apply in_map_iff in Hc'. destruct Hc' as [r [Ec Hr]]. subst cd. simpl in He.
      rewrite <- C in Hr. apply candidates_In in Hr. destruct Hr as [Hr Hel].
      apply eligible_spec in Hel. destruct Hel as [_ Hel]. auto.
  - (* PollCapture *)
    destruct (nth_error (polls st) k) as [[i [|cd rest] js]|] eqn:E; try (constructor; auto; fail).
    pose proof (nth_error_In _ _ E) as Hp0.
    assert (forall p cd0 e, In p (put_poll k (mkPoll i rest js) (polls st)) \/
                            (exists js', In p (put_poll k (mkPoll i rest js') (polls st))) ->
                            In cd0 (psel p) -> cexp cd0 = Some e -> e + timeout c <= now st) as A'.
    { intros p cd0 e Hp Hc He.
      assert (exists js', In p (put_poll k (mkPoll i rest js') (polls st))) as [js' Hp'].
      { destruct Hp as [Hp|Hp]; eauto. }
      unfold put_poll in Hp'. destruct (finished _).
      - apply In_remove_nth in Hp'. eauto.
      - apply In_set_nth in Hp'. destruct Hp' as [Hp'|Hp']; eauto. subst p. simpl in Hc.
        eapply A; eauto. simpl. auto. }
    destruct (cas (store st) (cj cd) (cexp cd) (now st)) as [s'|] eqn:C.
    + constructor; simpl.
      * eapply once_perm.
        { apply Permutation_sym. unfold holders. simpl. eapply perm_trans. eapply holders_put; eauto.
          simpl. rewrite <- app_assoc. simpl. apply Permutation_sym. apply Permutation_middle. }
        eapply once_capture; eauto.
        { eapply once_perm. 2: exact O. eapply holders_poll in E. exact E. }
        intros h Hh Ej.
        assert (In h (holders st)) as Hh'.
        { eapply Permutation_in. apply Permutation_sym. eapply holders_poll; eauto. exact Hh. }
        destruct (o_owns _ _ _ O h Hh') as [r [Hr [E1 E2]]].
        destruct (cas_some _ _ _ _ _ C) as [[r0 [Hr0 [Hj0 He0]]] _].
        assert (r = r0) by (eapply row_by_id; eauto; congruence). subst r0.
        assert (hc h + timeout c <= now st) as X.
        { eapply (A _ cd); eauto. simpl. auto. congruence. }
        pose proof (T h Hh'). lia.
      * intros p cd0 e Hp. eapply A'. right. eauto.
    + constructor; simpl.
      * eapply once_perm.
        { apply Permutation_sym. unfold holders. simpl. eapply holders_put; eauto. }
        simpl. eapply once_perm. 2: exact O. eapply holders_poll in E. exact E.
      * intros p cd0 e Hp. eapply A'. left. eauto.
  - (* PollInvoke *)
    destruct (nth_error (polls st) k) as [[i [|cd rest] [|[j cp [|]] js]]|] eqn:E; try (constructor; auto; fail).
    constructor; simpl.
    + eapply once_perm.
      { apply Permutation_sym. unfold holders. simpl. eapply perm_trans.
        apply Permutation_app_head. eapply perm_F_set; eauto. simpl.
        apply Permutation_sym. apply Permutation_middle. }
      apply once_invoke.
      eapply once_perm. 2: exact O.
      eapply perm_trans. eapply holders_poll; eauto. simpl. apply perm_skip.
      unfold others_p. rewrite !app_assoc. apply Permutation_app_tail. apply Permutation_app_comm.
    + intros p cd0 e Hp Hc He. apply In_set_nth in Hp. destruct Hp as [Hp|Hp]; eauto. subst p. simpl in Hc. tauto.
  - (* PollDelete *)
    destruct (nth_error (polls st) k) as [[i [|cd rest] [|[j cp [|]] js]]|] eqn:E; try (constructor; auto; fail).
    pose proof (nth_error_In _ _ E) as Hp0.
    destruct (has_row (store st) j) eqn:Hr.
    + constructor; simpl.
      * eapply once_perm.
        { apply Permutation_sym. unfold holders. simpl. eapply holders_put; eauto. }
        simpl. eapply once_delete. eapply once_perm. 2: exact O. eapply holders_poll in E. exact E.
      * intros p cd0 e Hp Hc He. unfold put_poll in Hp. destruct (finished _).
        -- apply In_remove_nth in Hp. eauto.
        -- apply In_set_nth in Hp. destruct Hp as [Hp|Hp]; eauto. subst p. simpl in Hc. tauto.
    + (* impossible: the holder's row exists *)
      exfalso.
      assert (In (mkH j cp PDel) (holders st)) as Hh.
      { eapply Permutation_in. apply Permutation_sym. eapply holders_poll; eauto. simpl. auto. }
      destruct (o_owns _ _ _ O _ Hh) as [r [Hr' [E1 _]]]. simpl in E1.
      eapply has_row_false; eauto.
  - (* Crash *)
    destruct CS as [CS1 CS2].
    constructor; simpl.
    + eapply once_drop. exact O.
      * unfold holders. simpl. apply Sub_app. apply Sub_map. apply Sub_filter.
        apply Sub_flat_map. apply Sub_filter. auto.
      * intros h Hh Hph. unfold holders in *. simpl. rewrite in_app_iff in *. destruct Hh as [Hh|Hh].
        -- left. apply in_map_iff in Hh. destruct Hh as [w [Ew Hw]]. apply in_map_iff. exists w. split; auto.
           apply filter_In. split; auto. apply negb_true_iff. apply Nat.eqb_neq. intro X.
           pose proof (CS1 w Hw X). subst h. congruence.
        -- right. apply in_flat_map in Hh. destruct Hh as [p [Hp Hh]]. apply in_flat_map. exists p. split; auto.
           apply filter_In. split; auto. apply negb_true_iff. apply Nat.eqb_neq. intro X.
           pose proof (CS2 p h Hp X Hh). congruence.
    + intros p cd e Hp. apply filter_In in Hp. destruct Hp. eauto.
  - (* Query *) constructor; simpl; auto.
Qed.

Lemma once_run : forall c steps st, good st -> once_inv c st -> along c steps st -> once_inv c (run c steps st).
Proof.
  unfold run. induction steps; simpl; intros st G O Al; auto.
  destruct Al as [T [CS Al]].
  apply IHsteps; auto. apply good_step; auto. apply once_step; auto.
Qed.

(* each job is invoked at most once *)
Lemma at_most_once : forall c steps, along c steps init -> NoDup (map ej (log (run c steps init))).
Proof.
  intros c steps Al. apply (o_log _ _ _ (oi_once _ _ (once_run c steps init good_init (once_init c) Al))).
Qed.

(* a decidable form of the hypothesis, to check it on concrete runs *)
Definition timelyb (c : cfg) (st : state) : bool :=
  forallb (fun h => now st <? hc h + timeout c) (holders st).

Definition crash_safeb (st : state) (s : ev) : bool :=
  match s with
  | Crash i => forallb (fun w => negb (Nat.eqb (wi w) i) || phase_eqb (hp (wh w)) PInv) (workers st) &&
               forallb (fun p => negb (Nat.eqb (pi p) i) || forallb (fun h => phase_eqb (hp h) PInv) (pjobs p)) (polls st)
  | _ => true
  end.

Fixpoint alongb (c : cfg) (steps : list ev) (st : state) : bool :=
  match steps with
  | [] => true
  | s :: rest => timelyb c st && crash_safeb st s && alongb c rest (step c st s)
  end.

Lemma phase_eqb_PInv : forall p, phase_eqb p PInv = true -> p = PInv.
Proof. destruct p; simpl; congruence. Qed.

Lemma alongb_sound : forall c steps st, alongb c steps st = true -> along c steps st.
Proof.
  induction steps; simpl; intros st H; auto.
  apply andb_true_iff in H. destruct H as [H H3]. apply andb_true_iff in H. destruct H as [H1 H2].
  split; [|split; auto].
  - unfold timely. unfold timelyb in H1. rewrite forallb_forall in H1. intros h Hh. specialize (H1 h Hh). lia.
  - destruct a; simpl; auto. simpl in H2. apply andb_true_iff in H2. destruct H2 as [A B].
    rewrite forallb_forall in A, B. split.
    + intros w Hw Hi. specialize (A w Hw). apply orb_true_iff in A. destruct A as [A|A].
      * apply negb_true_iff, Nat.eqb_neq in A. congruence.
      * apply phase_eqb_PInv. auto.
    + intros p h Hp Hi Hh. specialize (B p Hp). apply orb_true_iff in B. destruct B as [B|B].
      * apply negb_true_iff, Nat.eqb_neq in B. congruence.
      * rewrite forallb_forall in B. apply phase_eqb_PInv. auto.
Qed.

Lemma job_record_unique : forall c steps j s d s' d',
  In (mkJ j s d) (jobs (run c steps init)) -> In (mkJ j s' d') (jobs (run c steps init)) ->
  s = s' /\ d = d'.
Proof. intros c steps j s d s' d'. apply jobs_unique. apply good_run. apply good_init. Qed.
