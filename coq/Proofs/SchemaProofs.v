(* Facts that a schema of Model/Schema.v entails about every value it accepts:
   computable "finders" over the schema AST with their soundness lemmas.  The
   class-specific proofs (Proofs/BuildProofs.v) apply them to the schemas GENERATED
   from the spec classes (Gen/Schemas.v), the finder results being obtained by
   computation. *)
From Coq Require Import List String ZArith Bool Arith Lia.
Require Import Mistral.Model.Jv Mistral.Model.Schema.
Import ListNotations.
Open Scope string_scope.

Section Facts.
  Variable re : nat -> string -> bool.

  Lemma validate_In s v k : validate re s v = true -> In k s -> check re k v = true.
  Proof. unfold validate. rewrite forallb_forall. auto. Qed.

  (* ---- type ---- *)
  Definition jtype_eqb (a b : jtype) : bool :=
    match a, b with
    | TNull, TNull | TBool, TBool | TInt, TInt | TNum, TNum | TStr, TStr | TArr, TArr | TObj, TObj => true
    | _, _ => false
    end.

  Lemma jtype_eqb_eq a b : jtype_eqb a b = true -> a = b.
  Proof. destruct a, b; simpl; congruence. Qed.

  Definition has_type_kw (t : jtype) (s : schema) : bool :=
    existsb (fun k => match k with KType t' => jtype_eqb t t' | _ => false end) s.

  Lemma has_type_kw_sound t s v :
    has_type_kw t s = true -> validate re s v = true -> has_type t v = true.
  Proof.
    unfold has_type_kw. rewrite existsb_exists. intros [k [Hin Hk]] Hv.
    destruct k; try discriminate. apply jtype_eqb_eq in Hk. subst t0.
    exact (validate_In _ _ _ Hv Hin).
  Qed.

  Lemma has_type_obj v : has_type TObj v = true -> exists kvs, v = JObj kvs.
  Proof. destruct v; simpl; try discriminate. eauto. Qed.
  Lemma has_type_str v : has_type TStr v = true -> exists s, v = JStr s.
  Proof. destruct v; simpl; try discriminate. eauto. Qed.
  Lemma has_type_arr v : has_type TArr v = true -> exists l, v = JArr l.
  Proof. destruct v; simpl; try discriminate. eauto. Qed.

  (* ---- required ---- *)
  Definition required_of (s : schema) : list string :=
    flat_map (fun k => match k with KRequired ks => ks | _ => [] end) s.

  Lemma required_sound s kvs k :
    validate re s (JObj kvs) = true -> In k (required_of s) -> lookup k kvs <> None.
  Proof.
    intros Hv Hin. unfold required_of in Hin. apply in_flat_map in Hin.
    destruct Hin as [kw0 [Hkw Hk]]. destruct kw0; try contradiction.
    pose proof (validate_In _ _ _ Hv Hkw) as Hc. cbn [check] in Hc.
    rewrite forallb_forall in Hc. specialize (Hc k Hk).
    destruct (lookup k kvs); congruence.
  Qed.

  (* ---- properties ---- *)
  Fixpoint assoc_s {A} (k : string) (l : list (string * A)) : option A :=
    match l with
    | [] => None
    | (k', a) :: r => if String.eqb k k' then Some a else assoc_s k r
    end.

  Lemma assoc_s_In {A} k (l : list (string * A)) a : assoc_s k l = Some a -> In (k, a) l.
  Proof.
    induction l as [|[k' a'] l IH]; simpl; [discriminate|].
    destruct (String.eqb k k') eqn:E.
    - intros H. injection H as ->. apply String.eqb_eq in E. subst. auto.
    - auto.
  Qed.

  Fixpoint prop_of (k : string) (s : schema) : option schema :=
    match s with
    | [] => None
    | KProps ps :: r => match assoc_s k ps with Some sub => Some sub | None => prop_of k r end
    | _ :: r => prop_of k r
    end.

  Lemma prop_sound s k sub kvs x :
    prop_of k s = Some sub -> validate re s (JObj kvs) = true -> lookup k kvs = Some x ->
    validate re sub x = true.
  Proof.
    intros Hp Hv Hl. induction s as [|kw0 s IH]; [discriminate|].
    assert (Hv' : validate re s (JObj kvs) = true).
    { unfold validate in *. cbn [forallb] in Hv. apply andb_true_iff in Hv. tauto. }
    destruct kw0; cbn [prop_of] in Hp; try (apply IH; assumption).
    destruct (assoc_s k ps) as [sub'|] eqn:Ea; [|apply IH; assumption].
    injection Hp as ->. apply assoc_s_In in Ea.
    pose proof (validate_In _ _ (KProps ps) Hv (or_introl eq_refl)) as Hc. cbn [check] in Hc.
    rewrite forallb_forall in Hc. specialize (Hc _ Ea). cbn [fst snd] in Hc.
    rewrite Hl in Hc. exact Hc.
  Qed.

  (* ---- patternProperties ---- *)
  Definition patprops_of (s : schema) : list (nat * schema) :=
    flat_map (fun k => match k with KPatProps ps => ps | _ => [] end) s.

  Lemma patprop_sound s kvs p sub k x :
    validate re s (JObj kvs) = true -> In (p, sub) (patprops_of s) -> In (k, x) kvs ->
    re p k = true -> validate re sub x = true.
  Proof.
    intros Hv Hin Hkx Hre. unfold patprops_of in Hin. apply in_flat_map in Hin.
    destruct Hin as [kw0 [Hkw Hps]]. destruct kw0; try contradiction.
    pose proof (validate_In _ _ _ Hv Hkw) as Hc. cbn [check] in Hc.
    rewrite forallb_forall in Hc. specialize (Hc _ Hps). cbn [fst snd] in Hc.
    rewrite forallb_forall in Hc. specialize (Hc _ Hkx). cbn [fst snd] in Hc.
    rewrite Hre in Hc. exact Hc.
  Qed.

  (* ---- additionalProperties given as a schema, without pattern escapes ---- *)
  Fixpoint addl_of (s : schema) : option (list string * schema) :=
    match s with
    | [] => None
    | KAddl names [] (Some sub) :: _ => Some (names, sub)
    | _ :: r => addl_of r
    end.

  Lemma addl_sound s names sub kvs k x :
    addl_of s = Some (names, sub) -> validate re s (JObj kvs) = true -> In (k, x) kvs ->
    str_in k names = false -> validate re sub x = true.
  Proof.
    intros Ha Hv Hkx Hn. induction s as [|kw0 s IH]; [discriminate|].
    assert (Hv' : validate re s (JObj kvs) = true).
    { unfold validate in *. cbn [forallb] in Hv. apply andb_true_iff in Hv. tauto. }
    destruct kw0; cbn [addl_of] in Ha; try (apply IH; assumption).
    destruct pats; [|apply IH; assumption]. destruct s0 as [sub'|]; [|apply IH; assumption].
    injection Ha as -> ->.
    pose proof (validate_In _ _ _ Hv (or_introl eq_refl)) as Hc. cbn [check] in Hc.
    rewrite forallb_forall in Hc. specialize (Hc _ Hkx). cbn [fst snd existsb] in Hc.
    rewrite Hn in Hc. cbn [orb] in Hc. exact Hc.
  Qed.

  (* ---- items ---- *)
  Fixpoint items_of (s : schema) : option schema :=
    match s with
    | [] => None
    | KItems sub :: _ => Some sub
    | _ :: r => items_of r
    end.

  Lemma items_sound s sub l x :
    items_of s = Some sub -> validate re s (JArr l) = true -> In x l -> validate re sub x = true.
  Proof.
    intros Hi Hv Hx. induction s as [|kw0 s IH]; [discriminate|].
    assert (Hv' : validate re s (JArr l) = true).
    { unfold validate in *. cbn [forallb] in Hv. apply andb_true_iff in Hv. tauto. }
    destruct kw0; cbn [items_of] in Hi; try (apply IH; assumption).
    injection Hi as ->.
    pose proof (validate_In _ _ _ Hv (or_introl eq_refl)) as Hc. cbn [check] in Hc.
    rewrite forallb_forall in Hc. exact (Hc _ Hx).
  Qed.

  (* ---- oneOf / anyOf: some alternative accepts the value ---- *)
  Fixpoint alts_of (s : schema) : option (list schema) :=
    match s with
    | [] => None
    | KOneOf ss :: _ => Some ss
    | KAnyOf ss :: _ => Some ss
    | _ :: r => alts_of r
    end.

  Lemma count_true_pos l : count_true l <> 0 -> In true l.
  Proof.
    induction l as [|b l IH]; simpl; [congruence|]. destruct b; auto.
  Qed.

  Lemma alts_sound s ss v :
    alts_of s = Some ss -> validate re s v = true ->
    exists a, In a ss /\ validate re a v = true.
  Proof.
    intros Ha Hv. induction s as [|kw0 s IH]; [discriminate|].
    assert (Hv' : validate re s v = true).
    { unfold validate in *. cbn [forallb] in Hv. apply andb_true_iff in Hv. tauto. }
    destruct kw0; cbn [alts_of] in Ha; try (apply IH; assumption).
    - injection Ha as ->.
      pose proof (validate_In _ _ _ Hv (or_introl eq_refl)) as Hc. cbn [check] in Hc.
      apply Nat.eqb_eq in Hc.
      assert (Hin : In true (map (fun s0 => forallb (fun k' => check re k' v) s0) ss))
        by (apply count_true_pos; lia).
      apply in_map_iff in Hin. destruct Hin as [a [Ha1 Ha2]]. exists a. split; assumption.
    - injection Ha as ->.
      pose proof (validate_In _ _ _ Hv (or_introl eq_refl)) as Hc. cbn [check] in Hc.
      apply existsb_exists in Hc. destruct Hc as [a [Ha1 Ha2]]. exists a. split; assumption.
  Qed.

  (* ---- minProperties 1 ---- *)
  Definition min_props_1 (s : schema) : bool :=
    existsb (fun k => match k with KMinProps (S _) => true | _ => false end) s.

  Lemma min_props_sound s kvs : min_props_1 s = true -> validate re s (JObj kvs) = true -> kvs <> [].
  Proof.
    unfold min_props_1. rewrite existsb_exists. intros [k [Hin Hk]] Hv.
    destruct k; try discriminate. destruct n; [discriminate|].
    pose proof (validate_In _ _ _ Hv Hin) as Hc. cbn [check] in Hc.
    destruct kvs; [discriminate|congruence].
  Qed.

End Facts.
