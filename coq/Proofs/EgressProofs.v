(* Proofs about Model/Egress.v (property C19). *)
From Coq Require Import List NArith ZArith Bool String Lia ZifyBool ZifyN.
Require Import Mistral.Model.Egress.
Import ListNotations.
Open Scope N_scope.

Ltac Zify.zify_post_hook ::= Z.div_mod_to_equations.

(* ------------------------------------------------------------------ *)
(* in_net is the range test of ipaddress                               *)

Lemma div_eq_range (a p q : N) : 0 < p -> (a / p = q <-> q * p <= a < q * p + p).
Proof.
  intros Hp. split.
  - intros <-. pose proof (N.mul_div_le a p). pose proof (N.mod_lt a p).
    pose proof (N.div_mod a p). nia.
  - intros [H1 H2]. symmetry. apply (N.div_unique a p q (a - q * p)); nia.
Qed.

Lemma pow2_pos (k : N) : 0 < 2 ^ k.
Proof. apply N.neq_0_lt_0, N.pow_nonzero. discriminate. Qed.

Definition net_lo (n : net) : N :=
  let k := bits (nfam n) - nlen n in (nbase n / 2 ^ k) * 2 ^ k.
Definition net_size (n : net) : N := 2 ^ (bits (nfam n) - nlen n).

Lemma fam_eqb_eq a b : fam_eqb a b = true <-> a = b.
Proof. destruct a, b; simpl; split; congruence. Qed.

Lemma in_net_range (a : addr) (n : net) :
  in_net a n = true <->
  afam a = nfam n /\ net_lo n <= aval a < net_lo n + net_size n.
Proof.
  unfold in_net, net_lo, net_size.
  rewrite andb_true_iff, fam_eqb_eq, N.eqb_eq, !N.shiftr_div_pow2.
  set (k := bits (nfam n) - nlen n).
  pose proof (pow2_pos k) as Hp.
  rewrite (div_eq_range (aval a) (2 ^ k) (nbase n / 2 ^ k) Hp). tauto.
Qed.

(* ------------------------------------------------------------------ *)
(* validate: soundness and completeness of the decision                 *)

Lemma existsb_false_forall {A} (f : A -> bool) l :
  existsb f l = false <-> forall x, In x l -> f x = false.
Proof.
  induction l as [|y l IH]; simpl.
  - split; [intros _ x []|reflexivity].
  - rewrite orb_false_iff, IH. split.
    + intros [H1 H2] x [<-|Hx]; auto.
    + intros H; split; [apply H; auto|intros x Hx; apply H; auto].
Qed.

Definition safe_addr (denied : list net) (a : addr) : Prop :=
  forall n, In n denied ->
    in_net a n = false /\ (forall m, ipv4_mapped a = Some m -> in_net m n = false).

Lemma addr_denied_false denied a : addr_denied denied a = false <-> safe_addr denied a.
Proof.
  unfold addr_denied, safe_addr, candidates.
  rewrite existsb_false_forall. split.
  - intros H n Hn. split.
    + assert (Ha : In a (match ipv4_mapped a with Some m => [a; m] | None => [a] end))
        by (destruct (ipv4_mapped a); simpl; auto).
      specialize (H a Ha). rewrite existsb_false_forall in H. auto.
    + intros m Hm. rewrite Hm in H. specialize (H m (or_intror (or_introl eq_refl))).
      rewrite existsb_false_forall in H. auto.
  - intros H c Hc. rewrite existsb_false_forall. intros n Hn. destruct (H n Hn) as [H1 H2].
    destruct (ipv4_mapped a) as [m|] eqn:Em; simpl in Hc.
    + destruct Hc as [<-|[<-|[]]]; auto.
    + destruct Hc as [<-|[]]; auto.
Qed.

Lemma str_mem_In s l : str_mem s l = true <-> In s l.
Proof.
  unfold str_mem. rewrite existsb_exists. split.
  - intros [x [Hx He]]. apply String.eqb_eq in He. subst; auto.
  - intros H. exists s. split; auto. apply String.eqb_refl.
Qed.

(* Allow is returned exactly when every clause of the property is met. *)
Lemma validate_allow_bool denied allowed scheme host resolved :
  validate denied allowed scheme host resolved = Allow <->
  scheme_ok scheme = true /\ String.eqb host "" = false /\
  (allowed = [] \/ str_mem host allowed = true) /\
  (forall l, resolved = Some l -> existsb (addr_denied denied) l = false).
Proof.
  unfold validate.
  destruct (scheme_ok scheme); cbn [negb];
    [|split; [discriminate|intros (H & _); discriminate H]].
  destruct (String.eqb host "");
    [split; [discriminate|intros (_ & H & _); discriminate H]|].
  destruct allowed as [|h0 al]; cbn [negb andb].
  - destruct resolved as [l|].
    + destruct (existsb (addr_denied denied) l) eqn:Ex.
      * split; [discriminate|]. intros (_ & _ & _ & H). specialize (H l eq_refl). congruence.
      * split; [|reflexivity]. intros _. repeat split; auto. intros l0 E; inversion E; subst; assumption.
    + split; [|reflexivity]. intros _. repeat split; auto. discriminate.
  - destruct (str_mem host (h0 :: al)) eqn:Em; cbn [negb].
    + destruct resolved as [l|].
      * destruct (existsb (addr_denied denied) l) eqn:Ex.
        -- split; [discriminate|]. intros (_ & _ & _ & H). specialize (H l eq_refl). congruence.
        -- split; [|reflexivity]. intros _. repeat split; auto. intros l0 E; inversion E; subst; assumption.
      * split; [|reflexivity]. intros _. repeat split; auto. discriminate.
    + split; [discriminate|]. intros (_ & _ & [H|H] & _); discriminate H.
Qed.

Lemma scheme_ok_iff s : scheme_ok s = true <-> (s = "http" \/ s = "https")%string.
Proof.
  unfold scheme_ok. rewrite orb_true_iff, !String.eqb_eq. tauto.
Qed.

Theorem validate_allow_iff denied allowed scheme host resolved :
  validate denied allowed scheme host resolved = Allow <->
  (scheme = "http" \/ scheme = "https")%string /\
  host <> ""%string /\
  (allowed = [] \/ In host allowed) /\
  (forall l, resolved = Some l -> forall a, In a l -> safe_addr denied a).
Proof.
  rewrite validate_allow_bool, scheme_ok_iff, String.eqb_neq, str_mem_In.
  split; intros (H1 & H2 & H3 & H4); (split; [|split; [|split]]); auto.
  - intros l0 Hl a Ha. apply addr_denied_false.
    exact (proj1 (existsb_false_forall _ _) (H4 l0 Hl) a Ha).
  - intros l0 Hl. apply existsb_false_forall. intros a Ha. apply addr_denied_false. eauto.
Qed.

(* Any resolved address (or its IPv4-mapped form) inside a denied network => refused. *)
Theorem validate_denies_denied denied allowed scheme host l a n :
  In a l -> In n denied ->
  (in_net a n = true \/ exists m, ipv4_mapped a = Some m /\ in_net m n = true) ->
  validate denied allowed scheme host (Some l) <> Allow.
Proof.
  intros Ha Hn Hin Hallow. apply validate_allow_iff in Hallow.
  destruct Hallow as (_ & _ & _ & H). destruct (H l eq_refl a Ha n Hn) as [H1 H2].
  destruct Hin as [Hin|[m [Hm Hin]]]; [congruence|]. rewrite (H2 m Hm) in Hin. discriminate.
Qed.

Theorem validate_scheme denied allowed scheme host r :
  scheme <> "http"%string -> scheme <> "https"%string ->
  validate denied allowed scheme host r = DenyScheme.
Proof.
  intros H1 H2. unfold validate, scheme_ok.
  destruct (String.eqb_spec scheme "http"); [congruence|].
  destruct (String.eqb_spec scheme "https"); [congruence|]. reflexivity.
Qed.

Theorem validate_allowlist denied allowed scheme host r :
  allowed <> [] -> ~ In host allowed -> validate denied allowed scheme host r <> Allow.
Proof.
  intros Hne Hni H. apply validate_allow_iff in H. destruct H as (_ & _ & [H|H] & _); auto.
Qed.

(* ------------------------------------------------------------------ *)
(* Round trips: every textual form of an address denotes that address  *)

Lemma enc4_roundtrip v : v < 4294967296 -> denote (enc4 v) = Some (mkAddr V4 v).
Proof.
  intros Hv. unfold enc4, denote, quad.
  assert (H1 : (v / 16777216 <? 256) = true) by (apply N.ltb_lt; lia).
  assert (H2 : ((v / 65536) mod 256 <? 256) = true) by (apply N.ltb_lt; lia).
  assert (H3 : ((v / 256) mod 256 <? 256) = true) by (apply N.ltb_lt; lia).
  assert (H4 : (v mod 256 <? 256) = true) by (apply N.ltb_lt; lia).
  rewrite H1, H2, H3, H4. simpl. f_equal. f_equal. lia.
Qed.

Lemma enc3_roundtrip v : v < 4294967296 -> denote (enc3 v) = Some (mkAddr V4 v).
Proof.
  intros Hv. unfold enc3, denote.
  assert (H1 : (v / 16777216 <? 256) = true) by (apply N.ltb_lt; lia).
  assert (H2 : ((v / 65536) mod 256 <? 256) = true) by (apply N.ltb_lt; lia).
  assert (H3 : (v mod 65536 <? 65536) = true) by (apply N.ltb_lt; lia).
  rewrite H1, H2, H3. simpl. f_equal. f_equal. lia.
Qed.

Lemma enc2_roundtrip v : v < 4294967296 -> denote (enc2 v) = Some (mkAddr V4 v).
Proof.
  intros Hv. unfold enc2, denote.
  assert (H1 : (v / 16777216 <? 256) = true) by (apply N.ltb_lt; lia).
  assert (H2 : (v mod 16777216 <? 16777216) = true) by (apply N.ltb_lt; lia).
  rewrite H1, H2. simpl. f_equal. f_equal. lia.
Qed.

Lemma enc1_roundtrip v : v < 4294967296 -> denote (enc1 v) = Some (mkAddr V4 v).
Proof.
  intros Hv. unfold enc1, denote.
  assert (H1 : (v <? 4294967296) = true) by (apply N.ltb_lt; lia).
  rewrite H1. reflexivity.
Qed.

Lemma groups_val_app g1 g2 acc :
  groups_val (g1 ++ g2) acc =
  match groups_val g1 acc with Some v => groups_val g2 v | None => None end.
Proof.
  revert acc. induction g1 as [|x g1 IH]; intros acc; simpl; [reflexivity|].
  destruct (x <? 65536); [apply IH|reflexivity].
Qed.

Lemma groups_of_length n v : List.length (groups_of n v) = n.
Proof. revert v. induction n as [|n IH]; intros v; simpl; [reflexivity|]. rewrite app_length, IH. simpl. lia. Qed.

Lemma groups_of_val n v : v < 65536 ^ N.of_nat n -> groups_val (groups_of n v) 0 = Some v.
Proof.
  revert v. induction n as [|n IH]; intros v Hv.
  - simpl in *. f_equal. lia.
  - cbn [groups_of]. rewrite groups_val_app.
    assert (Hq : v / 65536 < 65536 ^ N.of_nat n).
    { rewrite Nnat.Nat2N.inj_succ, N.pow_succ_r' in Hv.
      apply N.div_lt_upper_bound; lia. }
    rewrite (IH _ Hq). cbn [groups_val].
    assert (Hm : (v mod 65536 <? 65536) = true) by (apply N.ltb_lt; lia).
    rewrite Hm. f_equal. lia.
Qed.

Lemma enc6_roundtrip v : v < 2 ^ 128 -> denote (enc6 v) = Some (mkAddr V6 v).
Proof.
  intros Hv. unfold enc6, denote. rewrite groups_of_length. simpl N.of_nat. simpl (8 =? 8).
  cbv iota. rewrite groups_of_val; [reflexivity|].
  replace (65536 ^ N.of_nat 8) with (2 ^ 128) by reflexivity. exact Hv.
Qed.

Definition mapped_val (v : N) : N := 65535 * 4294967296 + v.

Lemma enc_mapped_roundtrip v :
  v < 4294967296 -> denote (enc_mapped v) = Some (mkAddr V6 (mapped_val v)).
Proof.
  intros Hv. unfold enc_mapped, denote, quad, mapped_val.
  assert (H1 : (v / 16777216 <? 256) = true) by (apply N.ltb_lt; lia).
  assert (H2 : ((v / 65536) mod 256 <? 256) = true) by (apply N.ltb_lt; lia).
  assert (H3 : ((v / 256) mod 256 <? 256) = true) by (apply N.ltb_lt; lia).
  assert (H4 : (v mod 256 <? 256) = true) by (apply N.ltb_lt; lia).
  rewrite H1, H2, H3, H4.
  change (N.of_nat (List.length [0; 0; 0; 0; 0; 65535]) =? 6) with true.
  change (groups_val [0; 0; 0; 0; 0; 65535] 0) with (Some 65535).
  cbv iota beta. cbn [andb]. f_equal. f_equal. lia.
Qed.

Lemma enc_mapped_hex_roundtrip v :
  v < 4294967296 -> denote (enc_mapped_hex v) = Some (mkAddr V6 (mapped_val v)).
Proof.
  intros Hv. unfold enc_mapped_hex, denote, mapped_val.
  change (N.of_nat (List.length [0; 0; 0; 0; 0; 65535; v / 65536; v mod 65536]) =? 8) with true.
  change (groups_val [0; 0; 0; 0; 0; 65535; v / 65536; v mod 65536] 0)
    with (groups_val [v / 65536; v mod 65536] 65535).
  cbv iota. cbn [groups_val].
  assert (H1 : (v / 65536 <? 65536) = true) by (apply N.ltb_lt; lia).
  assert (H2 : (v mod 65536 <? 65536) = true) by (apply N.ltb_lt; lia).
  rewrite H1, H2. f_equal. f_equal. lia.
Qed.

Lemma mapped_is_mapped v :
  v < 4294967296 -> ipv4_mapped (mkAddr V6 (mapped_val v)) = Some (mkAddr V4 v).
Proof.
  intros Hv. unfold ipv4_mapped, mapped_val. cbn [afam aval].
  rewrite N.shiftr_div_pow2.
  assert (H : ((65535 * 4294967296 + v) / 2 ^ 32 =? 65535) = true).
  { apply N.eqb_eq. change (2 ^ 32) with 4294967296. lia. }
  rewrite H. f_equal. f_equal. lia.
Qed.

(* The forms of an IPv4 address v (as the resolver sees them): the four inet_aton
   shapes, and the two spellings of the IPv4-mapped IPv6 address. *)
Definition forms4 (v : N) : list host_form :=
  [enc4 v; enc3 v; enc2 v; enc1 v; enc_mapped v; enc_mapped_hex v].

Lemma forms4_denote v h :
  v < 4294967296 -> In h (forms4 v) ->
  denote h = Some (mkAddr V4 v) \/ denote h = Some (mkAddr V6 (mapped_val v)).
Proof.
  intros Hv Hh. unfold forms4 in Hh. simpl in Hh.
  destruct Hh as [<-|[<-|[<-|[<-|[<-|[<-|[]]]]]]].
  - left; apply enc4_roundtrip; assumption.
  - left; apply enc3_roundtrip; assumption.
  - left; apply enc2_roundtrip; assumption.
  - left; apply enc1_roundtrip; assumption.
  - right; apply enc_mapped_roundtrip; assumption.
  - right; apply enc_mapped_hex_roundtrip; assumption.
Qed.

(* Main theorem for IPv4: whatever form the host takes, if the resolver reads
   the literal as `denote` says and the IPv4 address lies in a denied network,
   the URL is refused, for every scheme, allow-list and other resolved addresses. *)
Theorem denied_v4_all_forms denied allowed scheme host v n h a others1 others2 :
  v < 4294967296 -> In h (forms4 v) -> denote h = Some a ->
  In n denied -> in_net (mkAddr V4 v) n = true ->
  validate denied allowed scheme host (Some (others1 ++ a :: others2)) <> Allow.
Proof.
  intros Hv Hh Hd Hn Hin.
  apply (validate_denies_denied denied allowed scheme host _ a n); auto.
  - apply in_or_app. right. left. reflexivity.
  - destruct (forms4_denote v h Hv Hh) as [E|E]; rewrite E in Hd; inversion Hd; subst a.
    + left. exact Hin.
    + right. exists (mkAddr V4 v). split; [apply mapped_is_mapped; assumption|exact Hin].
Qed.

Theorem denied_v6_all_forms denied allowed scheme host v n others1 others2 :
  v < 2 ^ 128 -> In n denied -> in_net (mkAddr V6 v) n = true ->
  exists a, denote (enc6 v) = Some a /\
  validate denied allowed scheme host (Some (others1 ++ a :: others2)) <> Allow.
Proof.
  intros Hv Hn Hin. exists (mkAddr V6 v). split; [apply enc6_roundtrip; assumption|].
  apply (validate_denies_denied denied allowed scheme host _ (mkAddr V6 v) n); auto.
  apply in_or_app. right. left. reflexivity.
Qed.

(* Out-of-range parts are not addresses at all (the error branch of denote). *)
Lemma denote_H4_range a b c d x : denote (H4 a b c d) = Some x ->
  a < 256 /\ b < 256 /\ c < 256 /\ d < 256 /\ x = mkAddr V4 (((a * 256 + b) * 256 + c) * 256 + d).
Proof.
  unfold denote, quad.
  destruct (a <? 256) eqn:Ea; destruct (b <? 256) eqn:Eb; destruct (c <? 256) eqn:Ec;
    destruct (d <? 256) eqn:Ed; simpl; intros H; inversion H.
  repeat split; try (apply N.ltb_lt; assumption).
Qed.
