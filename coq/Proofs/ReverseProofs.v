(* Proofs about Model/Reverse.v: a task of a reverse workflow is chosen only when all it requires has
   succeeded, only if the target (transitively) requires it, and never twice - for every requires-graph,
   every row set, and every sequence of continue / state-change operations. *)
From Coq Require Import List Arith Bool Lia Relations.
Require Import Mistral.Gen.States Mistral.Model.Reverse.
Import ListNotations.

Lemma memb_In : forall x l, memb x l = true <-> In x l.
Proof.
  intros x l. unfold memb. rewrite existsb_exists. split.
  - intros [y [Hin Heq]]. apply Nat.eqb_eq in Heq. subst. exact Hin.
  - intros Hin. exists x. split; [exact Hin | apply Nat.eqb_refl].
Qed.

Lemma has_row_In : forall rows n, has_row rows n = true <-> In n (map rrname rows).
Proof.
  intros rows n. unfold has_row. rewrite existsb_exists. rewrite in_map_iff. split.
  - intros [r [Hin He]]. apply Nat.eqb_eq in He. exists r. auto.
  - intros [r [He Hin]]. exists r. split; [exact Hin | apply Nat.eqb_eq; exact He].
Qed.

Lemma state_eqb_SUCCESS : forall s, state_eqb s SUCCESS = true <-> s = SUCCESS.
Proof. intros s. destruct s; simpl; split; intros H; try reflexivity; try discriminate. Qed.

Lemma succeeded_spec : forall rows n,
  succeeded rows n = true <-> exists r, In r rows /\ rrname r = n /\ rrstate r = SUCCESS.
Proof.
  intros rows n. unfold succeeded. rewrite existsb_exists. split.
  - intros [r [Hin H]]. apply andb_true_iff in H. destruct H as [H1 H2].
    apply Nat.eqb_eq in H1. apply state_eqb_SUCCESS in H2. exists r. auto.
  - intros [r [Hin [H1 H2]]]. exists r. split; [exact Hin|]. apply andb_true_iff. split.
    + apply Nat.eqb_eq; exact H1.
    + apply state_eqb_SUCCESS; exact H2.
Qed.

Lemma NoDup_app_intro : forall (a b : list nat),
  NoDup a -> NoDup b -> (forall x, In x b -> ~ In x a) -> NoDup (a ++ b).
Proof.
  induction a as [|y a IH]; intros b Ha Hb Hd; simpl; [exact Hb|].
  inversion Ha; subst. constructor.
  - intros Hin. apply in_app_or in Hin. destruct Hin as [Hin | Hin]; [contradiction|].
    apply (Hd y Hin). simpl; auto.
  - apply IH; auto. intros x Hx Hxa. apply (Hd x Hx). simpl; auto.
Qed.

Section Rev.
Variable sp : list rtask.

(* "a requires b" restricted to tasks of the workflow, and its reflexive-transitive closure *)
Definition requires1 (a b : nat) : Prop := In b (deps sp a).
Definition needs : nat -> nat -> Prop := clos_refl_trans _ requires1.

Lemma reach_needs : forall fuel n m, In m (reach fuel sp n) -> needs n m.
Proof.
  induction fuel as [|f IH]; intros n m H; simpl in H; [contradiction|].
  apply in_app_or in H. destruct H as [H | [H | []]].
  - apply in_flat_map in H. destruct H as [d [Hd Hm]].
    eapply rt_trans; [apply rt_step; exact Hd | apply IH; exact Hm].
  - subst. apply rt_refl.
Qed.

Lemma candidates_needs : forall target m, In m (candidates sp target) -> needs target m.
Proof. intros target m H. unfold candidates in H. apply nodup_In in H. eapply reach_needs; eauto. Qed.

Lemma reach_complete : forall rank : nat -> nat,
  (forall a b, requires1 a b -> rank b < rank a) ->
  forall n m, needs n m -> forall fuel, rank n < fuel -> In m (reach fuel sp n).
Proof.
  intros rank Hrank n m H. apply clos_rt_rt1n in H. induction H as [n | n d m Hstep Hrest IH]; intros fuel Hlt.
  - destruct fuel; [lia|]. simpl. apply in_or_app. right. simpl. auto.
  - destruct fuel; [lia|]. simpl. apply in_or_app. left. apply in_flat_map. exists d. split; [exact Hstep|].
    apply IH. specialize (Hrank _ _ Hstep). lia.
Qed.

Variable rows : list rrow.
Variable target : nat.

(* only when everything it requires has an execution in state SUCCESS *)
Theorem next_requires : forall n t q,
  In n (next_tasks sp rows target) -> rfind sp n = Some t -> In q (rreq t) ->
  exists r, In r rows /\ rrname r = q /\ rrstate r = SUCCESS.
Proof.
  intros n t q Hin Hf Hq. unfold next_tasks in Hin. apply filter_In in Hin. destruct Hin as [_ Hs].
  unfold satisfied in Hs. apply andb_true_iff in Hs. destruct Hs as [_ Hs]. rewrite Hf in Hs.
  rewrite forallb_forall in Hs. apply succeeded_spec. apply Hs. exact Hq.
Qed.

(* only tasks the target depends on *)
Theorem next_only_needed : forall n, In n (next_tasks sp rows target) -> needs target n.
Proof.
  intros n Hin. unfold next_tasks in Hin. apply filter_In in Hin. destruct Hin as [Hc _].
  apply candidates_needs. exact Hc.
Qed.

(* no task twice, and none that already has an execution *)
Theorem next_once : NoDup (next_tasks sp rows target) /\
  forall n, In n (next_tasks sp rows target) -> ~ In n (map rrname rows).
Proof.
  split.
  - unfold next_tasks. apply NoDup_filter. unfold candidates. apply NoDup_nodup.
  - intros n Hin Hrow. unfold next_tasks in Hin. apply filter_In in Hin. destruct Hin as [_ Hs].
    unfold satisfied in Hs. apply andb_true_iff in Hs. destruct Hs as [Hs _].
    apply has_row_In in Hrow. rewrite Hrow in Hs. discriminate.
Qed.

(* nothing needed is forgotten (on requires-graphs without cycles) *)
Theorem next_complete : forall rank : nat -> nat,
  (forall a b, requires1 a b -> rank b < rank a) -> rank target < length sp ->
  forall n, needs target n -> satisfied sp rows n = true -> In n (next_tasks sp rows target).
Proof.
  intros rank Hrank Hlt n Hn Hs. unfold next_tasks. apply filter_In. split; [|exact Hs].
  unfold candidates. apply nodup_In. eapply reach_complete; eauto.
Qed.

End Rev.

(* ------------------------------------------------------------------ whole runs *)

Section Run.
Variable sp : list rtask.
Variable target : nat.

Lemma set_state_names : forall rows n s, map rrname (set_state rows n s) = map rrname rows.
Proof.
  intros rows n s. unfold set_state. rewrite map_map. apply map_ext. intros r.
  destruct (Nat.eqb (rrname r) n && negb (is_completed (rrstate r))); reflexivity.
Qed.

Lemma set_state_succeeded : forall rows n s q,
  succeeded rows q = true -> succeeded (set_state rows n s) q = true.
Proof.
  intros rows n s q H. apply succeeded_spec in H. destruct H as [r [Hin [Hn Hs]]].
  apply succeeded_spec. exists r. split; [|auto].
  unfold set_state. apply in_map_iff. exists r. split; [|exact Hin].
  rewrite Hs. simpl. rewrite andb_false_r. reflexivity.
Qed.

Lemma succeeded_app : forall rows extra q, succeeded rows q = true -> succeeded (rows ++ extra) q = true.
Proof. intros rows extra q H. unfold succeeded in *. rewrite existsb_app. rewrite H. reflexivity. Qed.

Definition run_inv (rows : list rrow) : Prop :=
  NoDup (map rrname rows) /\
  (forall r, In r rows -> needs sp target (rrname r)) /\
  (forall r t q, In r rows -> rfind sp (rrname r) = Some t -> In q (rreq t) -> succeeded rows q = true).

Lemma run_inv_step : forall rows op, run_inv rows -> run_inv (rstep sp target rows op).
Proof.
  intros rows op [Hnd [Hneed Hreq]]. destruct op as [|i s]; simpl.
  - destruct (next_once sp rows target) as [Hnd' Hfresh].
    split; [|split].
    + rewrite map_app, map_map. simpl. rewrite map_id.
      apply NoDup_app_intro; auto.
    + intros r Hin. apply in_app_or in Hin. destruct Hin as [Hin | Hin]; [auto|].
      apply in_map_iff in Hin. destruct Hin as [n [He Hn]]. subst r. simpl.
      eapply next_only_needed; eauto.
    + intros r t q Hin Hf Hq. apply succeeded_app. apply in_app_or in Hin. destruct Hin as [Hin | Hin].
      * eapply Hreq; eauto.
      * apply in_map_iff in Hin. destruct Hin as [n [He Hn]]. subst r. simpl in Hf.
        apply succeeded_spec. eapply next_requires; eauto.
  - split; [|split].
    + rewrite set_state_names. exact Hnd.
    + intros r Hin. assert (Hn : In (rrname r) (map rrname (set_state rows i s))) by (apply in_map; exact Hin).
      rewrite set_state_names in Hn. apply in_map_iff in Hn. destruct Hn as [r0 [He Hin0]].
      rewrite <- He. apply Hneed. exact Hin0.
    + intros r t q Hin Hf Hq. apply set_state_succeeded.
      assert (Hn : In (rrname r) (map rrname (set_state rows i s))) by (apply in_map; exact Hin).
      rewrite set_state_names in Hn. apply in_map_iff in Hn. destruct Hn as [r0 [He Hin0]].
      eapply Hreq; eauto. rewrite He. exact Hf.
Qed.

Theorem run_invariant : forall ops, run_inv (rrun sp target ops).
Proof.
  intros ops. unfold rrun.
  assert (H0 : run_inv []) by (repeat split; simpl; try constructor; intros; contradiction).
  revert H0. generalize (@nil rrow). induction ops as [|op tl IH]; intros rows H; simpl; [exact H|].
  apply IH. apply run_inv_step. exact H.
Qed.

End Run.
