(* Proofs about Model/Policy.v, part 1 (property C08): parameter typing, the exception-free
   form of the machine on well-typed configurations, build_policies, and the theorems that
   hold for EVERY well-typed configuration and EVERY event sequence, timeouts and early /
   late / reordered job firings included: the attempt bound, the timeout step theorems,
   fail-on. *)
From Coq Require Import List NArith ZArith Bool Lia ZifyBool ZifyN ZifyNat.
Require Import Mistral.Gen.States Mistral.Model.Policy.
Import ListNotations.
Open Scope N_scope.

(* ------------------------------------------------------------------ *)
(* states *)

Lemma state_eqb_eq x y : state_eqb x y = true -> x = y.
Proof. destruct x, y; simpl; congruence. Qed.

Lemma result_state_spec x : result_state x = true <-> x = SUCCESS \/ x = ERROR \/ x = CANCELLED.
Proof. destruct x; vm_compute; intuition congruence. Qed.

Lemma result_completed x : result_state x = true -> is_completed x = true.
Proof. destruct x; vm_compute; congruence. Qed.

Lemma completed_not_idle x : is_completed x = true -> is_idle x = false.
Proof. destruct x; vm_compute; congruence. Qed.

(* ------------------------------------------------------------------ *)
(* parameter typing: TaskPolicy._validate *)

Definition retry_ok (r : rcfg) : bool := int_ok (rc_count r) && int_ok (rc_delay r).
Definition opt_ok (f : pval -> bool) (o : option pval) : bool := match o with Some v => f v | None => true end.

(* every validated field of every present policy fits its schema *)
Definition cfg_ok (c : cfg) : bool :=
  opt_ok bool_ok (c_pause c) && opt_ok int_ok (c_wb c) && opt_ok int_ok (c_wa c) &&
  match c_retry c with Some r => retry_ok r | None => true end &&
  opt_ok int_ok (c_timeout c) && opt_ok int_ok (c_conc c).

Lemma int_ok_spec v : int_ok v = true <-> exists z, (0 <= z)%Z /\ (v = PInt z \/ v = PFloat true z).
Proof.
  split.
  - destruct v as [z|[|] z| | | |]; simpl; intros H; try discriminate; exists z; split; try lia; auto.
  - intros (z & Hz & [->| ->]); simpl; lia.
Qed.

Lemma bool_ok_spec v : bool_ok v = true <-> exists b, v = PBool b.
Proof. split. - destruct v; simpl; try discriminate; eauto. - intros (b & ->). reflexivity. Qed.

(* ------------------------------------------------------------------ *)
(* the evaluated, well-typed configuration as numbers, and exception-free hooks *)

Record ncfg := mkN {
  n_pause : bool; n_wb : N; n_wa : N; n_fail : bool;
  n_cnt : N; n_dl : N; n_hc : bool; n_hb : bool; n_tmo : N; n_conc : N }.

Definition optN (o : option pval) : N := match o with Some v => as_N v | None => 0 end.

Definition norm (c : cfg) : ncfg :=
  mkN (match c_pause c with Some (PBool b) => b | _ => false end)
      (optN (c_wb c)) (optN (c_wa c))
      (match c_failon c with Some v => truthy v | None => false end)
      (match c_retry c with Some r => as_N (rc_count r) | None => 0 end)
      (match c_retry c with Some r => as_N (rc_delay r) | None => 0 end)
      (match c_retry c with Some r => rc_cont r | None => false end)
      (match c_retry c with Some r => rc_brk r | None => false end)
      (optN (c_timeout c)) (optN (c_conc c)).

Definition pause_n (b : bool) (s : st) : st := if b then set_wf PAUSED (set_state IDLE IPause s) else s.
Definition wb_n (d : N) (s : st) : st :=
  if d =? 0 then s
  else if s_wbskip s then set_state RUNNING INone s
  else if state_eqb (s_state s) IDLE then s
  else add_job d JContinue (set_state RUNNING_DELAYED IDelay (set_wbskip true s)).
Definition tmo_n (d : N) (s : st) : st := if d =? 0 then s else add_job d JTimeout s.
Definition conc_n (d : N) (s : st) : st := if d =? 0 then s else set_conc (Some d) s.
Definition before_n (n : ncfg) (s : st) : st :=
  conc_n (n_conc n) (tmo_n (n_tmo n) (wb_n (n_wb n) (pause_n (n_pause n) s))).

Definition wa_n (d : N) (s : st) : st :=
  if d =? 0 then s
  else if s_waskip s then s
  else add_job d (JComplete (s_state s) (s_info s)) (set_state RUNNING_DELAYED IDelay (set_waskip true s)).
Definition fail_n (b : bool) (s : st) : st :=
  if state_eqb (s_state s) SUCCESS && b then set_state ERROR IFailOn s else s.
Definition rnoN (s : st) : N := match s_rno s with Some k => k | None => 0 end.
Definition retry_n (n : ncfg) (s : st) : st :=
  if n_cnt n =? 0 then s else
  if negb (is_completed (s_state s)) || is_cancelled (s_state s) then s else
  if retry_decide (n_cnt n) (rnoN s) (s_state s) (n_hc n) (s_cont s) (n_hb n) (s_brk s) then
    add_job (n_dl n) JContinue (set_state RUNNING_DELAYED IDelay (set_rno (Some (rnoN s + 1)) (invalidate s)))
  else s.
Definition after_n (n : ncfg) (s : st) : st := retry_n n (fail_n (n_fail n) (wa_n (n_wa n) s)).

Definition complete_n (n : ncfg) (x : state) (i : info) (s : st) : st :=
  if is_completed (s_state s) then s else
  let s2 := after_n n (set_state x i s) in
  if state_eqb (s_state s2) RUNNING_DELAYED then s2 else dispatch s2.

Definition start_n (n : ncfg) (s : st) : st :=
  if is_idle (s_state s) then
    let s0 := match s_t0 s with None => set_t0 (Some (s_now s)) s | Some _ => s end in
    let s2 := before_n n (set_state RUNNING (s_info s0) s0) in
    if state_eqb (s_state s2) RUNNING then new_action s2 else s2
  else s.

Definition act_done_n (n : ncfg) (i : nat) (x : state) (co br : bool) (s : st) : st :=
  match nth_error (s_acts s) i with
  | Some a =>
      if state_eqb (a_state a) RUNNING && result_state x then
        let s1 := set_acts (upd_nth (s_acts s) i (mkAct x true (a_start a))) s in
        let s2 := set_hist (s_hist s1 ++ [mkH (s_now s1) x co br]) (set_env co br s1) in
        complete_n n x (if state_eqb x SUCCESS then INone else IAction) s2
      else s
  | None => s
  end.

Definition fire_n (n : ncfg) (j : nat) (s : st) : st :=
  match nth_error (s_jobs s) j with
  | None => s
  | Some jb =>
      let s1 := set_jobs (del_nth (s_jobs s) j) s in
      let s1 := if s_now s <? j_at jb then set_early true s1 else s1 in
      match j_kind jb with
      | JContinue => if state_eqb (s_state s1) RUNNING_DELAYED then continue_task s1 else s1
      | JComplete x i => if state_eqb (s_state s1) RUNNING_DELAYED then complete_n n x i s1 else s1
      | JTimeout => if is_completed (s_state s1) then s1 else complete_n n ERROR ITimeout (abandon s1)
      | JRefresh => s1
      end
  end.

Definition step_n (n : ncfg) (s : st) (e : event) : st :=
  match e with
  | EStart => start_n n s
  | EResume => resume s
  | EAct i x co br => act_done_n n i x co br s
  | EFire j => fire_n n j s
  | ETick d => set_now (s_now s + d) s
  end.

Definition run_n (n : ncfg) (evs : list event) : st := fold_left (step_n n) evs init.

(* -- on a well-typed configuration no hook raises, and the machine is the numeric one -- *)

Lemma h_wb_before_ok v s : int_ok v = true -> h_wb_before v s = Ok (wb_n (as_N v) s).
Proof.
  intros H. unfold h_wb_before, wb_n. rewrite H.
  repeat match goal with |- context [if ?b then _ else _] => destruct b end; reflexivity.
Qed.

Lemma h_timeout_before_ok v s : int_ok v = true -> h_timeout_before v s = Ok (tmo_n (as_N v) s).
Proof. intros H. unfold h_timeout_before, tmo_n. rewrite H. destruct (as_N v =? 0); reflexivity. Qed.

Lemma h_conc_before_ok v s : int_ok v = true -> h_conc_before v s = Ok (conc_n (as_N v) s).
Proof. intros H. unfold h_conc_before, conc_n. rewrite H. destruct (as_N v =? 0); reflexivity. Qed.

Lemma h_pause_before_ok v s : bool_ok v = true ->
  h_pause_before v s = Ok (pause_n (match v with PBool b => b | _ => false end) s).
Proof. destruct v as [| |[|]| | |]; simpl; intros H; try discriminate; reflexivity. Qed.

Lemma h_wa_after_ok v s : int_ok v = true -> h_wa_after v s = Ok (wa_n (as_N v) s).
Proof.
  intros H. unfold h_wa_after, wa_n. rewrite H.
  repeat match goal with |- context [if ?b then _ else _] => destruct b end; reflexivity.
Qed.

Lemma h_failon_after_ok v s : h_failon_after v s = Ok (fail_n (truthy v) s).
Proof. unfold h_failon_after, fail_n. destruct (state_eqb (s_state s) SUCCESS && truthy v); reflexivity. Qed.

Lemma before_hooks_norm c s : cfg_ok c = true -> before_hooks c s = Ok (before_n (norm c) s).
Proof.
  unfold cfg_ok, opt_ok, retry_ok. intros H.
  repeat (apply andb_prop in H; destruct H as [H ?]).
  unfold before_hooks, before_n, norm, optN, opt_hook; cbn [n_pause n_wb n_tmo n_conc].
  destruct (c_pause c) as [pv|].
  2: { cbn [bind pause_n]. destruct (c_wb c) as [wb|].
       - rewrite (h_wb_before_ok _ _ H4). cbn [bind].
         destruct (c_wa c) as [wa|]; [unfold validate_int; rewrite H3|]; cbn [bind];
         (destruct (c_retry c) as [r|]; [unfold h_retry_validate; unfold retry_ok in H2; rewrite H2|]; cbn [bind]);
         (destruct (c_timeout c) as [tm|]; [rewrite (h_timeout_before_ok _ _ H1)|unfold tmo_n; cbn]; cbn [bind]);
         (destruct (c_conc c) as [cc|]; [rewrite (h_conc_before_ok _ _ H0)|unfold conc_n; cbn]); reflexivity.
       - unfold wb_n at 1; cbn [N.eqb bind].
         destruct (c_wa c) as [wa|]; [unfold validate_int; rewrite H3|]; cbn [bind];
         (destruct (c_retry c) as [r|]; [unfold h_retry_validate; unfold retry_ok in H2; rewrite H2|]; cbn [bind]);
         (destruct (c_timeout c) as [tm|]; [rewrite (h_timeout_before_ok _ _ H1)|unfold tmo_n; cbn]; cbn [bind]);
         (destruct (c_conc c) as [cc|]; [rewrite (h_conc_before_ok _ _ H0)|unfold conc_n; cbn]); reflexivity. }
  rewrite (h_pause_before_ok _ _ H). cbn [bind].
  set (s1 := pause_n _ s).
  destruct (c_wb c) as [wb|].
  - rewrite (h_wb_before_ok _ _ H4). cbn [bind].
    destruct (c_wa c) as [wa|]; [unfold validate_int; rewrite H3|]; cbn [bind];
    (destruct (c_retry c) as [r|]; [unfold h_retry_validate; unfold retry_ok in H2; rewrite H2|]; cbn [bind]);
    (destruct (c_timeout c) as [tm|]; [rewrite (h_timeout_before_ok _ _ H1)|unfold tmo_n; cbn]; cbn [bind]);
    (destruct (c_conc c) as [cc|]; [rewrite (h_conc_before_ok _ _ H0)|unfold conc_n; cbn]); reflexivity.
  - unfold wb_n at 1; cbn [N.eqb bind].
    destruct (c_wa c) as [wa|]; [unfold validate_int; rewrite H3|]; cbn [bind];
    (destruct (c_retry c) as [r|]; [unfold h_retry_validate; unfold retry_ok in H2; rewrite H2|]; cbn [bind]);
    (destruct (c_timeout c) as [tm|]; [rewrite (h_timeout_before_ok _ _ H1)|unfold tmo_n; cbn]; cbn [bind]);
    (destruct (c_conc c) as [cc|]; [rewrite (h_conc_before_ok _ _ H0)|unfold conc_n; cbn]); reflexivity.
Qed.

Lemma opt_validate_int o s : opt_ok int_ok o = true -> opt_hook o validate_int s = Ok s.
Proof. destruct o; simpl; unfold validate_int; intros H; rewrite ?H; reflexivity. Qed.

Lemma opt_validate_bool o s : opt_ok bool_ok o = true -> opt_hook o validate_bool s = Ok s.
Proof. destruct o; simpl; unfold validate_bool; intros H; rewrite ?H; reflexivity. Qed.

Lemma opt_wa_after o s : opt_ok int_ok o = true -> opt_hook o h_wa_after s = Ok (wa_n (optN o) s).
Proof. destruct o; simpl; intros H; [apply h_wa_after_ok; exact H|reflexivity]. Qed.

Lemma opt_failon_after o s :
  opt_hook o h_failon_after s = Ok (fail_n (match o with Some v => truthy v | None => false end) s).
Proof.
  destruct o; simpl; [apply h_failon_after_ok|].
  unfold fail_n. rewrite andb_false_r. reflexivity.
Qed.

Lemma retry_after_norm c s : cfg_ok c = true ->
  match c_retry c with Some r => h_retry_after false r s | None => Ok s end = Ok (retry_n (norm c) s).
Proof.
  unfold cfg_ok. intros H. repeat (apply andb_prop in H; destruct H as [H ?]).
  unfold retry_n, norm; cbn [n_cnt n_dl n_hc n_hb].
  destruct (c_retry c) as [r|]; [|reflexivity].
  unfold h_retry_after, retry_ok in *. rewrite H2. unfold rnoN.
  destruct (as_N (rc_count r) =? 0); [reflexivity|].
  destruct (negb (is_completed (s_state s)) || is_cancelled (s_state s)); [reflexivity|].
  destruct (retry_decide _ _ _ _ _ _ _); reflexivity.
Qed.

Lemma after_hooks_norm c s : cfg_ok c = true -> after_hooks c s = Ok (after_n (norm c) s).
Proof.
  intros Hok. pose proof Hok as H. unfold cfg_ok in H.
  repeat (apply andb_prop in H; destruct H as [H ?]).
  unfold after_hooks, after_n.
  rewrite (opt_validate_bool _ _ H). cbn [bind].
  rewrite (opt_validate_int _ _ H4). cbn [bind].
  rewrite (opt_wa_after _ _ H3). cbn [bind].
  rewrite opt_failon_after. cbn [bind].
  rewrite (retry_after_norm _ _ Hok). cbn [bind].
  rewrite (opt_validate_int _ _ H1). cbn [bind].
  rewrite (opt_validate_int _ _ H0). reflexivity.
Qed.

Lemma complete_norm c x i s : cfg_ok c = true -> complete c x i s = Ok (complete_n (norm c) x i s).
Proof.
  intros H. unfold complete, complete_n.
  destruct (is_completed (s_state s)); [reflexivity|].
  rewrite (after_hooks_norm _ _ H). cbn [bind].
  destruct (state_eqb _ _); reflexivity.
Qed.

Lemma step_norm c s e : cfg_ok c = true -> step c s e = step_n (norm c) s e.
Proof.
  intros H. destruct e as [| |i x co br|j|d]; cbn [step step_n]; try reflexivity.
  - unfold start, start_n. destruct (is_idle (s_state s)); [|reflexivity].
    rewrite (before_hooks_norm _ _ H). reflexivity.
  - unfold act_done, act_done_n. destruct (nth_error (s_acts s) i) as [a|]; [|reflexivity].
    destruct (state_eqb (a_state a) RUNNING && result_state x); [|reflexivity].
    rewrite (complete_norm _ _ _ _ H). reflexivity.
  - unfold fire, fire_n. destruct (nth_error (s_jobs s) j) as [jb|]; [|reflexivity].
    destruct (j_kind jb); try reflexivity.
    + rewrite (complete_norm _ _ _ _ H). reflexivity.
    + destruct (is_completed _); [reflexivity|]. rewrite (complete_norm _ _ _ _ H). reflexivity.
Qed.

Lemma run_norm_from c evs s : cfg_ok c = true -> fold_left (step c) evs s = fold_left (step_n (norm c)) evs s.
Proof.
  intros H. revert s. induction evs as [|e t IH]; intros s; [reflexivity|].
  cbn [fold_left]. rewrite (step_norm _ _ _ H). apply IH.
Qed.

Lemma run_norm c evs : cfg_ok c = true -> run c evs = run_n (norm c) evs.
Proof. intros H. apply run_norm_from, H. Qed.

(* an ill-typed evaluated value of any validated field: the first start raises the declared
   InvalidModelException, i.e. the task and the workflow are force-failed, no action starts *)
Lemma bind_raise_l s f : bind (Raise s) f = Raise s. Proof. reflexivity. Qed.

Definition raised (r : res) : Prop := exists s, r = Raise s.

Lemma bind_raised r f : raised r -> raised (bind r f).
Proof. intros (s & ->). exists s. reflexivity. Qed.

Lemma bind_ok_raised r f : (forall s, r = Ok s -> raised (f s)) -> raised (bind r f).
Proof. intros H. destruct r as [s|s]; [apply H; reflexivity|exists s; reflexivity]. Qed.

Lemma before_hooks_raise c s : cfg_ok c = false -> raised (before_hooks c s).
Proof.
  unfold cfg_ok, before_hooks. intros H.
  apply bind_ok_raised. intros s1 H1.
  destruct (opt_ok bool_ok (c_pause c)) eqn:Ep.
  2: { exfalso. destruct (c_pause c) as [[| |[|]| | |]|]; simpl in *; discriminate. }
  apply bind_ok_raised. intros s2 H2.
  destruct (opt_ok int_ok (c_wb c)) eqn:Ewb.
  2: { exfalso. destruct (c_wb c) as [v|]; simpl in *; [|discriminate].
       unfold h_wb_before in H2. rewrite Ewb in H2. discriminate. }
  apply bind_ok_raised. intros s3 H3.
  destruct (opt_ok int_ok (c_wa c)) eqn:Ewa.
  2: { exfalso. destruct (c_wa c) as [v|]; simpl in *; [|discriminate].
       unfold validate_int in H3. rewrite Ewa in H3. discriminate. }
  apply bind_ok_raised. intros s4 H4.
  destruct (match c_retry c with Some r => retry_ok r | None => true end) eqn:Er.
  2: { exfalso. destruct (c_retry c) as [r|]; [|discriminate].
       unfold h_retry_validate, retry_ok in *. rewrite Er in H4. discriminate. }
  apply bind_ok_raised. intros s5 H5.
  destruct (opt_ok int_ok (c_timeout c)) eqn:Et.
  2: { exfalso. destruct (c_timeout c) as [v|]; simpl in *; [|discriminate].
       unfold h_timeout_before in H5. rewrite Et in H5. discriminate. }
  simpl in H. destruct (c_conc c) as [v|]; simpl in *; [|discriminate].
  unfold h_conc_before. rewrite H. eexists; reflexivity.
Qed.

Lemma hook_acts_before c s r : before_hooks c s = r ->
  s_acts (match r with Ok s' => s' | Raise s' => s' end) = s_acts s.
Proof.
  intros <-. unfold before_hooks.
  assert (P : forall o (f : pval -> st -> res) s0,
             (forall v s1, s_acts (match f v s1 with Ok s' => s' | Raise s' => s' end) = s_acts s1) ->
             s_acts (match opt_hook o f s0 with Ok s' => s' | Raise s' => s' end) = s_acts s0).
  { intros [v|] f s0 Hf; simpl; auto. }
  assert (B : forall r1 f s0, s_acts (match r1 with Ok s' => s' | Raise s' => s' end) = s_acts s0 ->
             (forall s1, s_acts (match f s1 with Ok s' => s' | Raise s' => s' end) = s_acts s1) ->
             s_acts (match bind r1 f with Ok s' => s' | Raise s' => s' end) = s_acts s0).
  { intros [s1|s1] f s0 H1 Hf; simpl in *; [rewrite Hf; exact H1|exact H1]. }
  apply B; [apply P; intros v s1; destruct v as [| |[|]| | |]; reflexivity|]. intros s1.
  apply B; [apply P; intros v s2; unfold h_wb_before;
            repeat match goal with |- context [if ?b then _ else _] => destruct b end; reflexivity|]. intros s2.
  apply B; [apply P; intros v s3; unfold validate_int; destruct (int_ok v); reflexivity|]. intros s3.
  apply B; [destruct (c_retry c) as [r|]; [unfold h_retry_validate; destruct (_ && _)|]; reflexivity|]. intros s4.
  apply B; [apply P; intros v s5; unfold h_timeout_before;
            repeat match goal with |- context [if ?b then _ else _] => destruct b end; reflexivity|]. intros s5.
  apply P; intros v s6; unfold h_conc_before;
    repeat match goal with |- context [if ?b then _ else _] => destruct b end; reflexivity.
Qed.

Theorem start_ill_typed c s :
  cfg_ok c = false -> is_idle (s_state s) = true ->
  let s' := start c s in
  s_state s' = ERROR /\ s_info s' = IForced /\ s_wf s' = ERROR /\ s_acts s' = s_acts s.
Proof.
  intros H Hi. unfold start. rewrite Hi.
  set (s0 := match s_t0 s with None => _ | Some _ => s end).
  destruct (before_hooks_raise c (set_state RUNNING (s_info s0) s0) H) as (s2 & E).
  pose proof (hook_acts_before c _ _ E) as Ha. rewrite E. simpl in Ha.
  repeat split; try reflexivity.
  cbn. rewrite Ha. unfold s0. destruct (s_t0 s); reflexivity.
Qed.

(* ------------------------------------------------------------------ *)
(* the attempt bound: for every numeric configuration and EVERY event sequence *)

Local Arguments N.add : simpl never.
Local Arguments N.of_nat : simpl never.
Local Arguments N.ltb : simpl never.
Local Arguments N.leb : simpl never.

Definition is_cont (j : job) : bool := match j_kind j with JContinue => true | _ => false end.
Definition njc (l : list job) : nat := length (filter is_cont l).
Arguments njc : simpl never.
Definition jc_ok (j : job) : Prop := match j_kind j with JComplete x _ => is_idle x = false | _ => True end.
Definition delta (s : st) : N := if is_idle (s_state s) then 0 else 1.

Definition Bnd (n : ncfg) (s : st) : Prop :=
  N.of_nat (length (s_acts s) + njc (s_jobs s)) <= delta s + rnoN s /\
  rnoN s <= n_cnt n /\ Forall jc_ok (s_jobs s).

Lemma njc_app l j : njc (l ++ [j]) = (njc l + (if is_cont j then 1 else 0))%nat.
Proof. unfold njc. rewrite filter_app, app_length. simpl. destruct (is_cont j); reflexivity. Qed.

Lemma njc_del l : forall j jb, nth_error l j = Some jb ->
  njc l = (njc (del_nth l j) + (if is_cont jb then 1 else 0))%nat.
Proof.
  induction l as [|h t IH]; intros [|j] jb H; simpl in *; try discriminate.
  - inversion H; subst. unfold njc. simpl. destruct (is_cont jb); simpl; lia.
  - specialize (IH _ _ H). unfold njc in *. simpl. destruct (is_cont h); simpl; lia.
Qed.

Lemma Forall_del {A} (P : A -> Prop) l : forall j, Forall P l -> Forall P (del_nth l j).
Proof.
  induction l as [|h t IH]; intros [|j] H; simpl; auto; inversion H; subst; auto.
Qed.

Lemma Forall_nth {A} (P : A -> Prop) l j x : Forall P l -> nth_error l j = Some x -> P x.
Proof. intros H E. rewrite Forall_forall in H. apply H. eapply nth_error_In; eauto. Qed.

Lemma upd_nth_length {A} (l : list A) : forall i x, length (upd_nth l i x) = length l.
Proof. induction l as [|h t IH]; intros [|i] x; simpl; auto. Qed.

Definition Rel (n : ncfg) (s s' : st) : Prop :=
  length (s_acts s') = length (s_acts s) /\
  (Forall jc_ok (s_jobs s) -> Forall jc_ok (s_jobs s')) /\
  ((njc (s_jobs s') = njc (s_jobs s) /\ rnoN s' = rnoN s) \/
   (njc (s_jobs s') = S (njc (s_jobs s)) /\ rnoN s' = rnoN s + 1 /\ rnoN s' <= n_cnt n)).

Lemma retry_decide_remain cnt rn x hc co hb br : retry_decide cnt rn x hc co hb br = true -> rn < cnt.
Proof.
  unfold retry_decide. destruct (negb (is_completed x) || is_cancelled x); [discriminate|].
  destruct (rn <? cnt) eqn:E; [lia|]. simpl. discriminate.
Qed.

Lemma after_rel n s : is_idle (s_state s) = false ->
  Rel n s (after_n n s) /\ is_idle (s_state (after_n n s)) = false.
Proof.
  intros Hi. unfold after_n.
  set (s1 := wa_n (n_wa n) s).
  assert (H1 : length (s_acts s1) = length (s_acts s) /\ njc (s_jobs s1) = njc (s_jobs s) /\ rnoN s1 = rnoN s /\
               (Forall jc_ok (s_jobs s) -> Forall jc_ok (s_jobs s1)) /\ is_idle (s_state s1) = false).
  { unfold s1, wa_n. destruct (n_wa n =? 0); [auto 6|]. destruct (s_waskip s); [auto 6|].
    cbn. rewrite njc_app. cbn. repeat split; auto; try lia;
      try (intros HF; apply Forall_app; split; auto; constructor; auto; exact Hi). }
  destruct H1 as (A1 & J1 & R1 & F1 & I1).
  set (s2 := fail_n (n_fail n) s1).
  assert (H2 : length (s_acts s2) = length (s_acts s) /\ njc (s_jobs s2) = njc (s_jobs s) /\ rnoN s2 = rnoN s /\
               (Forall jc_ok (s_jobs s) -> Forall jc_ok (s_jobs s2)) /\ is_idle (s_state s2) = false).
  { unfold s2, fail_n. destruct (_ && _); cbn; auto 6. }
  clearbody s2. clear A1 J1 R1 F1 I1. destruct H2 as (A2 & J2 & R2 & F2 & I2).
  unfold retry_n. destruct (n_cnt n =? 0); [unfold Rel; auto 6|].
  destruct (negb _ || _); [unfold Rel; auto 6|].
  destruct (retry_decide _ _ _ _ _ _ _) eqn:D; [|unfold Rel; auto 6].
  apply retry_decide_remain in D.
  unfold Rel. cbn. rewrite njc_app, map_length. cbn. repeat split; auto.
  - intros HF. apply Forall_app. split; auto. constructor; auto. exact I.
  - right. repeat split; try lia.
Qed.

Lemma complete_rel n x i s : is_idle x = false ->
  Rel n s (complete_n n x i s) /\ (is_idle (s_state (complete_n n x i s)) = true -> is_idle (s_state s) = true).
Proof.
  intros Hx. unfold complete_n.
  destruct (is_completed (s_state s)) eqn:C.
  { split; [unfold Rel; auto 6|auto]. }
  destruct (after_rel n (set_state x i s) Hx) as (R & I).
  cbn in R. set (s2 := after_n n (set_state x i s)) in *.
  assert (forall s3, s3 = s2 \/ s3 = dispatch s2 ->
          Rel n s s3 /\ (is_idle (s_state s3) = true -> is_idle (s_state s) = true)) as K.
  { intros s3 [->| ->]; [split; [exact R|congruence]|].
    unfold dispatch. destruct (is_paused (s_wf s2)); [split; [exact R|congruence]|].
    split; [exact R|]. cbn. congruence. }
  destruct (state_eqb (s_state s2) RUNNING_DELAYED); apply K; auto.
Qed.

Lemma rel_bnd n s s' : Bnd n s -> Rel n s s' -> (is_idle (s_state s') = true -> is_idle (s_state s) = true) -> Bnd n s'.
Proof.
  intros (B1 & B2 & B3) (A & F & K) I. unfold Bnd.
  assert (delta s <= delta s') as D.
  { unfold delta. destruct (is_idle (s_state s')); [rewrite I by reflexivity|destruct (is_idle (s_state s))]; lia. }
  destruct K as [(K1 & K2)|(K1 & K2 & K3)]; rewrite A, K1, K2; repeat split; auto; lia.
Qed.

Lemma before_bnd n s :
  Bnd n s -> is_idle (s_state s) = true ->
  let s2 := before_n n (set_state RUNNING (s_info s) s) in
  Bnd n (if state_eqb (s_state s2) RUNNING then new_action s2 else s2).
Proof.
  intros (B1 & B2 & B3) Hi. unfold delta in B1. rewrite Hi in B1.
  unfold before_n.
  set (s0 := set_state RUNNING (s_info s) s).
  set (s1 := pause_n (n_pause n) s0).
  assert (P1 : s_acts s1 = s_acts s /\ s_jobs s1 = s_jobs s /\ rnoN s1 = rnoN s /\ (s_state s1 = IDLE \/ s_state s1 = RUNNING)).
  { unfold s1, pause_n. destruct (n_pause n); cbn; auto. }
  destruct P1 as (A1 & J1 & R1 & S1).
  set (s2 := wb_n (n_wb n) s1).
  assert (P2 : s_acts s2 = s_acts s /\ rnoN s2 = rnoN s /\
               ((s_jobs s2 = s_jobs s /\ (s_state s2 = IDLE \/ s_state s2 = RUNNING)) \/
                (s_jobs s2 = s_jobs s ++ [mkJob (s_now s1 + n_wb n) JContinue] /\ s_state s2 = RUNNING_DELAYED))).
  { unfold s2, wb_n. destruct (n_wb n =? 0); [auto 6|].
    destruct (s_wbskip s1); [cbn; auto 7|].
    destruct (state_eqb (s_state s1) IDLE); [auto 6|].
    cbn. rewrite J1. auto 7. }
  destruct P2 as (A2 & R2 & S2).
  set (s3 := tmo_n (n_tmo n) s2).
  assert (P3 : s_acts s3 = s_acts s2 /\ rnoN s3 = rnoN s2 /\ s_state s3 = s_state s2 /\
               njc (s_jobs s3) = njc (s_jobs s2) /\ (Forall jc_ok (s_jobs s2) -> Forall jc_ok (s_jobs s3))).
  { unfold s3, tmo_n. destruct (n_tmo n =? 0); [auto 6|]. cbn. rewrite njc_app. cbn. repeat split; auto; try lia.
    intros HF. apply Forall_app. split; auto. constructor; auto. exact I. }
  destruct P3 as (A3 & R3 & S3 & J3 & F3).
  set (s4 := conc_n (n_conc n) s3).
  assert (P4 : s_acts s4 = s_acts s3 /\ rnoN s4 = rnoN s3 /\ s_state s4 = s_state s3 /\ s_jobs s4 = s_jobs s3).
  { unfold s4, conc_n. destruct (n_conc n =? 0); cbn; auto. }
  destruct P4 as (A4 & R4 & S4 & J4).
  assert (F2 : Forall jc_ok (s_jobs s2)).
  { destruct S2 as [(-> & _)|(-> & _)]; auto. apply Forall_app. split; auto. constructor; auto. exact I. }
  rewrite S4, S3.
  destruct S2 as [(J2 & [St|St])|(J2 & St)]; rewrite St; cbn [state_eqb].
  - unfold Bnd, delta. rewrite S4, S3, St, A4, A3, A2, J4, J3, J2, R4, R3, R2. cbn [is_idle state_eqb].
    repeat split; auto; try lia; try (rewrite ?J4; apply F3, F2).
  - assert (E1 : rnoN (new_action s4) = rnoN s4) by reflexivity.
    assert (E2 : s_jobs (new_action s4) = s_jobs s4) by reflexivity.
    assert (E3 : s_state (new_action s4) = s_state s4) by reflexivity.
    assert (E4 : s_acts (new_action s4) = s_acts s4 ++ [mkAct RUNNING false (s_now s4)]) by reflexivity.
    unfold Bnd, delta. rewrite E1, E2, E3, E4, S4, S3, St, app_length, A4, A3, A2, J4, J3, J2, R4, R3, R2.
    cbn [is_idle state_eqb length]. repeat split; auto; try lia; try (rewrite ?J4; apply F3, F2).
  - unfold Bnd, delta. rewrite S4, S3, St, A4, A3, A2, J4, J3, J2, R4, R3, R2. cbn [is_idle state_eqb].
    rewrite njc_app. cbn [is_cont j_kind]. repeat split; auto; try lia; try (rewrite ?J4; apply F3, F2).
Qed.

Lemma step_bnd n s e : Bnd n s -> Bnd n (step_n n s e).
Proof.
  intros B. destruct e as [| |i x co br|j|d]; cbn [step_n].
  - unfold start_n. destruct (is_idle (s_state s)) eqn:Hi; [|exact B].
    set (s0 := match s_t0 s with None => _ | Some _ => s end).
    assert (B0 : Bnd n s0) by (unfold s0; destruct (s_t0 s); exact B).
    assert (Hi0 : is_idle (s_state s0) = true) by (unfold s0; destruct (s_t0 s); exact Hi).
    exact (before_bnd n s0 B0 Hi0).
  - unfold resume. destruct (is_paused (s_wf s)); [|exact B].
    cbn. destruct (is_idle (s_state s)) eqn:Hi; [|exact B].
    destruct B as (B1 & B2 & B3). unfold delta in B1. rewrite Hi in B1.
    unfold Bnd, delta. cbn. rewrite app_length, map_length. cbn. change (rnoN (run_existing_resumed (set_wf RUNNING s))) with (rnoN s). repeat split; auto; lia.
  - unfold act_done_n. destruct (nth_error (s_acts s) i) as [a|]; [|exact B].
    destruct (state_eqb (a_state a) RUNNING && result_state x) eqn:E; [|exact B].
    apply andb_prop in E. destruct E as (_ & Ex).
    set (s2 := set_hist _ _).
    assert (B2 : Bnd n s2).
    { destruct B as (B1 & B2 & B3). unfold Bnd, delta. cbn. rewrite upd_nth_length. auto. }
    destruct (complete_rel n x (if state_eqb x SUCCESS then INone else IAction) s2
                (completed_not_idle _ (result_completed _ Ex))) as (R & I).
    exact (rel_bnd _ _ _ B2 R I).
  - unfold fire_n. destruct (nth_error (s_jobs s) j) as [jb|] eqn:E; [|exact B].
    set (s1 := if s_now s <? j_at jb then _ else _).
    assert (B1 : N.of_nat (length (s_acts s1) + njc (s_jobs s1) + (if is_cont jb then 1 else 0)) <= delta s1 + rnoN s1 /\
                 rnoN s1 <= n_cnt n /\ Forall jc_ok (s_jobs s1) /\ s_state s1 = s_state s).
    { destruct B as (B1 & B2 & B3). rewrite (njc_del _ _ _ E) in B1.
      assert (Q : s_acts s1 = s_acts s /\ s_jobs s1 = del_nth (s_jobs s) j /\ rnoN s1 = rnoN s /\ s_state s1 = s_state s)
        by (unfold s1; destruct (_ <? _); repeat split; reflexivity).
      destruct Q as (Q1 & Q2 & Q3 & Q4). unfold delta in *. rewrite Q1, Q2, Q3, Q4.
      repeat split; auto; [lia|apply Forall_del; exact B3]. }
    destruct B1 as (C1 & C2 & C3 & C4).
    pose proof (Forall_nth _ _ _ _ (let '(conj _ (conj _ f)) := B in f) E) as Hjb.
    unfold jc_ok, is_cont in *. destruct (j_kind jb) as [|x i| |].
    + destruct (state_eqb (s_state s1) RUNNING_DELAYED); [|unfold Bnd; repeat split; auto; lia].
      assert (Q : length (s_acts (continue_task s1)) = S (length (s_acts s1)) /\ s_jobs (continue_task s1) = s_jobs s1 /\
                  rnoN (continue_task s1) = rnoN s1 /\ s_state (continue_task s1) = RUNNING).
      { unfold continue_task, new_action, reset_actions. cbn. rewrite app_length, map_length. cbn.
        repeat split; auto; lia. }
      destruct Q as (Q1 & Q2 & Q3 & Q4). unfold Bnd, delta. rewrite Q1, Q2, Q3, Q4. cbn [is_idle state_eqb].
      unfold delta in C1. destruct (is_idle (s_state s1)); repeat split; auto; lia.
    + assert (B1 : Bnd n s1) by (unfold Bnd; repeat split; auto; lia).
      destruct (state_eqb (s_state s1) RUNNING_DELAYED); [|exact B1].
      destruct (complete_rel n x i s1 Hjb) as (R & I). exact (rel_bnd _ _ _ B1 R I).
    + assert (B1 : Bnd n s1) by (unfold Bnd; repeat split; auto; lia).
      destruct (is_completed (s_state s1)); [exact B1|].
      assert (B2 : Bnd n (abandon s1)).
      { destruct B1 as (X1 & X2 & X3). unfold Bnd, delta, abandon. cbn [s_acts s_jobs s_state set_acts].
        change (rnoN (set_acts _ s1)) with (rnoN s1). rewrite map_length. repeat split; auto. }
      destruct (complete_rel n ERROR ITimeout (abandon s1) eq_refl) as (R & I). exact (rel_bnd _ _ _ B2 R I).
    + unfold Bnd; repeat split; auto; lia.
  - exact B.
Qed.

Lemma init_bnd n : Bnd n init.
Proof. unfold Bnd, delta, njc, rnoN. cbn. repeat split; auto; lia. Qed.

Lemma run_bnd n evs s : Bnd n s -> Bnd n (fold_left (step_n n) evs s).
Proof. revert s. induction evs as [|e t IH]; intros s B; [exact B|]. cbn. apply IH, step_bnd, B. Qed.

(* C08_retry_bound *)
Theorem attempts_bound c evs : cfg_ok c = true ->
  N.of_nat (length (s_acts (run c evs))) <= n_cnt (norm c) + 1.
Proof.
  intros H. rewrite (run_norm _ _ H).
  destruct (run_bnd (norm c) evs init (init_bnd _)) as (B1 & B2 & _).
  unfold run_n. unfold delta in B1. destruct (is_idle _); lia.
Qed.

(* ------------------------------------------------------------------ *)
(* timeout: both firing orders, from ANY state (single transaction each) *)

(* the timer finds the task completed: nothing but the job row changes *)
Theorem timeout_after_completion n s j jb :
  nth_error (s_jobs s) j = Some jb -> j_kind jb = JTimeout -> j_at jb <= s_now s ->
  is_completed (s_state s) = true ->
  step_n n s (EFire j) = set_jobs (del_nth (s_jobs s) j) s.
Proof.
  intros E K T C. cbn [step_n]. unfold fire_n. rewrite E, K.
  assert (s_now s <? j_at jb = false) as -> by lia. cbn [s_state set_jobs]. rewrite C. reflexivity.
Qed.

(* the timer finds the task incomplete and there is no retry policy: the task is ERROR with the
   timeout message at once, or - when a wait-after delay is still to be served - DELAYED with the
   completion job carrying ERROR and the timeout message *)
Theorem timeout_before_completion n s j jb :
  nth_error (s_jobs s) j = Some jb -> j_kind jb = JTimeout ->
  is_completed (s_state s) = false -> n_cnt n = 0 ->
  let s' := step_n n s (EFire j) in
  (s_state s' = ERROR /\ s_info s' = ITimeout /\ (n_wa n = 0 \/ s_waskip s = true)) \/
  (s_state s' = RUNNING_DELAYED /\ n_wa n <> 0 /\ s_waskip s = false /\
   exists l, s_jobs s' = l ++ [mkJob (s_now s + n_wa n) (JComplete ERROR ITimeout)]).
Proof.
  intros E K C R. cbn [step_n]. unfold fire_n. rewrite E, K.
  set (s1 := if s_now s <? j_at jb then _ else _).
  assert (Q : s_state s1 = s_state s /\ s_waskip s1 = s_waskip s /\ s_now s1 = s_now s /\ s_wf s1 = s_wf s)
    by (unfold s1; destruct (_ <? _); repeat split; reflexivity).
  destruct Q as (Q1 & Q2 & Q3 & Q4). rewrite Q1, C.
  assert (Q' : s_state (abandon s1) = s_state s /\ s_waskip (abandon s1) = s_waskip s /\ s_now (abandon s1) = s_now s /\
               s_wf (abandon s1) = s_wf s) by (repeat split; assumption).
  clear Q1 Q2 Q3 Q4. destruct Q' as (Q1 & Q2 & Q3 & Q4). set (s2 := abandon s1) in *. clearbody s2. clear s1. rename s2 into s1.
  unfold complete_n. rewrite Q1, C. unfold after_n, retry_n. rewrite R. cbn [N.eqb].
  unfold wa_n. cbn [s_waskip set_state]. rewrite Q2.
  destruct (n_wa n =? 0) eqn:W.
  - unfold fail_n. cbn. unfold dispatch. cbn. destruct (is_paused _); cbn; left; repeat split; auto; left; lia.
  - destruct (s_waskip s) eqn:K2.
    + unfold fail_n. cbn. unfold dispatch. cbn. destruct (is_paused _); cbn; left; repeat split; auto.
    + unfold fail_n. cbn. right. repeat split; auto; try lia. rewrite Q3. eexists. reflexivity.
Qed.

(* a result that arrives after the task completed (e.g. after the timer failed it) changes
   only the action row, the evaluation context and the ghost history *)
Theorem late_result_ignored n s i x co br :
  is_completed (s_state s) = true ->
  let s' := step_n n s (EAct i x co br) in
  s_state s' = s_state s /\ s_info s' = s_info s /\ s_jobs s' = s_jobs s /\ s_disp s' = s_disp s /\
  length (s_acts s') = length (s_acts s) /\ s_rno s' = s_rno s.
Proof.
  intros C. cbn [step_n]. unfold act_done_n.
  destruct (nth_error (s_acts s) i) as [a|]; [|auto 7].
  destruct (_ && _); [|auto 7].
  unfold complete_n. cbn [s_state set_hist set_env set_acts]. rewrite C. cbn. rewrite upd_nth_length. auto 7.
Qed.

(* ------------------------------------------------------------------ *)
(* fail-on: a task whose fail-on holds is never SUCCESS, whatever happens *)

Lemma after_n_not_success n s : n_fail n = true -> s_state (after_n n s) <> SUCCESS.
Proof.
  intros F. unfold after_n.
  set (s2 := fail_n (n_fail n) (wa_n (n_wa n) s)).
  assert (H2 : s_state s2 <> SUCCESS).
  { unfold s2, fail_n. rewrite F, andb_true_r.
    destruct (state_eqb (s_state (wa_n (n_wa n) s)) SUCCESS) eqn:E; [cbn; discriminate|].
    intros Heq. rewrite Heq in E. discriminate. }
  clearbody s2. unfold retry_n. destruct (n_cnt n =? 0); auto. destruct (_ || _); auto.
  destruct (retry_decide _ _ _ _ _ _ _); auto. cbn. discriminate.
Qed.

Lemma complete_n_not_success n x i s : n_fail n = true -> s_state s <> SUCCESS -> s_state (complete_n n x i s) <> SUCCESS.
Proof.
  intros F H. unfold complete_n. destruct (is_completed (s_state s)); auto.
  pose proof (after_n_not_success n (set_state x i s) F) as A.
  destruct (state_eqb _ _); auto. unfold dispatch. destruct (is_paused _); auto.
Qed.

Lemma before_n_state n s : s_state s = RUNNING ->
  s_state (before_n n s) = IDLE \/ s_state (before_n n s) = RUNNING \/ s_state (before_n n s) = RUNNING_DELAYED.
Proof.
  intros H. unfold before_n.
  set (s1 := pause_n (n_pause n) s).
  assert (H1 : s_state s1 = IDLE \/ s_state s1 = RUNNING) by (unfold s1, pause_n; destruct (n_pause n); cbn; auto).
  set (s2 := wb_n (n_wb n) s1).
  assert (H2 : s_state s2 = IDLE \/ s_state s2 = RUNNING \/ s_state s2 = RUNNING_DELAYED).
  { unfold s2, wb_n. destruct (n_wb n =? 0); [tauto|]. destruct (s_wbskip s1); [cbn; auto|].
    destruct (state_eqb (s_state s1) IDLE); [tauto|]. cbn. auto. }
  clearbody s2. unfold conc_n, tmo_n.
  destruct (n_conc n =? 0), (n_tmo n =? 0); cbn; exact H2.
Qed.

Lemma step_not_success n s e : n_fail n = true -> s_state s <> SUCCESS -> s_state (step_n n s e) <> SUCCESS.
Proof.
  intros F H. destruct e as [| |i x co br|j|d]; cbn [step_n]; auto.
  - unfold start_n. destruct (is_idle (s_state s)); auto.
    set (s0 := match s_t0 s with None => _ | Some _ => s end).
    destruct (before_n_state n (set_state RUNNING (s_info s0) s0) eq_refl) as [E|[E|E]]; rewrite E; cbn; congruence.
  - unfold resume. destruct (is_paused (s_wf s)); auto. cbn. destruct (is_idle (s_state s)); cbn; auto. discriminate.
  - unfold act_done_n. destruct (nth_error (s_acts s) i) as [a|]; auto. destruct (_ && _); auto.
    apply complete_n_not_success; auto.
  - unfold fire_n. destruct (nth_error (s_jobs s) j) as [jb|]; auto.
    set (s1 := if s_now s <? j_at jb then _ else _).
    assert (Q : s_state s1 = s_state s) by (unfold s1; destruct (_ <? _); reflexivity).
    destruct (j_kind jb); try (rewrite Q; exact H).
    + destruct (state_eqb (s_state s1) RUNNING_DELAYED); [cbn; discriminate|rewrite Q; exact H].
    + destruct (state_eqb (s_state s1) RUNNING_DELAYED); [|rewrite Q; exact H].
      apply complete_n_not_success; auto. rewrite Q; auto.
    + destruct (is_completed (s_state s1)); [rewrite Q; auto|]. apply complete_n_not_success; auto.
      change (s_state (abandon s1)) with (s_state s1). rewrite Q; auto.
Qed.

Theorem fail_on_never_success c evs : cfg_ok c = true -> n_fail (norm c) = true -> s_state (run c evs) <> SUCCESS.
Proof.
  intros H F. rewrite (run_norm _ _ H). unfold run_n.
  assert (G : forall evs s, s_state s <> SUCCESS -> s_state (fold_left (step_n (norm c)) evs s) <> SUCCESS).
  { induction evs0 as [|e t IH]; intros s Hs; [exact Hs|]. cbn. apply IH, step_not_success; auto. }
  apply G. cbn. discriminate.
Qed.

(* the transaction that completes a successful attempt of a fail-on task (no retry, no wait-after
   delay to serve): ERROR with the fail-on message, follow-ups dispatched for ERROR *)
Theorem fail_on_turns_success_into_error n s :
  n_fail n = true -> n_cnt n = 0 -> (n_wa n = 0 \/ s_waskip s = true) ->
  is_completed (s_state s) = false -> is_paused (s_wf s) = false ->
  let s' := complete_n n SUCCESS INone s in
  s_state s' = ERROR /\ s_info s' = IFailOn /\ s_disp s' = s_disp s ++ [(s_now s, ERROR)].
Proof.
  intros F R W C P. unfold complete_n. rewrite C. unfold after_n, retry_n. rewrite R. cbn [N.eqb].
  unfold wa_n. cbn [s_waskip set_state].
  assert (E : (if n_wa n =? 0 then set_state SUCCESS INone s else if s_waskip s then set_state SUCCESS INone s else
               add_job (n_wa n) (JComplete (s_state (set_state SUCCESS INone s)) (s_info (set_state SUCCESS INone s)))
                 (set_state RUNNING_DELAYED IDelay (set_waskip true (set_state SUCCESS INone s)))) = set_state SUCCESS INone s).
  { destruct W as [W|W]; [rewrite W; reflexivity|rewrite W; destruct (n_wa n =? 0); reflexivity]. }
  rewrite E. unfold fail_n. rewrite F. cbn. unfold dispatch. cbn. rewrite P. cbn. auto.
Qed.

(* ------------------------------------------------------------------ *)
(* build_policies: a task-level policy wins, task-defaults fill only what the task leaves out *)

Lemma pick_some {A} (a b : option A) v : a = Some v -> pick a b = Some v.
Proof. intros ->. reflexivity. Qed.
Lemma pick_none {A} (a b : option A) : a = None -> pick a b = b.
Proof. intros ->. reflexivity. Qed.

Theorem build_task_level_wins t d :
  (forall v, f_pause t = Some v -> c_pause (build (Some t) d) = Some v) /\
  (forall v, f_wb t = Some v -> c_wb (build (Some t) d) = Some v) /\
  (forall v, f_wa t = Some v -> c_wa (build (Some t) d) = Some v) /\
  (forall v, f_failon t = Some v -> c_failon (build (Some t) d) = Some v) /\
  (forall v, f_retry t = Some v -> c_retry (build (Some t) d) = Some v) /\
  (forall v, f_timeout t = Some v -> c_timeout (build (Some t) d) = Some v) /\
  (forall v, f_conc t = Some v -> c_conc (build (Some t) d) = Some v).
Proof. repeat split; intros v H; cbn; apply pick_some, H. Qed.

Theorem build_defaults_fill t d :
  (f_pause t = None -> c_pause (build (Some t) d) = via f_pause d) /\
  (f_wb t = None -> c_wb (build (Some t) d) = via f_wb d) /\
  (f_wa t = None -> c_wa (build (Some t) d) = via f_wa d) /\
  (f_failon t = None -> c_failon (build (Some t) d) = via f_failon d) /\
  (f_retry t = None -> c_retry (build (Some t) d) = via f_retry d) /\
  (f_timeout t = None -> c_timeout (build (Some t) d) = via f_timeout d) /\
  (f_conc t = None -> c_conc (build (Some t) d) = via f_conc d).
Proof. repeat split; intros H; cbn; apply pick_none, H. Qed.

(* a literal 0 / false at task level does not switch a task-default off *)
Lemma literal_zero_falls_through t d :
  ps_wb t = Lit (PInt 0) -> c_wb (build (Some t) (Some d)) = f_wb d.
Proof. intros H. cbn. unfold f_wb at 1. rewrite H. reflexivity. Qed.
