(* Proofs about Model/JoinLife.v: a join execution starts at most once, and only with >= k routed inbound tasks,
   for every sequence of triggers / refreshes / completions / failures - provided a join that has RUN is not
   re-armed (re-arming one that failed without starting is harmless). *)
From Coq Require Import List Arith Bool Lia.
Require Import Mistral.Model.JoinLife.
Import ListNotations.

Definition life_inv (k : nat) (l : jlife) : Prop :=
  (starts l = 0 -> js l = JAbsent \/ js l = JWaiting \/ js l = JFailed) /\
  (starts l <= 1) /\
  (starts l = 1 -> (js l = JRunning \/ js l = JDone) /\ k <= routed_n l).

Lemma life_inv_step : forall ru k l e, life_inv k l -> life_inv k (life_step false ru k l e).
Proof.
  intros ru k l e [H0 [H1 H2]]. destruct l as [s r n]. simpl in *. destruct e; simpl.
  - unfold life_inv; simpl. split; [|split].
    + intros Hn. destruct (H0 Hn) as [Hs | [Hs | Hs]]; subst; simpl; auto. destruct ru; auto.
    + exact H1.
    + intros Hn. destruct (H2 Hn) as [[Hs | Hs] Hk]; subst; simpl; split; auto.
  - destruct s; try (unfold life_inv; simpl; auto).
    destruct (Nat.leb_spec k r) as [Hk | Hk]; unfold life_inv; simpl; [|auto].
    assert (n = 0).
    { destruct n as [|[|n]]; [reflexivity| |lia]. destruct (H2 eq_refl) as [[Hs | Hs] _]; discriminate. }
    subst n. split; [discriminate|]. split; [lia|]. intros _. auto.
  - destruct s; try (unfold life_inv; simpl; auto).
    unfold life_inv; simpl. split; [|split].
    + intros Hn. destruct (H0 Hn) as [Hs | [Hs | Hs]]; discriminate.
    + exact H1.
    + intros Hn. destruct (H2 Hn) as [_ Hk]. auto.
  - destruct s; try (unfold life_inv; simpl; auto).
    unfold life_inv; simpl. split; [|split].
    + auto.
    + exact H1.
    + intros Hn. destruct (H2 Hn) as [[Hs | Hs] _]; discriminate.
Qed.

Lemma life_inv_run : forall ru k evs, life_inv k (life_run false ru k evs).
Proof.
  intros ru k evs. unfold life_run.
  assert (H0 : life_inv k life0) by (unfold life_inv, life0; simpl; repeat split; auto; try lia; discriminate).
  revert H0. generalize life0. induction evs as [|e tl IH]; intros l Hl; simpl; [exact Hl|].
  apply IH. apply life_inv_step. exact Hl.
Qed.

(* at most one start, whatever happens, when joins that have run are not re-armed *)
Theorem life_once : forall ru k evs, starts (life_run false ru k evs) <= 1.
Proof. intros ru k evs. destruct (life_inv_run ru k evs) as [_ [H _]]. exact H. Qed.

(* every start happens with the required number of inbound tasks routed (re-arming or not) *)
Lemma life_start_sound_gen : forall rearm ru k evs l,
  (0 < starts l -> k <= routed_n l) ->
  0 < starts (fold_left (life_step rearm ru k) evs l) -> k <= routed_n (fold_left (life_step rearm ru k) evs l).
Proof.
  intros rearm ru k evs. induction evs as [|e tl IH]; intros l Hl; simpl; [exact Hl|].
  apply IH. destruct l as [s r n]. destruct e; simpl in *.
  - intros Hn. specialize (Hl Hn). lia.
  - destruct s; simpl; auto. destruct (Nat.leb_spec k r); simpl; auto.
  - destruct s; simpl; auto.
  - destruct s; simpl; auto.
Qed.

Theorem life_start_sound : forall rearm ru k evs,
  0 < starts (life_run rearm ru k evs) -> k <= routed_n (life_run rearm ru k evs).
Proof. intros. apply life_start_sound_gen; [simpl; lia | assumption]. Qed.

(* with re-arming a partial join (k = 1 of 2 inbound tasks) starts twice: the late branch re-triggers it *)
Theorem life_twice_with_rearm : forall ru,
  starts (life_run true ru 1 [Trigger; Refresh; Complete; Trigger; Refresh]) = 2.
Proof. intros ru. vm_compute. reflexivity. Qed.

(* so: "at most one start for every event sequence and every k" holds exactly when joins that have run are not re-armed *)
Theorem life_once_iff : forall rearm ru,
  (forall k evs, starts (life_run rearm ru k evs) <= 1) <-> rearm = false.
Proof.
  intros rearm ru. split.
  - intros H. destruct rearm; [|reflexivity]. specialize (H 1 [Trigger; Refresh; Complete; Trigger; Refresh]).
    rewrite life_twice_with_rearm in H. lia.
  - intros He k evs. subst. apply life_once.
Qed.
