(* Proofs about Model/Beat.v (property C20): expiry selection, checker pass, operation
   sequences under a virtual clock, integrity check. *)
From Coq Require Import List ZArith Bool Lia ZifyBool ZifyNat ZifyN Arith.
Require Import Mistral.Gen.States Mistral.Gen.IntegrityShape Mistral.Model.Beat.
Import ListNotations.
Open Scope Z_scope.

(* ------------------------------------------------------------------ *)
(* basics                                                              *)

Lemma state_eqb_running s : state_eqb s RUNNING = true <-> s = RUNNING.
Proof. destruct s; cbn; split; congruence. Qed.

Lemma running_not_completed s : s = RUNNING -> is_completed s = false.
Proof. intros ->. reflexivity. Qed.

Lemma completed_not_running s : is_completed s = true -> state_eqb s RUNNING = false.
Proof. destruct s; cbn; congruence. Qed.

Lemma sync_true_iff o : sync_true o = true <-> o = Some true.
Proof. destruct o as [[|]|]; cbn; split; congruence. Qed.

Lemma hb_before_iff o t : hb_before o t = true <-> exists h, o = Some h /\ h < t.
Proof.
  destruct o as [h|]; cbn.
  - rewrite Z.ltb_lt. split; [intros H; exists h; auto | intros (h' & E & L); congruence].
  - split; [discriminate | intros (h & E & _); discriminate].
Qed.

Lemma expired_iff c now r :
  expired c now r = true <->
  a_state r = RUNNING /\ a_sync r = Some true /\
  exists h, a_hb r = Some h /\ h < now - max_missed c * interval c.
Proof.
  unfold expired, exp_date.
  rewrite !andb_true_iff, hb_before_iff, sync_true_iff, state_eqb_running. tauto.
Qed.

(* C20_expired_exact *)
Lemma select_exact c now tbl r :
  In r (select c now tbl) <->
  In r tbl /\ a_state r = RUNNING /\ a_sync r = Some true /\
  exists h, a_hb r = Some h /\ h < now - max_missed c * interval c.
Proof. unfold select. rewrite filter_In, expired_iff. tauto. Qed.

(* C20_never_fresh_async_finished: each reason alone excludes a row from the selection *)
Lemma not_selected c now tbl r :
  (a_state r <> RUNNING \/ a_sync r <> Some true \/ a_hb r = None \/
   (exists h, a_hb r = Some h /\ now - max_missed c * interval c <= h)) ->
  ~ In r (select c now tbl).
Proof.
  intros H Hin. apply select_exact in Hin. destruct Hin as (_ & Hs & Hy & h & Hh & Hl).
  destruct H as [H|[H|[H|(h' & H & Hle)]]]; try congruence.
  rewrite Hh in H. inversion H. lia.
Qed.

(* ------------------------------------------------------------------ *)
(* complete / force                                                    *)

Lemma force_id k r : a_id (force k r) = a_id r.
Proof. unfold force, complete. destruct (is_completed (a_state r)); reflexivity. Qed.

Lemma force_completed k r : is_completed (a_state r) = true -> force k r = r.
Proof. unfold force, complete. intros ->. reflexivity. Qed.

Lemma state_of_kind_completed k : is_completed (state_of_kind k) = true.
Proof. destruct k; reflexivity. Qed.

Lemma force_open k r : is_completed (a_state r) = false ->
  force k r = mkA (a_id r) (state_of_kind k) (a_sync r) (a_hb r) (a_parent_ok r) true (Some k).
Proof. unfold force, complete. intros ->. reflexivity. Qed.

Lemma force_is_completed k r : is_completed (a_state (force k r)) = true.
Proof.
  destruct (is_completed (a_state r)) eqn:E.
  - rewrite force_completed; auto.
  - rewrite force_open; auto. cbn. apply state_of_kind_completed.
Qed.

Lemma force_force k k' r : force k' (force k r) = force k r.
Proof. apply force_completed, force_is_completed. Qed.

(* ------------------------------------------------------------------ *)
(* the checker pass, characterised row by row                          *)

Definition hit (sel : list arow) (id : nat) : bool :=
  existsb (fun s => Nat.eqb (a_id s) id && a_parent_ok s) sel.

Lemma process_rows now sel : forall tbl lg,
  fst (process now sel tbl lg) =
  map (fun r => if hit sel (a_id r) then force RHeartbeat r else r) tbl.
Proof.
  induction sel as [|s rest IH]; intros tbl lg; cbn [process hit existsb].
  - cbn. symmetry. rewrite <- (map_id tbl) at 2. reflexivity.
  - destruct (a_parent_ok s) eqn:Hp.
    + rewrite IH. unfold upd. rewrite map_map. apply map_ext. intros x.
      rewrite andb_true_r. rewrite (Nat.eqb_sym (a_id s) (a_id x)).
      destruct (Nat.eqb (a_id x) (a_id s)) eqn:E; cbn [orb].
      * rewrite force_id. fold (hit rest (a_id x)).
        destruct (hit rest (a_id x)); [apply force_force | reflexivity].
      * reflexivity.
    + rewrite IH. apply map_ext. intros x. rewrite andb_false_r. reflexivity.
Qed.

Definition hb_event (now : Z) (r : arow) : event := mkEv (a_id r) RHeartbeat now (a_hb r).

Lemma process_log now sel : forall tbl lg,
  snd (process now sel tbl lg) = lg ++ map (hb_event now) (filter a_parent_ok sel).
Proof.
  induction sel as [|s rest IH]; intros tbl lg; cbn [process filter].
  - cbn. rewrite app_nil_r. reflexivity.
  - destruct (a_parent_ok s); rewrite IH; [|reflexivity].
    cbn [map]. rewrite <- app_assoc. reflexivity.
Qed.

Lemma nodup_ids_inj (tbl : list arow) : NoDup (map a_id tbl) ->
  forall a b, In a tbl -> In b tbl -> a_id a = a_id b -> a = b.
Proof.
  induction tbl as [|x l IH]; intros Hnd a b Ha Hb E; [destruct Ha|].
  cbn in Hnd. inversion Hnd as [|? ? Hnot Hnd']; subst.
  destruct Ha as [<-|Ha], Hb as [<-|Hb]; auto.
  - exfalso. apply Hnot. rewrite E. apply in_map. exact Hb.
  - exfalso. apply Hnot. rewrite <- E. apply in_map. exact Ha.
Qed.

Definition due (c : hbcfg) (now : Z) (r : arow) : bool := expired c now r && a_parent_ok r.

Definition pass_row (c : hbcfg) (now : Z) (r : arow) : arow :=
  if due c now r then force RHeartbeat r else r.

Lemma hit_select c now tbl r : NoDup (map a_id tbl) -> In r tbl ->
  hit (select c now tbl) (a_id r) = due c now r.
Proof.
  intros Hnd Hin. unfold hit, due.
  destruct (expired c now r && a_parent_ok r) eqn:E.
  - apply existsb_exists. exists r. apply andb_true_iff in E as [E1 E2].
    split; [apply filter_In; auto|]. rewrite Nat.eqb_refl, E2. reflexivity.
  - destruct (existsb _ _) eqn:X; [|reflexivity].
    apply existsb_exists in X as (s & Hs & Hc). apply filter_In in Hs as [Hs He].
    apply andb_true_iff in Hc as [Hi Hp]. apply Nat.eqb_eq in Hi.
    assert (s = r) by (eapply nodup_ids_inj; eauto). subst s.
    rewrite He, Hp in E. discriminate.
Qed.

Lemma checker_pass_rows c now tbl lg : NoDup (map a_id tbl) ->
  fst (checker_pass c now tbl lg) = map (pass_row c now) tbl.
Proof.
  intros Hnd. unfold checker_pass. rewrite process_rows.
  apply map_ext_in. intros r Hin. rewrite hit_select by assumption. reflexivity.
Qed.

Lemma filter_filter {A} (f g : A -> bool) l :
  filter g (filter f l) = filter (fun x => f x && g x) l.
Proof.
  induction l as [|x l IH]; cbn; [reflexivity|].
  destruct (f x); cbn; [destruct (g x); rewrite IH; reflexivity | exact IH].
Qed.

Lemma checker_pass_log c now tbl lg :
  snd (checker_pass c now tbl lg) = lg ++ map (hb_event now) (filter (due c now) tbl).
Proof. unfold checker_pass, select. rewrite process_log, filter_filter. reflexivity. Qed.

(* C20_batch_isolation *)
Lemma batch_isolation c now l1 r l2 lg :
  NoDup (map a_id (l1 ++ r :: l2)) ->
  expired c now r = true -> a_parent_ok r = true ->
  fst (checker_pass c now (l1 ++ r :: l2) lg) =
    map (pass_row c now) l1 ++
    mkA (a_id r) ERROR (a_sync r) (a_hb r) true true (Some RHeartbeat) ::
    map (pass_row c now) l2.
Proof.
  intros Hnd He Hp. rewrite checker_pass_rows by assumption.
  rewrite map_app. cbn [map]. f_equal. f_equal.
  unfold pass_row, due. rewrite He, Hp. cbn [andb].
  apply expired_iff in He as (Hs & _). rewrite force_open by (rewrite Hs; reflexivity).
  rewrite Hp. reflexivity.
Qed.

Lemma broken_row_skipped c now r : a_parent_ok r = false -> pass_row c now r = r.
Proof. unfold pass_row, due. intros ->. rewrite andb_false_r. reflexivity. Qed.

Lemma pass_row_not_expired c now r : expired c now r = false -> pass_row c now r = r.
Proof. unfold pass_row, due. intros ->. reflexivity. Qed.

(* C20_disabled *)
Lemma enabled_iff c : enabled c = true <-> interval c <> 0 /\ max_missed c <> 0.
Proof. unfold enabled. rewrite andb_true_iff, !negb_true_iff, !Z.eqb_neq. tauto. Qed.

Lemma disabled_iff c : enabled c = false <-> interval c * max_missed c = 0.
Proof.
  split.
  - intros H. destruct (Z.eq_dec (interval c) 0), (Z.eq_dec (max_missed c) 0); try lia.
    assert (enabled c = true) by (apply enabled_iff; auto). congruence.
  - intros H. destruct (enabled c) eqn:E; [|reflexivity].
    apply enabled_iff in E. nia.
Qed.

Lemma service_disabled c now tbl lg :
  interval c * max_missed c = 0 -> service_pass c now tbl lg = (tbl, lg).
Proof. intros H. unfold service_pass. apply disabled_iff in H. rewrite H. reflexivity. Qed.

Lemma no_pass_when_disabled c t0 n :
  interval c * max_missed c = 0 -> first_pass_at c t0 = None /\ nth_pass_at c t0 n = None.
Proof. intros H. apply disabled_iff in H. unfold first_pass_at, nth_pass_at. rewrite H. auto. Qed.

(* ------------------------------------------------------------------ *)
(* operation sequences: shape of one step                              *)

Definition stable (f : arow -> arow) : Prop :=
  forall r, a_id (f r) = a_id r /\
            (is_completed (a_state r) = true -> a_state (f r) = a_state r /\ a_result (f r) = a_result r).

Lemma stable_id : stable (fun r => r).
Proof. intros r. auto. Qed.

Lemma stable_cond (p : arow -> bool) f : stable f -> stable (fun r => if p r then f r else r).
Proof. intros Hf r. destruct (p r); [apply Hf | auto]. Qed.

Lemma stable_force k : stable (force k).
Proof. intros r. split; [apply force_id|]. intros H. rewrite force_completed; auto. Qed.

Lemma stable_beat now : stable (beat_row now).
Proof. intros r. cbn. auto. Qed.

Lemma stable_orphan : stable orphan_row.
Proof. intros r. cbn. auto. Qed.

Lemma rows_let (p : list arow * list event) (k : Z) :
  rows (let '(t, l) := p in mkSt t k l) = fst p /\
  log (let '(t, l) := p in mkSt t k l) = snd p /\
  clock (let '(t, l) := p in mkSt t k l) = k.
Proof. destruct p; auto. Qed.

Lemma lookup_some id tbl r : lookup id tbl = Some r -> In r tbl /\ a_id r = id.
Proof.
  unfold lookup. intros H. apply find_some in H as [H1 H2]. apply Nat.eqb_eq in H2. auto.
Qed.

Lemma deliver_rows now id k tbl lg :
  fst (deliver now id k tbl lg) = tbl \/ fst (deliver now id k tbl lg) = upd id (force k) tbl.
Proof.
  unfold deliver. destruct (lookup id tbl); [|auto]. destruct (complete k a); auto.
Qed.

Lemma has_id_false id tbl : has_id id tbl = false -> ~ In id (map a_id tbl).
Proof.
  unfold has_id. intros H Hin. apply in_map_iff in Hin as (r & E & Hr).
  assert (existsb (fun r => Nat.eqb (a_id r) id) tbl = true).
  { apply existsb_exists. exists r. split; auto. apply Nat.eqb_eq. auto. }
  congruence.
Qed.

Lemma step_rows_shape c s o :
  (exists f, stable f /\ rows (step c s o) = map f (rows s)) \/
  (exists x, rows (step c s o) = rows s ++ [x] /\ ~ In (a_id x) (map a_id (rows s))).
Proof.
  destruct o as [id sy pok|ids|id g|id| |dt]; cbn [step].
  - destruct (has_id id (rows s)) eqn:H.
    + left. exists (fun r => r). split; [apply stable_id|]. rewrite map_id. reflexivity.
    + right. eexists. split; [reflexivity|]. cbn. apply has_id_false. exact H.
  - left. eexists. split; [|reflexivity]. apply stable_cond, stable_beat.
  - left. destruct (rows_let (deliver (clock s) id (kind_of g) (rows s) (log s)) (clock s)) as (-> & _ & _).
    destruct (deliver_rows (clock s) id (kind_of g) (rows s) (log s)) as [->| ->].
    + exists (fun r => r). split; [apply stable_id|]. rewrite map_id. reflexivity.
    + eexists. split; [|reflexivity]. apply stable_cond, stable_force.
  - left. eexists. split; [|reflexivity]. apply stable_cond, stable_orphan.
  - left. destruct (rows_let (service_pass c (clock s) (rows s) (log s)) (clock s)) as (-> & _ & _).
    unfold service_pass. destruct (enabled c).
    + unfold checker_pass. rewrite process_rows. eexists. split; [|reflexivity].
      apply stable_cond, stable_force.
    + exists (fun r => r). split; [apply stable_id|]. rewrite map_id. reflexivity.
  - left. exists (fun r => r). split; [apply stable_id|]. rewrite map_id. reflexivity.
Qed.

Lemma map_id_stable f tbl : stable f -> map a_id (map f tbl) = map a_id tbl.
Proof. intros Hf. rewrite map_map. apply map_ext. intros r. apply Hf. Qed.

Lemma nodup_snoc {A} (l : list A) x : NoDup l -> ~ In x l -> NoDup (l ++ [x]).
Proof.
  induction l as [|y l IH]; intros Hnd Hx; cbn.
  - constructor; auto.
  - inversion Hnd; subst. constructor.
    + rewrite in_app_iff. cbn. intros [H|[H|[]]]; [auto|]. subst. apply Hx. left. reflexivity.
    + apply IH; auto. intros H. apply Hx. right. exact H.
Qed.

Lemma nodup_step c s o : NoDup (map a_id (rows s)) -> NoDup (map a_id (rows (step c s o))).
Proof.
  intros Hnd. destruct (step_rows_shape c s o) as [(f & Hf & ->)|(x & -> & Hx)].
  - rewrite map_id_stable; auto.
  - rewrite map_app. cbn. apply nodup_snoc; auto.
Qed.

(* a finished action keeps its state and result through any operation *)
Lemma final_step c s o r :
  In r (rows s) -> is_completed (a_state r) = true ->
  exists r', In r' (rows (step c s o)) /\ a_id r' = a_id r /\
             a_state r' = a_state r /\ a_result r' = a_result r.
Proof.
  intros Hin Hc. destruct (step_rows_shape c s o) as [(f & Hf & ->)|(x & -> & Hx)].
  - exists (f r). split; [apply in_map; exact Hin|]. destruct (Hf r) as [H1 H2].
    destruct (H2 Hc). auto.
  - exists r. split; [apply in_or_app; auto | auto].
Qed.

(* C20_finished_final *)
Lemma final_run c ops : forall s r,
  In r (rows s) -> is_completed (a_state r) = true ->
  exists r', In r' (rows (run c ops s)) /\ a_id r' = a_id r /\
             a_state r' = a_state r /\ a_result r' = a_result r.
Proof.
  induction ops as [|o ops IH]; intros s r Hin Hc; cbn [run fold_left].
  - exists r. auto.
  - destruct (final_step c s o r Hin Hc) as (r1 & H1 & Hid & Hst & Hres).
    destruct (IH (step c s o) r1 H1) as (r2 & H2 & Hid2 & Hst2 & Hres2); [congruence|].
    exists r2. split; [exact H2|]. repeat split; congruence.
Qed.

(* ------------------------------------------------------------------ *)
(* the log: every action is completed (acts on its task) at most once  *)

Definition Inv (s : st) : Prop :=
  NoDup (map a_id (rows s)) /\
  NoDup (map e_id (log s)) /\
  forall e, In e (log s) ->
    exists r, In r (rows s) /\ a_id r = e_id e /\
              a_state r = state_of_kind (e_kind e) /\ a_result r = Some (e_kind e).

Lemma link_completed r k : a_state r = state_of_kind k -> is_completed (a_state r) = true.
Proof. intros ->. apply state_of_kind_completed. Qed.

Lemma nodup_app {A} (l l' : list A) :
  NoDup l -> NoDup l' -> (forall x, In x l -> ~ In x l') -> NoDup (l ++ l').
Proof.
  induction l as [|y l IH]; intros H1 H2 Hd; cbn; [exact H2|].
  inversion H1; subst. constructor.
  - rewrite in_app_iff. intros [H|H]; [auto|]. apply (Hd y); [left; reflexivity | exact H].
  - apply IH; auto. intros x Hx. apply Hd. right. exact Hx.
Qed.

Lemma nodup_map_filter {A B} (f : A -> B) p l : NoDup (map f l) -> NoDup (map f (filter p l)).
Proof.
  induction l as [|x l IH]; cbn; intros H; [constructor|].
  inversion H; subst. destruct (p x); cbn; [constructor|]; auto.
  intros Hin. apply in_map_iff in Hin as (y & E & Hy). apply filter_In in Hy as [Hy _].
  apply H2. rewrite <- E. apply in_map. exact Hy.
Qed.

(* what a step appends to the log *)
Definition new_events (c : hbcfg) (s : st) (o : op) : list event :=
  match o with
  | OResult id g =>
      match lookup id (rows s) with
      | Some r => if is_completed (a_state r) then []
                  else [mkEv id (kind_of g) (clock s) (a_hb r)]
      | None => []
      end
  | OPass => if enabled c then map (hb_event (clock s)) (filter (due c (clock s)) (rows s)) else []
  | _ => []
  end.

Lemma step_log c s o : log (step c s o) = log s ++ new_events c s o.
Proof.
  destruct o as [id sy pok|ids|id g|id| |dt]; cbn [step new_events log]; try (rewrite app_nil_r; reflexivity).
  - destruct (has_id id (rows s)); cbn; rewrite app_nil_r; reflexivity.
  - destruct (rows_let (deliver (clock s) id (kind_of g) (rows s) (log s)) (clock s)) as (_ & -> & _).
    unfold deliver, complete. destruct (lookup id (rows s)) as [r|]; [|cbn; rewrite app_nil_r; reflexivity].
    destruct (is_completed (a_state r)); cbn; [rewrite app_nil_r|]; reflexivity.
  - destruct (rows_let (service_pass c (clock s) (rows s) (log s)) (clock s)) as (_ & -> & _).
    unfold service_pass. destruct (enabled c); [apply checker_pass_log | cbn; rewrite app_nil_r; reflexivity].
Qed.

(* every new event belongs to a row that was open before the step and is
   completed, with that event's kind as its result, after it *)
Lemma new_event_row c s o e :
  NoDup (map a_id (rows s)) -> In e (new_events c s o) ->
  exists r, In r (rows s) /\ a_id r = e_id e /\ is_completed (a_state r) = false /\
            In (force (e_kind e) r) (rows (step c s o)).
Proof.
  intros Hnd Hin.
  destruct o as [id sy pok|ids|id g|id| |dt]; cbn [new_events] in Hin; try destruct Hin.
  - destruct (lookup id (rows s)) as [r|] eqn:L; [|destruct Hin].
    destruct (is_completed (a_state r)) eqn:C; [destruct Hin|].
    destruct Hin as [<-|[]]. apply lookup_some in L as L'. destruct L' as [Hr Hid].
    exists r. cbn [e_id e_kind]. repeat split; auto.
    cbn [step]. destruct (rows_let (deliver (clock s) id (kind_of g) (rows s) (log s)) (clock s)) as (-> & _ & _).
    unfold deliver, complete. rewrite L, C. cbn [fst]. unfold upd.
    apply in_map_iff. exists r. split; [|exact Hr]. rewrite Hid, Nat.eqb_refl. reflexivity.
  - destruct (enabled c) eqn:En; [|destruct Hin].
    apply in_map_iff in Hin as (r & <- & Hr). apply filter_In in Hr as [Hr Hd].
    exists r. cbn [hb_event e_id e_kind]. repeat split; auto.
    + unfold due in Hd. apply andb_true_iff in Hd as [He _]. apply expired_iff in He as (Hs & _).
      rewrite Hs. reflexivity.
    + cbn [step]. destruct (rows_let (service_pass c (clock s) (rows s) (log s)) (clock s)) as (-> & _ & _).
      unfold service_pass. rewrite En. rewrite checker_pass_rows by exact Hnd.
      apply in_map_iff. exists r. split; [|exact Hr]. unfold pass_row. rewrite Hd. reflexivity.
Qed.

Lemma new_events_nodup c s o : NoDup (map a_id (rows s)) -> NoDup (map e_id (new_events c s o)).
Proof.
  intros Hnd. destruct o as [id sy pok|ids|id g|id| |dt]; cbn [new_events]; try constructor.
  - destruct (lookup id (rows s)); [|constructor].
    destruct (is_completed (a_state a)); cbn; repeat constructor. intros [].
  - destruct (enabled c); [|constructor]. rewrite map_map. cbn [hb_event e_id].
    apply nodup_map_filter. exact Hnd.
Qed.

Lemma inv_step c s o : Inv s -> Inv (step c s o).
Proof.
  intros (Hnd & Hlog & Hlink). split; [apply nodup_step; exact Hnd|].
  rewrite step_log. split.
  - rewrite map_app. apply nodup_app; [exact Hlog | apply new_events_nodup; exact Hnd |].
    intros i Hi Hi'. apply in_map_iff in Hi as (e & <- & He). apply in_map_iff in Hi' as (e' & E & He').
    destruct (Hlink e He) as (r & Hr & Hid & Hc & _). apply link_completed in Hc.
    destruct (new_event_row c s o e' Hnd He') as (r' & Hr' & Hid' & Hc' & _).
    assert (r = r') by (eapply nodup_ids_inj; eauto; congruence). subst. congruence.
  - intros e He. apply in_app_or in He as [He|He].
    + destruct (Hlink e He) as (r & Hr & Hid & Hc & Hres).
      destruct (final_step c s o r Hr (link_completed _ _ Hc)) as (r' & H1 & H2 & H3 & H4).
      exists r'. repeat split; congruence.
    + destruct (new_event_row c s o e Hnd He) as (r & Hr & Hid & Hc & Hin).
      exists (force (e_kind e) r). split; [exact Hin|]. rewrite force_id.
      split; [exact Hid|]. rewrite force_open by exact Hc. split; reflexivity.
Qed.

Lemma inv_run c ops : forall s, Inv s -> Inv (run c ops s).
Proof.
  induction ops as [|o ops IH]; intros s H; cbn [run fold_left]; [exact H|].
  apply IH, inv_step, H.
Qed.

Lemma inv_empty t0 : Inv (mkSt [] t0 []).
Proof. repeat split; cbn; try constructor. intros e []. Qed.

(* C20_late_result_inert: over any sequence of operations each action is completed at most
   once, and the row keeps the state and result of that one completion *)
Lemma once_run c ops s :
  Inv s ->
  NoDup (map e_id (log (run c ops s))) /\
  forall e, In e (log (run c ops s)) ->
    exists r, In r (rows (run c ops s)) /\ a_id r = e_id e /\
              a_state r = state_of_kind (e_kind e) /\ a_result r = Some (e_kind e).
Proof.
  intros H. destruct (inv_run c ops s H) as (Hnd & Hlog & Hlink). split; [exact Hlog|].
  intros e He. destruct (Hlink e He) as (r & Hr & Hid & Hc & Hres).
  exists r. repeat split; auto.
Qed.

(* ------------------------------------------------------------------ *)
(* a heartbeat error is only ever recorded for a stale heartbeat        *)

Definition ev_ok (c : hbcfg) (e : event) : Prop :=
  e_kind e = RHeartbeat ->
  enabled c = true /\ exists h, e_hb e = Some h /\ h < e_at e - max_missed c * interval c.

Lemma new_events_ok c s o e : In e (new_events c s o) -> ev_ok c e.
Proof.
  intros Hin Hk.
  destruct o as [id sy pok|ids|id g|id| |dt]; cbn [new_events] in Hin; try destruct Hin.
  - destruct (lookup id (rows s)) as [r|]; [|destruct Hin].
    destruct (is_completed (a_state r)); [destruct Hin|]. destruct Hin as [<-|[]].
    cbn in Hk. destruct g; discriminate.
  - destruct (enabled c) eqn:En; [|destruct Hin]. split; [reflexivity|].
    apply in_map_iff in Hin as (r & <- & Hr). apply filter_In in Hr as [_ Hd].
    unfold due in Hd. apply andb_true_iff in Hd as [He _].
    apply expired_iff in He as (_ & _ & h & Hh & Hl). exists h. cbn. auto.
Qed.

Lemma stale_run c ops : forall s,
  (forall e, In e (log s) -> ev_ok c e) ->
  forall e, In e (log (run c ops s)) -> ev_ok c e.
Proof.
  induction ops as [|o ops IH]; intros s H; cbn [run fold_left]; [exact H|].
  apply IH. intros e. rewrite step_log, in_app_iff. intros [He|He]; [auto|].
  eapply new_events_ok; eauto.
Qed.

Lemma disabled_never_expires c ops s :
  interval c * max_missed c = 0 ->
  (forall e, In e (log s) -> e_kind e <> RHeartbeat) ->
  forall e, In e (log (run c ops s)) -> e_kind e <> RHeartbeat.
Proof.
  intros Hd H0 e He Hk. apply disabled_iff in Hd.
  assert (ev_ok c e) as Hok.
  { eapply stale_run; [|exact He]. intros e' He' Hk'. exfalso. eapply H0; eauto. }
  destruct (Hok Hk) as [En _]. congruence.
Qed.

(* ------------------------------------------------------------------ *)
(* one silent action through an arbitrary run of the other operations  *)

Definition touches (id : nat) (o : op) : bool :=
  match o with
  | OBeat ids => mem_nat id ids
  | OResult i _ => Nat.eqb i id
  | OOrphan i => Nat.eqb i id
  | _ => false
  end.

Lemma lookup_map f tbl id : (forall r, a_id (f r) = a_id r) ->
  lookup id (map f tbl) = option_map f (lookup id tbl).
Proof.
  intros Hf. unfold lookup. induction tbl as [|x l IH]; cbn; [reflexivity|].
  rewrite Hf. destruct (Nat.eqb (a_id x) id); [reflexivity | exact IH].
Qed.

Lemma lookup_snoc id l x r : lookup id l = Some r -> lookup id (l ++ [x]) = Some r.
Proof.
  unfold lookup. induction l as [|y l IH]; cbn; [discriminate|].
  destruct (Nat.eqb (a_id y) id); auto.
Qed.

Lemma pass_row_id c now r : a_id (pass_row c now r) = a_id r.
Proof. unfold pass_row. destruct (due c now r); [apply force_id | reflexivity]. Qed.

Definition after_step (c : hbcfg) (s : st) (o : op) (r : arow) : arow :=
  match o with
  | OPass => if enabled c then pass_row c (clock s) r else r
  | _ => r
  end.

Lemma untouched_step c s o id r :
  NoDup (map a_id (rows s)) -> lookup id (rows s) = Some r -> touches id o = false ->
  lookup id (rows (step c s o)) = Some (after_step c s o r).
Proof.
  intros Hnd L Ht. pose proof (lookup_some _ _ _ L) as [Hr Hid].
  destruct o as [i sy pok|ids|i g|i| |dt]; cbn [step after_step touches] in *.
  - destruct (has_id i (rows s)); [exact L|]. cbn [rows]. apply lookup_snoc. exact L.
  - cbn [rows]. unfold beat. rewrite lookup_map.
    + rewrite L. cbn. rewrite Hid, Ht. reflexivity.
    + intros x. destruct (mem_nat (a_id x) ids); reflexivity.
  - destruct (rows_let (deliver (clock s) i (kind_of g) (rows s) (log s)) (clock s)) as (-> & _ & _).
    destruct (deliver_rows (clock s) i (kind_of g) (rows s) (log s)) as [->| ->]; [exact L|].
    unfold upd. rewrite lookup_map.
    + rewrite L. cbn. rewrite Hid, (Nat.eqb_sym id i), Ht. reflexivity.
    + intros x. destruct (Nat.eqb (a_id x) i); [apply force_id | reflexivity].
  - cbn [rows]. unfold upd. rewrite lookup_map.
    + rewrite L. cbn. rewrite Hid, (Nat.eqb_sym id i), Ht. reflexivity.
    + intros x. destruct (Nat.eqb (a_id x) i); reflexivity.
  - destruct (rows_let (service_pass c (clock s) (rows s) (log s)) (clock s)) as (-> & _ & _).
    unfold service_pass. destruct (enabled c); [|exact L].
    rewrite checker_pass_rows by exact Hnd. rewrite lookup_map by (apply pass_row_id).
    rewrite L. reflexivity.
  - exact L.
Qed.

Lemma clock_step c s o :
  clock (step c s o) = clock s + match o with OTick dt => Z.of_N dt | _ => 0 end.
Proof.
  destruct o as [i sy pok|ids|i g|i| |dt]; cbn [step]; try (cbn; lia).
  - destruct (has_id i (rows s)); cbn; lia.
  - destruct (rows_let (deliver (clock s) i (kind_of g) (rows s) (log s)) (clock s)) as (_ & _ & ->). lia.
  - destruct (rows_let (service_pass c (clock s) (rows s) (log s)) (clock s)) as (_ & _ & ->). lia.
Qed.

Lemma clock_mono_step c s o : clock s <= clock (step c s o).
Proof. rewrite clock_step. destruct o; lia. Qed.

Lemma clock_mono_run c ops : forall s, clock s <= clock (run c ops s).
Proof.
  induction ops as [|o ops IH]; intros s; cbn [run fold_left]; [lia|].
  pose proof (clock_mono_step c s o). pose proof (IH (step c s o)). unfold run in *. lia.
Qed.

Lemma nodup_run c ops : forall s, NoDup (map a_id (rows s)) -> NoDup (map a_id (rows (run c ops s))).
Proof.
  induction ops as [|o ops IH]; intros s H; cbn [run fold_left]; [exact H|].
  apply IH, nodup_step, H.
Qed.

(* a silent, running, synchronous action with an existing parent *)
Definition silent_row (id : nat) (h : Z) (r : arow) : Prop :=
  a_id r = id /\ a_state r = RUNNING /\ a_sync r = Some true /\ a_hb r = Some h /\ a_parent_ok r = true.

Definition expired_form (r : arow) : arow :=
  mkA (a_id r) ERROR (a_sync r) (a_hb r) (a_parent_ok r) true (Some RHeartbeat).

Lemma force_silent id h r : silent_row id h r -> force RHeartbeat r = expired_form r.
Proof. intros (_ & Hs & _). rewrite force_open by (rewrite Hs; reflexivity). reflexivity. Qed.

Lemma pass_row_expired_form c now r : pass_row c now (expired_form r) = expired_form r.
Proof. apply pass_row_not_expired. unfold expired. cbn. rewrite andb_false_r. reflexivity. Qed.

Lemma pass_row_silent c now id h r : silent_row id h r ->
  pass_row c now r = if h <? now - max_missed c * interval c then expired_form r else r.
Proof.
  intros Hs. pose proof (force_silent _ _ _ Hs) as Hf.
  destruct Hs as (_ & Hst & Hsy & Hh & Hp).
  unfold pass_row, due, expired, exp_date. rewrite Hst, Hsy, Hh, Hp. cbn.
  rewrite !andb_true_r. destruct (h <? now - max_missed c * interval c); [exact Hf | reflexivity].
Qed.

(* no early expiry: until the clock passes h + max_missed*interval the row is untouched *)
Lemma silent_not_early c id h r ops : forall s,
  NoDup (map a_id (rows s)) -> lookup id (rows s) = Some r -> a_hb r = Some h ->
  (forall o, In o ops -> touches id o = false) ->
  clock (run c ops s) <= h + max_missed c * interval c ->
  lookup id (rows (run c ops s)) = Some r.
Proof.
  induction ops as [|o ops IH]; intros s Hnd L Hh Hu Hc; cbn [run fold_left]; [exact L|].
  cbn [run fold_left] in Hc.
  apply IH; auto.
  - apply nodup_step, Hnd.
  - rewrite (untouched_step c s o id r Hnd L) by (apply Hu; left; reflexivity).
    f_equal. destruct o; cbn [after_step]; try reflexivity.
    destruct (enabled c); [|reflexivity]. apply pass_row_not_expired.
    unfold expired, exp_date. rewrite Hh. cbn [hb_before].
    pose proof (clock_mono_run c ops (step c s OPass)) as M. unfold run in M.
    rewrite clock_step in M.
    assert (h <? clock s - max_missed c * interval c = false) as -> by lia. reflexivity.
  - intros o' Ho'. apply Hu. right. exact Ho'.
Qed.

Lemma silent_run c id h r ops : forall s,
  NoDup (map a_id (rows s)) -> silent_row id h r ->
  (lookup id (rows s) = Some r \/ lookup id (rows s) = Some (expired_form r)) ->
  (forall o, In o ops -> touches id o = false) ->
  lookup id (rows (run c ops s)) = Some r \/ lookup id (rows (run c ops s)) = Some (expired_form r).
Proof.
  induction ops as [|o ops IH]; intros s Hnd Hs L Hu; cbn [run fold_left]; [exact L|].
  apply IH; auto.
  - apply nodup_step, Hnd.
  - assert (touches id o = false) as Ht by (apply Hu; left; reflexivity).
    destruct L as [L|L]; rewrite (untouched_step c s o id _ Hnd L Ht);
      destruct o; cbn [after_step]; auto; destruct (enabled c); auto.
    + rewrite (pass_row_silent c (clock s) id h r Hs).
      destruct (h <? clock s - max_missed c * interval c); auto.
    + rewrite pass_row_expired_form. auto.
  - intros o' Ho'. apply Hu. right. exact Ho'.
Qed.

(* C20_silent_detected: whatever else happens, the first checker pass after the
   threshold leaves the silent action failed with the heartbeat error *)
Lemma silent_detected c id h r ops s :
  NoDup (map a_id (rows s)) -> silent_row id h r -> lookup id (rows s) = Some r ->
  (forall o, In o ops -> touches id o = false) ->
  enabled c = true ->
  h + max_missed c * interval c < clock (run c ops s) ->
  lookup id (rows (run c (ops ++ [OPass]) s)) =
    Some (mkA id ERROR (Some true) (Some h) true true (Some RHeartbeat)).
Proof.
  intros Hnd Hs L Hu En Hc.
  unfold run. rewrite fold_left_app. cbn [fold_left]. fold (run c ops s).
  pose proof (nodup_run c ops s Hnd) as Hnd'.
  assert (expired_form r = mkA id ERROR (Some true) (Some h) true true (Some RHeartbeat)) as Hef.
  { destruct Hs as (H1 & _ & H3 & H4 & H5). unfold expired_form. rewrite H1, H3, H4, H5. reflexivity. }
  destruct (silent_run c id h r ops s Hnd Hs (or_introl L) Hu) as [L'|L'];
    rewrite (untouched_step c _ OPass id _ Hnd' L' eq_refl); cbn [after_step]; rewrite En.
  - rewrite (pass_row_silent c _ id h r Hs).
    assert (h <? clock (run c ops s) - max_missed c * interval c = true) as -> by lia.
    rewrite Hef. reflexivity.
  - rewrite pass_row_expired_form, Hef. reflexivity.
Qed.

Lemma lookup_fresh id l x : has_id id l = false -> a_id x = id -> lookup id (l ++ [x]) = Some x.
Proof.
  unfold has_id, lookup. induction l as [|y l IH]; cbn; intros H E.
  - rewrite E, Nat.eqb_refl. reflexivity.
  - apply orb_false_iff in H as [H1 H2]. rewrite H1. auto.
Qed.

(* C20_first_heartbeat_grace *)
Lemma first_heartbeat_grace c id ops s :
  NoDup (map a_id (rows s)) -> has_id id (rows s) = false ->
  (forall o, In o ops -> touches id o = false) ->
  let r0 := create_row c (clock s) id (Some true) true in
  let s1 := run c (OCreate id (Some true) true :: ops) s in
  let limit := clock s + first_timeout c + max_missed c * interval c in
  (clock s1 <= limit -> lookup id (rows s1) = Some r0) /\
  (enabled c = true -> limit < clock s1 ->
   lookup id (rows (step c s1 OPass)) =
     Some (mkA id ERROR (Some true) (Some (clock s + first_timeout c)) true true (Some RHeartbeat))).
Proof.
  intros Hnd Hfresh Hu r0 s1 limit.
  set (s0 := step c s (OCreate id (Some true) true)).
  assert (rows s0 = rows s ++ [r0] /\ clock s0 = clock s) as [Hr0 Hc0].
  { unfold s0. cbn [step]. rewrite Hfresh. auto. }
  assert (NoDup (map a_id (rows s0))) as Hnd0 by (apply nodup_step, Hnd).
  assert (lookup id (rows s0) = Some r0) as L0 by (rewrite Hr0; apply lookup_fresh; auto).
  assert (s1 = run c ops s0) as -> by reflexivity.
  split.
  - intros Hc. apply (silent_not_early c id (clock s + first_timeout c)); auto.
  - intros En Hc.
    pose proof (silent_detected c id (clock s + first_timeout c) r0 ops s0 Hnd0) as D.
    unfold run in D. rewrite fold_left_app in D. cbn [fold_left] in D.
    assert (silent_row id (clock s + first_timeout c) r0) as Hs by (repeat split).
    assert (clock s + first_timeout c + max_missed c * interval c < clock (fold_left (step c) ops s0)) as Hc'
      by (unfold limit, run in Hc; lia).
    exact (D Hs L0 Hu En Hc').
Qed.

(* C20_fresh_protected: after a heartbeat at time t nothing expires the action
   before t + max_missed*interval has passed *)
Lemma fresh_protected c id ids r ops s :
  NoDup (map a_id (rows s)) -> lookup id (rows s) = Some r -> mem_nat id ids = true ->
  (forall o, In o ops -> touches id o = false) ->
  clock (run c (OBeat ids :: ops) s) <= clock s + max_missed c * interval c ->
  lookup id (rows (run c (OBeat ids :: ops) s)) = Some (beat_row (clock s) r).
Proof.
  intros Hnd L Hm Hu Hc. cbn [run fold_left] in *.
  apply (silent_not_early c id (clock s)); auto.
  - apply (nodup_step c s (OBeat ids)), Hnd.
  - cbn [step rows]. unfold beat. rewrite lookup_map.
    + rewrite L. cbn. destruct (lookup_some _ _ _ L) as [_ ->]. rewrite Hm. reflexivity.
    + intros x. destruct (mem_nat (a_id x) ids); reflexivity.
Qed.

(* ------------------------------------------------------------------ *)
(* integrity check                                                     *)

Lemma max_ts_spec now delay c0 cs :
  now - max_ts (child_ts c0) cs > delay <-> forall c, In c (c0 :: cs) -> now - child_ts c > delay.
Proof.
  revert c0. induction cs as [|c1 cs IH]; intros c0; cbn [max_ts].
  - split; [intros H c [<-|[]]; exact H | intros H; apply H; left; reflexivity].
  - specialize (IH c0). split.
    + intros H c [<-|[<-|Hc]].
      * apply IH; [lia | left; reflexivity].
      * lia.
      * apply IH; [lia | right; exact Hc].
    + intros H.
      assert (now - max_ts (child_ts c0) cs > delay) as H0.
      { apply IH. intros c [<-|Hc]; apply H; [left|right; right]; auto. }
      assert (now - child_ts c1 > delay) by (apply H; right; left; reflexivity). lia.
Qed.

Definition task_ts (t : trow) : Z := ts_of (t_created t) (t_updated t).

(* C20_stuck_exact *)
Lemma stuck_decision_iff delay now t :
  stuck_decision delay now t = true <->
  delay <= now - task_ts t /\ t_children t <> [] /\
  (forall c, In c (t_children t) -> is_completed (c_state c) = true) /\
  (forall c, In c (t_children t) -> now - child_ts c > delay).
Proof.
  unfold stuck_decision, task_ts.
  destruct (now - ts_of (t_created t) (t_updated t) <? delay) eqn:E1.
  - split; [discriminate | intros (H & _); lia].
  - destruct (t_children t) as [|c0 cs] eqn:Ech.
    + split; [discriminate | intros (_ & H & _); congruence].
    + destruct (forallb (fun c => is_completed (c_state c)) (c0 :: cs)) eqn:F.
      * rewrite forallb_forall in F. rewrite Z.gtb_lt.
        split.
        -- intros H. split; [lia|]. split; [discriminate|]. split; [exact F|].
           apply max_ts_spec. lia.
        -- intros (_ & _ & _ & H). apply max_ts_spec in H. lia.
      * split; [discriminate|]. intros (_ & _ & H & _).
        assert (forallb (fun c => is_completed (c_state c)) (c0 :: cs) = true) by (apply forallb_forall; exact H).
        congruence.
Qed.

(* the guards extracted from the source are exactly: negative delay, workflow missing, workflow completed *)
Lemma rearms_iff delay wf :
  rearms delay wf = true <-> 0 <= delay /\ exists ws, wf = Some ws /\ is_completed ws = false.
Proof.
  unfold rearms, rearm_guards. cbn [existsb guard_blocks].
  destruct (delay <? 0) eqn:D; cbn [orb negb].
  - split; [discriminate | intros (H & _); lia].
  - destruct wf as [ws|]; cbn [orb negb].
    + destruct (is_completed ws) eqn:C; cbn [orb negb].
      * split; [discriminate | intros (_ & ws' & E & H)]. inversion E; subst. congruence.
      * split; [intros _; split; [lia|]; exists ws; auto | reflexivity].
    + split; [discriminate | intros (_ & ws & E & _); discriminate].
Qed.

Lemma integrity_pass_unfold delay batch now wf tasks :
  integrity_pass delay batch now wf tasks =
  if delay <? 0 then (false, [])
  else match wf with
       | None => (false, [])
       | Some ws =>
           if is_completed ws then (false, [])
           else (true, map t_id (filter (stuck_decision delay now)
                                        (firstn batch (filter is_running_row tasks))))
       end.
Proof.
  unfold integrity_pass, rearms, rearm_guards. cbn [existsb guard_blocks].
  destruct (delay <? 0); cbn [orb negb]; [reflexivity|].
  destruct wf as [ws|]; cbn [orb negb]; [|reflexivity].
  destruct (is_completed ws); reflexivity.
Qed.

Lemma integrity_pass_iff delay batch now ws tasks i :
  In i (snd (integrity_pass delay batch now (Some ws) tasks)) <->
  0 <= delay /\ is_completed ws = false /\
  exists t, In t (firstn batch (filter is_running_row tasks)) /\ t_id t = i /\
            stuck_decision delay now t = true.
Proof.
  rewrite integrity_pass_unfold. destruct (delay <? 0) eqn:D.
  - cbn. split; [intros [] | intros (H & _); lia].
  - destruct (is_completed ws); cbn [snd].
    + split; [intros [] | intros (_ & H & _); discriminate].
    + rewrite in_map_iff. split.
      * intros (t & E & Ht). apply filter_In in Ht as [H1 H2]. repeat split; [lia|]. exists t. auto.
      * intros (_ & _ & t & H1 & E & H2). exists t. split; [exact E|]. apply filter_In. auto.
Qed.

Lemma firstn_all_le {A} (l : list A) n : (length l <= n)%nat -> firstn n l = l.
Proof. intros H. apply firstn_all2. exact H. Qed.

(* C20_integrity_recovers *)
Lemma integrity_recovers delay batch now ws tasks t :
  0 <= delay -> is_completed ws = false ->
  In t (firstn batch (filter is_running_row tasks)) ->
  t_children t <> [] ->
  (forall c, In c (t_children t) -> is_completed (c_state c) = true) ->
  delay <= now - task_ts t ->
  (forall c, In c (t_children t) -> delay < now - child_ts c) ->
  fst (integrity_pass delay batch now (Some ws) tasks) = true /\
  In (t_id t) (snd (integrity_pass delay batch now (Some ws) tasks)).
Proof.
  intros Hd Hw Hin Hne Hall Hts Hch. split.
  - rewrite integrity_pass_unfold. assert (delay <? 0 = false) as -> by lia. rewrite Hw. reflexivity.
  - apply integrity_pass_iff. repeat split; auto. exists t. repeat split; auto.
    apply stuck_decision_iff. repeat split; auto. intros c Hc. specialize (Hch c Hc). lia.
Qed.

Lemma in_window batch tasks t :
  In t tasks -> t_state t = RUNNING -> (length (filter is_running_row tasks) <= batch)%nat ->
  In t (firstn batch (filter is_running_row tasks)).
Proof.
  intros Hin Hs Hl. rewrite firstn_all_le by exact Hl. apply filter_In. split; [exact Hin|].
  unfold is_running_row. rewrite Hs. reflexivity.
Qed.

Lemma firstn_in {A} n : forall (l : list A) x, In x (firstn n l) -> In x l.
Proof.
  induction n as [|n IH]; intros [|y l] x H; cbn in H; try destruct H.
  - left. exact H.
  - right. apply IH. exact H.
Qed.

(* C20_integrity_never_premature *)
Lemma integrity_never_premature delay batch now wf tasks i :
  In i (snd (integrity_pass delay batch now wf tasks)) ->
  exists t, In t tasks /\ t_id t = i /\ t_state t = RUNNING /\ t_children t <> [] /\
    (forall c, In c (t_children t) -> is_completed (c_state c) = true /\ delay < now - child_ts c) /\
    delay <= now - task_ts t /\ 0 <= delay.
Proof.
  destruct wf as [ws|].
  - intros H. apply integrity_pass_iff in H as (Hd & _ & t & Hin & E & Hs).
    apply firstn_in in Hin. apply filter_In in Hin as [Hin Hr].
    apply stuck_decision_iff in Hs as (H1 & H2 & H3 & H4).
    exists t. repeat split; auto.
    + apply state_eqb_running. exact Hr.
    + specialize (H4 c H). lia.
  - rewrite integrity_pass_unfold. destruct (delay <? 0); intros [].
Qed.

(* C20_integrity_disabled *)
Lemma integrity_disabled delay batch now wf tasks :
  delay < 0 -> integrity_pass delay batch now wf tasks = (false, []).
Proof. intros H. rewrite integrity_pass_unfold. assert (delay <? 0 = true) as -> by lia. reflexivity. Qed.

Lemma integrity_finished_wf delay batch now ws tasks :
  is_completed ws = true -> integrity_pass delay batch now (Some ws) tasks = (false, []).
Proof. intros H. rewrite integrity_pass_unfold. rewrite H. destruct (delay <? 0); reflexivity. Qed.

(* C20_integrity_batch_window: only the first `batch` RUNNING tasks are ever looked at *)
Lemma integrity_window delay batch now wf tasks i :
  In i (snd (integrity_pass delay batch now wf tasks)) ->
  In i (map t_id (firstn batch (filter is_running_row tasks))).
Proof.
  destruct wf as [ws|].
  - intros H. apply integrity_pass_iff in H as (_ & _ & t & Hin & E & _).
    apply in_map_iff. exists t. auto.
  - rewrite integrity_pass_unfold. destruct (delay <? 0); intros [].
Qed.

(* the check re-schedules itself every 120 s while the workflow runs: every stuck task
   inside the window is found by all checks from some point on *)
Fixpoint max_child_ts (l : list child) : Z :=
  match l with [] => 0 | c :: r => Z.max (child_ts c) (max_child_ts r) end.

Lemma max_child_ts_ge l c : In c l -> child_ts c <= max_child_ts l.
Proof.
  induction l as [|x l IH]; intros H; [destruct H|]. cbn [max_child_ts].
  destruct H as [<-|H]; [lia|]. specialize (IH H). lia.
Qed.

Lemma integrity_eventually delay start t :
  0 <= delay -> t_children t <> [] ->
  (forall c, In c (t_children t) -> is_completed (c_state c) = true) ->
  exists n : nat, forall m : nat, (n <= m)%nat ->
    stuck_decision delay (start + 120 * Z.of_nat m) t = true.
Proof.
  intros Hd Hne Hall.
  set (T := Z.max (task_ts t) (max_child_ts (t_children t)) + delay + 1).
  exists (Z.to_nat (Z.max 0 (T - start))). intros m Hm.
  apply stuck_decision_iff. repeat split; auto.
  - unfold T in *. lia.
  - intros c Hc. pose proof (max_child_ts_ge _ _ Hc). unfold T in *. lia.
Qed.

(* ------------------------------------------------------------------ *)
(* statements used verbatim by Properties/C20.v                        *)

Lemma pass_pointwise c now tbl lg :
  NoDup (map a_id tbl) ->
  fst (checker_pass c now tbl lg) = map (pass_row c now) tbl /\
  snd (checker_pass c now tbl lg) = lg ++ map (hb_event now) (filter (due c now) tbl).
Proof. intros H. split; [apply checker_pass_rows; exact H | apply checker_pass_log]. Qed.

Lemma broken_or_fresh_untouched c now r :
  (a_parent_ok r = false \/ expired c now r = false) -> pass_row c now r = r.
Proof. intros [H|H]; [apply broken_row_skipped | apply pass_row_not_expired]; exact H. Qed.

Lemma disabled_all c :
  interval c * max_missed c = 0 ->
  (forall now tbl lg, service_pass c now tbl lg = (tbl, lg)) /\
  (forall t0 n, first_pass_at c t0 = None /\ nth_pass_at c t0 n = None) /\
  (forall ops s, (forall e, In e (log s) -> e_kind e <> RHeartbeat) ->
                 forall e, In e (log (run c ops s)) -> e_kind e <> RHeartbeat).
Proof.
  intros H. split; [|split].
  - intros. apply service_disabled. exact H.
  - intros. apply no_pass_when_disabled. exact H.
  - intros ops s. apply disabled_never_expires. exact H.
Qed.

Lemma heartbeat_error_only_if_stale c ops s :
  (forall e, In e (log s) -> ev_ok c e) ->
  forall e, In e (log (run c ops s)) -> e_kind e = RHeartbeat ->
  enabled c = true /\ exists h, e_hb e = Some h /\ h < e_at e - max_missed c * interval c.
Proof. intros H e He. exact (stale_run c ops s H e He). Qed.

(* ------------------------------------------------------------------ *)
(* the chain of periodic integrity checks never ends before the workflow does *)

Definition chain_period (delay : Z) : Z := Z.max rearm_period delay.

Lemma period_facts : 0 < rearm_period /\ 0 <= start_check_after /\ start_check_after <= rearm_period.
Proof. unfold rearm_period, start_check_after. lia. Qed.

Lemma schedule_refuses_iff delay : schedule_refuses delay = (delay <? 0).
Proof. unfold schedule_refuses, schedule_guards. cbn [existsb guard_blocks]. apply orb_false_r. Qed.

Lemma fst_integrity_pass delay batch now wf tasks :
  fst (integrity_pass delay batch now wf tasks) = rearms delay wf.
Proof. unfold integrity_pass. destruct (rearms delay wf); reflexivity. Qed.

Lemma live_iff wf : live wf = true <-> exists ws, wf = Some ws /\ is_completed ws = false.
Proof.
  destruct wf as [ws|]; cbn.
  - rewrite negb_true_iff. split; [intros H; exists ws; auto | intros (ws' & E & H); inversion E; subst; exact H].
  - split; [discriminate | intros (ws & E & _); discriminate].
Qed.

Lemma rearms_live delay wf : 0 <= delay -> live wf = true -> rearms delay wf = true.
Proof. intros Hd Hl. apply rearms_iff. split; [exact Hd|]. apply live_iff. exact Hl. Qed.

Definition Alive (delay : Z) (c : chain) : Prop :=
  0 <= delay -> live (ch_wf c) = true ->
  exists j, In j (ch_jobs c) /\ j <= ch_clock c + chain_period delay.

Definition Future (c : chain) : Prop := forall j, In j (ch_jobs c) -> ch_clock c <= j.

Lemma remove_nth_in {A} (k : nat) : forall (l : list A) x, In x (remove_nth k l) -> In x l.
Proof.
  induction k as [|k IH]; intros [|y l] x H; cbn in *; auto.
  destruct H as [H|H]; auto.
Qed.

Lemma in_remove_nth_neq {A} (k : nat) : forall (l : list A) x y,
  In x l -> nth_error l k = Some y -> x <> y -> In x (remove_nth k l).
Proof.
  induction k as [|k IH]; intros [|z l] x y Hin Hn Hne; cbn in *; try discriminate.
  - inversion Hn; subst. destruct Hin as [H|H]; [congruence | exact H].
  - destruct Hin as [H|H]; [left; exact H | right; eapply IH; eauto].
Qed.

Lemma alive_step delay batch c e : Alive delay c -> Alive delay (cstep delay batch c e).
Proof.
  intros HA. pose proof period_facts as (Hp & _ & _).
  destruct e as [dt|k|l|w|ws]; cbn [cstep].
  - destruct (forallb _ _); [|exact HA]. intros Hd Hl. destruct (HA Hd Hl) as (j & Hj & Hle).
    exists j. cbn. split; [exact Hj | lia].
  - destruct (nth_error (ch_jobs c) k) as [due|]; [|exact HA].
    destruct (due <=? ch_clock c); [|exact HA].
    intros Hd Hl. cbn [ch_wf ch_jobs ch_clock] in *.
    rewrite fst_integrity_pass, (rearms_live _ _ Hd Hl).
    exists (next_check_at (ch_clock c)). split; [apply in_or_app; right; left; reflexivity|].
    unfold next_check_at, chain_period. lia.
  - exact HA.
  - destruct (live (ch_wf c)) eqn:L; [|exact HA]. intros Hd _. exact (HA Hd L).
  - intros Hd _. cbn [ch_wf ch_jobs ch_clock].
    rewrite schedule_refuses_iff. assert (delay <? 0 = false) as -> by lia.
    exists (ch_clock c + delay). split; [apply in_or_app; right; right; left; reflexivity|].
    unfold chain_period. lia.
Qed.

Lemma future_step delay batch c e : Future c -> Future (cstep delay batch c e).
Proof.
  intros HF. pose proof period_facts as (Hp & _ & _).
  destruct e as [dt|k|l|w|ws]; cbn [cstep].
  - destruct (forallb _ _) eqn:F; [|exact HF]. intros j Hj. cbn in *.
    rewrite forallb_forall in F. specialize (F j Hj). lia.
  - destruct (nth_error (ch_jobs c) k) as [due|]; [|exact HF].
    destruct (due <=? ch_clock c); [|exact HF].
    intros j Hj. cbn [ch_jobs ch_clock] in *. apply in_app_or in Hj as [Hj|Hj].
    + apply HF. eapply remove_nth_in; eauto.
    + destruct (fst _); [|destruct Hj]. destruct Hj as [<-|[]]. unfold next_check_at. lia.
  - exact HF.
  - destruct (live (ch_wf c)); exact HF.
  - intros j Hj. cbn [ch_jobs ch_clock] in *. apply in_app_or in Hj as [Hj|Hj]; [apply HF; exact Hj|].
    rewrite schedule_refuses_iff in Hj. destruct (delay <? 0) eqn:D; [destruct Hj|].
    destruct Hj as [<-|[<-|[]]]; lia.
Qed.

(* C20_chain_never_ends *)
Lemma alive_run delay batch evs : forall c, Alive delay c -> Alive delay (crun delay batch evs c).
Proof.
  induction evs as [|e evs IH]; intros c H; cbn [crun fold_left]; [exact H|].
  apply IH, alive_step, H.
Qed.

Lemma future_run delay batch evs : forall c, Future c -> Future (crun delay batch evs c).
Proof.
  induction evs as [|e evs IH]; intros c H; cbn [crun fold_left]; [exact H|].
  apply IH, future_step, H.
Qed.

Lemma chain_start_ok delay ws t0 : Alive delay (chain_start delay ws t0) /\ Future (chain_start delay ws t0).
Proof.
  pose proof period_facts as (Hp & Hs0 & Hs). unfold chain_start. rewrite schedule_refuses_iff. split.
  - intros Hd _. cbn. assert (delay <? 0 = false) as -> by lia.
    exists (t0 + start_check_after). split; [left; reflexivity|]. unfold chain_period. lia.
  - intros j Hj. cbn in *. destruct (delay <? 0); [destruct Hj|]. destruct Hj as [<-|[]]. lia.
Qed.

Lemma chain_alive delay batch evs c :
  Alive delay c -> 0 <= delay -> live (ch_wf (crun delay batch evs c)) = true ->
  ch_jobs (crun delay batch evs c) <> [].
Proof.
  intros HA Hd Hl. destruct (alive_run delay batch evs c HA Hd Hl) as (j & Hj & _).
  intros E. rewrite E in Hj. destruct Hj.
Qed.

(* a pending check is never skipped: once the clock is past its due time it has run *)
Definition seen (j : Z) (c : chain) : Prop := In j (ch_jobs c) \/ exists ids, In (j, ids) (ch_fired c).

Lemma seen_step delay batch c e j : Future c -> seen j c -> seen j (cstep delay batch c e).
Proof.
  intros HF [Hj|(ids & Hf)].
  - destruct e as [dt|k|l|w|ws]; cbn [cstep].
    + destruct (forallb _ _); left; exact Hj.
    + destruct (nth_error (ch_jobs c) k) as [due|] eqn:N; [|left; exact Hj].
      destruct (due <=? ch_clock c) eqn:L; [|left; exact Hj].
      destruct (Z.eq_dec j due) as [->|Hne].
      * right. assert (due = ch_clock c) as -> by (apply nth_error_In in N; specialize (HF due N); lia).
        eexists. cbn. apply in_or_app. right. left. reflexivity.
      * left. cbn. apply in_or_app. left. eapply in_remove_nth_neq; eauto.
    + left. exact Hj.
    + destruct (live (ch_wf c)); left; exact Hj.
    + left. cbn. apply in_or_app. left. exact Hj.
  - right. exists ids. destruct e as [dt|k|l|w|ws]; cbn [cstep]; auto.
    + destruct (forallb _ _); exact Hf.
    + destruct (nth_error (ch_jobs c) k); [|exact Hf]. destruct (_ <=? _); [|exact Hf].
      cbn. apply in_or_app. left. exact Hf.
    + destruct (live (ch_wf c)); exact Hf.
Qed.

Lemma seen_run delay batch evs j : forall c, Future c -> seen j c -> seen j (crun delay batch evs c).
Proof.
  induction evs as [|e evs IH]; intros c HF H; cbn [crun fold_left]; [exact H|].
  apply IH; [apply future_step, HF | apply seen_step; assumption].
Qed.

(* C20_check_not_skipped *)
Lemma check_not_skipped delay batch evs c j :
  Future c -> In j (ch_jobs c) -> j < ch_clock (crun delay batch evs c) ->
  exists ids, In (j, ids) (ch_fired (crun delay batch evs c)).
Proof.
  intros HF Hj Hc. destruct (seen_run delay batch evs j c HF (or_introl Hj)) as [H|H]; [|exact H].
  pose proof (future_run delay batch evs c HF j H). lia.
Qed.

(* liveness: a task that is RUNNING with all its executions finished (by T0) inside the batch window
   has its completion handling re-triggered before the clock passes max(now, T0+delay) + period *)
Definition stuck_in (batch : nat) (T0 : Z) (t : trow) (l : list trow) : Prop :=
  In t (firstn batch (filter is_running_row l)) /\ t_children t <> [] /\
  (forall c, In c (t_children t) -> is_completed (c_state c) = true /\ child_ts c <= T0) /\
  task_ts t <= T0.

Definition admissible (batch : nat) (T0 : Z) (t : trow) (e : cev) : Prop :=
  match e with
  | CTasks l => stuck_in batch T0 t l
  | CWf w => live w = true
  | CRerun ws => is_completed ws = false
  | _ => True
  end.

Definition Done (t : trow) (c : chain) : Prop :=
  exists at_ ids, In (at_, ids) (ch_fired c) /\ In (t_id t) ids.

Definition Rinv (batch : nat) (T0 B : Z) (t : trow) (c : chain) : Prop :=
  live (ch_wf c) = true /\ stuck_in batch T0 t (ch_tasks c) /\ Future c /\
  (Done t c \/ exists j, In j (ch_jobs c) /\ j <= B).

Lemma done_step delay batch t c e : Done t c -> Done t (cstep delay batch c e).
Proof.
  intros (a & ids & Hf & Hi). exists a, ids. split; [|exact Hi].
  destruct e as [dt|k|l|w|ws]; cbn [cstep]; auto.
  - destruct (forallb _ _); exact Hf.
  - destruct (nth_error (ch_jobs c) k); [|exact Hf]. destruct (_ <=? _); [|exact Hf].
    cbn. apply in_or_app. left. exact Hf.
  - destruct (live (ch_wf c)); exact Hf.
Qed.

Lemma rinv_step delay batch T0 B t c e :
  0 <= delay -> T0 + delay + chain_period delay <= B ->
  Rinv batch T0 B t c -> admissible batch T0 t e -> Rinv batch T0 B t (cstep delay batch c e).
Proof.
  intros Hd HB (Hl & Hs & HF & HK) Ha.
  pose proof (future_step delay batch c e HF) as HF'.
  destruct e as [dt|k|l|w|ws]; cbn [cstep] in *.
  - destruct (forallb _ _); (split; [|split; [|split]]); cbn; auto.
  - destruct (nth_error (ch_jobs c) k) as [due|] eqn:N; [|(split; [|split; [|split]]); auto].
    destruct (due <=? ch_clock c) eqn:L; [|(split; [|split; [|split]]); auto].
    split; [exact Hl|]. split; [exact Hs|]. split; [exact HF'|].
    destruct HK as [HD|_].
    { left. apply (done_step delay batch t c (CFire k)) in HD. cbn [cstep] in HD. rewrite N, L in HD. exact HD. }
    assert (due = ch_clock c) as Edue by (apply nth_error_In in N; specialize (HF due N); lia).
    destruct (Z_le_gt_dec (ch_clock c) (T0 + delay)) as [Hearly|Hlate].
    + right. exists (next_check_at (ch_clock c)). cbn [ch_jobs]. split.
      * apply in_or_app. right. rewrite fst_integrity_pass, (rearms_live _ _ Hd Hl). left. reflexivity.
      * unfold next_check_at, chain_period in *. lia.
    + left. apply live_iff in Hl as (ws & Ew & Hc). destruct Hs as (Hw & Hne & Hch & Hts).
      exists (ch_clock c), (snd (integrity_pass delay batch (ch_clock c) (ch_wf c) (ch_tasks c))).
      split; [cbn; apply in_or_app; right; left; reflexivity|].
      rewrite Ew. apply integrity_recovers; auto.
      * intros x Hx. apply Hch. exact Hx.
      * lia.
      * intros x Hx. destruct (Hch x Hx). lia.
  - (split; [|split; [|split]]); cbn; auto.
  - rewrite Hl in *. (split; [|split; [|split]]); cbn; auto.
  - split; [cbn; rewrite Ha; reflexivity|]. split; [exact Hs|]. split; [exact HF'|].
    destruct HK as [HD|(j & Hj & Hle)]; [left; exact HD|].
    right. exists j. split; [cbn; apply in_or_app; left; exact Hj | exact Hle].
Qed.

Lemma rinv_run delay batch T0 B t evs : forall c,
  0 <= delay -> T0 + delay + chain_period delay <= B ->
  Rinv batch T0 B t c -> Forall (admissible batch T0 t) evs ->
  Rinv batch T0 B t (crun delay batch evs c).
Proof.
  induction evs as [|e evs IH]; intros c Hd HB HR Ha; cbn [crun fold_left]; [exact HR|].
  inversion Ha; subst. apply IH; auto. apply rinv_step; auto.
Qed.

(* C20_stuck_task_repaired *)
Lemma stuck_task_repaired delay batch T0 t evs c :
  0 <= delay -> live (ch_wf c) = true -> stuck_in batch T0 t (ch_tasks c) ->
  Alive delay c -> Future c -> Forall (admissible batch T0 t) evs ->
  Z.max (ch_clock c) (T0 + delay) + chain_period delay < ch_clock (crun delay batch evs c) ->
  Done t (crun delay batch evs c).
Proof.
  intros Hd Hl Hs HA HF Ha Hc.
  set (B := Z.max (ch_clock c) (T0 + delay) + chain_period delay) in *.
  assert (Rinv batch T0 B t c) as HR.
  { split; [exact Hl|]. split; [exact Hs|]. split; [exact HF|].
    right. destruct (HA Hd Hl) as (j & Hj & Hle). exists j. split; [exact Hj|]. unfold B. lia. }
  destruct (rinv_run delay batch T0 B t evs c Hd ltac:(unfold B; lia) HR Ha) as (_ & _ & HF' & [HD|(j & Hj & Hle)]);
    [exact HD|].
  specialize (HF' j Hj). lia.
Qed.
